package ctl

// BOUNDED stand-in (never counted as proved): random set-field contents are
// written into a source field of a running 1-node test cluster, exported with
// the real ExportCommand (every shard, CSV), and the CSV is imported with the
// real ImportCommand into an EMPTY field with the same options in another
// index.  The destination must hold exactly the bits (and keys) of the model.
// Injected with `go test -overlay` into ctl/; results go to $RCHECK_OUT.
// Serves C30.

import (
	"bytes"
	"context"
	"encoding/csv"
	"encoding/json"
	"fmt"
	"io/ioutil"
	"math/rand"
	"os"
	"path/filepath"
	"sort"
	"strconv"
	"strings"
	"testing"

	"github.com/pilosa/pilosa"
	"github.com/pilosa/pilosa/test"
)

type cvFailure struct {
	Props []string `json:"props"`
	What  string   `json:"what"`
	Sig   string   `json:"signature"`
	Seq   []string `json:"sequence"`
}

type cvResult struct {
	Harness     string        `json:"harness"`
	Bound       string        `json:"bound"`
	Evaluations int           `json:"evaluations"`
	Distinct    int           `json:"distinct_nontrivial"`
	Rule        string        `json:"rule"`
	Exhaustive  bool          `json:"exhaustive"`
	Samples     []interface{} `json:"samples"`
	Failures    []cvFailure   `json:"failures"`
	Notes       []string      `json:"notes,omitempty"`
}

const cvSW = pilosa.ShardWidth

var cvRowIDs = []uint64{0, 1, 2, 255, 256, 65535, 65536, 1 << 31}
var cvColOffsets = []uint64{0, 1, 2, 65535, 65536, 65537, cvSW/2 + 3, cvSW - 2, cvSW - 1}
var cvShards = []uint64{0, 1, 3} // shard 2 stays empty: the export has to cope with a gap
var cvRowKeys = []string{"r", "row2", "a,b", `say "hi"`, `"`, ",", "ü", "日本語", "x y", "'q'", "R", "0", "1", " lead", "trail ", "\u00a0nbsp\u00a0"}
var cvColKeys = []string{"c", "col2", "c,d", `q"uo"te`, `""`, ",,", "ö-ä", "列", "sp ace", "C", "0", "7", "a;b", "tab\there", " c ", "end\t"}

type cvPair struct{ Row, Col string }

type cvRun struct {
	t     *testing.T
	res   *cvResult
	cmd   *test.Command
	seq   []string
	evals int
	dir   string
}

func (r *cvRun) fail(sig, what string, props ...string) {
	for _, f := range r.res.Failures {
		if f.Sig == sig {
			return
		}
	}
	if len(props) == 0 {
		props = []string{"C30"}
	}
	seq := r.seq
	if len(seq) > 40 {
		seq = seq[:40]
	}
	r.res.Failures = append(r.res.Failures, cvFailure{Props: props, What: what, Sig: sig, Seq: append([]string{}, seq...)})
}

func (r *cvRun) guard(where string, f func() error) (err error) {
	defer func() {
		if p := recover(); p != nil {
			err = fmt.Errorf("panic: %v", p)
			r.fail("panic-"+where, fmt.Sprintf("%s panicked: %v", where, p))
		}
	}()
	return f()
}

func cvShort(s string) string {
	if len(s) > 220 {
		return s[:220] + "..."
	}
	return s
}

func cvSorted(m map[cvPair]bool) []cvPair {
	out := make([]cvPair, 0, len(m))
	for p := range m {
		out = append(out, p)
	}
	sort.Slice(out, func(i, j int) bool {
		if out[i].Row != out[j].Row {
			return out[i].Row < out[j].Row
		}
		return out[i].Col < out[j].Col
	})
	return out
}

func cvDiff(got, want map[cvPair]bool) string {
	missing, extra := []string{}, []string{}
	for _, p := range cvSorted(want) {
		if !got[p] {
			missing = append(missing, fmt.Sprintf("(%q,%q)", p.Row, p.Col))
		}
	}
	for _, p := range cvSorted(got) {
		if !want[p] {
			extra = append(extra, fmt.Sprintf("(%q,%q)", p.Row, p.Col))
		}
	}
	if len(missing) == 0 && len(extra) == 0 {
		return ""
	}
	if len(missing) > 5 {
		missing = append(missing[:5], fmt.Sprintf("...%d in all", len(missing)))
	}
	if len(extra) > 5 {
		extra = append(extra[:5], fmt.Sprintf("...%d in all", len(extra)))
	}
	return fmt.Sprintf("missing (row,col) %v, unexpected %v (of %d expected bits)", missing, extra, len(want))
}

type cvCase struct {
	n        int
	colKeys  bool
	rowKeys  bool
	cache    string
	size     uint32
	bufSize  int
	sortFlag bool
	viaFile  bool
	pairs    map[cvPair]bool
	order    []cvPair // insertion order (decides key ids)
}

func (c *cvCase) String() string {
	return fmt.Sprintf("case %d: columnKeys=%v rowKeys=%v cache=%s/%d importBuffer=%d sort=%v exportToFile=%v bits=%d", c.n, c.colKeys, c.rowKeys, c.cache, c.size, c.bufSize, c.sortFlag, c.viaFile, len(c.pairs))
}

func cvGen(rng *rand.Rand, n int) *cvCase {
	c := &cvCase{n: n, colKeys: rng.Intn(2) == 0, rowKeys: rng.Intn(2) == 0, pairs: map[cvPair]bool{}}
	c.cache = []string{pilosa.CacheTypeRanked, pilosa.CacheTypeLRU, pilosa.CacheTypeNone}[rng.Intn(3)]
	c.size = []uint32{1, 10, 50000}[rng.Intn(3)]
	c.bufSize = []int{1, 3, 7, 10000000}[rng.Intn(4)]
	c.sortFlag = rng.Intn(2) == 0
	c.viaFile = rng.Intn(2) == 0
	nbits := 0
	switch rng.Intn(6) {
	case 0:
		nbits = 0
	case 1:
		nbits = 1
	default:
		nbits = 2 + rng.Intn(40)
	}
	// a case uses a sub-pool so that rows repeat
	shards := []uint64{}
	for _, s := range cvShards {
		if rng.Intn(3) > 0 {
			shards = append(shards, s)
		}
	}
	if len(shards) == 0 {
		shards = []uint64{cvShards[rng.Intn(len(cvShards))]}
	}
	for i := 0; i < nbits; i++ {
		var p cvPair
		if c.rowKeys {
			p.Row = cvRowKeys[rng.Intn(len(cvRowKeys))]
		} else {
			p.Row = strconv.FormatUint(cvRowIDs[rng.Intn(len(cvRowIDs))], 10)
		}
		if c.colKeys {
			p.Col = cvColKeys[rng.Intn(len(cvColKeys))]
		} else {
			p.Col = strconv.FormatUint(shards[rng.Intn(len(shards))]*cvSW+cvColOffsets[rng.Intn(len(cvColOffsets))], 10)
		}
		if !c.pairs[p] {
			c.pairs[p] = true
			c.order = append(c.order, p)
		}
	}
	return c
}

func cvU(s string) uint64 {
	v, _ := strconv.ParseUint(s, 10, 64)
	return v
}

// fill writes the case contents into index/field through API.Import.
func (r *cvRun) fill(c *cvCase, index string) {
	ctx := context.Background()
	groups := map[uint64][]cvPair{}
	if c.colKeys || c.rowKeys {
		groups[0] = c.order
	} else {
		for _, p := range c.order {
			groups[cvU(p.Col)/cvSW] = append(groups[cvU(p.Col)/cvSW], p)
		}
	}
	shards := []uint64{}
	for s := range groups {
		shards = append(shards, s)
	}
	sort.Slice(shards, func(i, j int) bool { return shards[i] < shards[j] })
	for _, s := range shards {
		req := &pilosa.ImportRequest{Index: index, Field: "f", Shard: s}
		for _, p := range groups[s] {
			if c.rowKeys {
				req.RowKeys = append(req.RowKeys, p.Row)
			} else {
				req.RowIDs = append(req.RowIDs, cvU(p.Row))
			}
			if c.colKeys {
				req.ColumnKeys = append(req.ColumnKeys, p.Col)
			} else {
				req.ColumnIDs = append(req.ColumnIDs, cvU(p.Col))
			}
		}
		if len(groups[s]) == 0 {
			continue
		}
		if err := r.guard("fill", func() error { return r.cmd.API.Import(ctx, req) }); err != nil {
			r.t.Fatalf("filling the source field: %v", err)
		}
	}
}

func cvParseCSV(data []byte) (map[cvPair]bool, int, error) {
	rd := csv.NewReader(bytes.NewReader(data))
	rd.FieldsPerRecord = -1
	recs, err := rd.ReadAll()
	if err != nil {
		return nil, 0, err
	}
	out := map[cvPair]bool{}
	for _, rec := range recs {
		if len(rec) != 2 {
			return nil, 0, fmt.Errorf("record with %d fields: %q", len(rec), rec)
		}
		out[cvPair{rec[0], rec[1]}] = true
	}
	return out, len(recs), nil
}

// export runs the real export command and returns the CSV bytes.
func (r *cvRun) export(index string, toFile bool, name string) ([]byte, string, error) {
	var stdout, stderr bytes.Buffer
	cm := NewExportCommand(bytes.NewReader(nil), &stdout, &stderr)
	cm.Host = r.cmd.API.Node().URI.HostPort()
	cm.Index = index
	cm.Field = "f"
	path := filepath.Join(r.dir, name)
	if toFile {
		cm.Path = path
		// the target file may exist already (an earlier, longer export): the
		// export must replace it, not write over its beginning
		stale := bytes.Repeat([]byte("4000000000,4000000000\n"), 64)
		if err := ioutil.WriteFile(path, stale, 0o644); err != nil {
			return nil, "", err
		}
	}
	err := r.guard("export", func() error { return cm.Run(context.Background()) })
	if err != nil {
		return nil, "", err
	}
	if toFile {
		data, err := ioutil.ReadFile(path)
		return data, path, err
	}
	if err := ioutil.WriteFile(path, stdout.Bytes(), 0o644); err != nil {
		return nil, "", err
	}
	return stdout.Bytes(), path, nil
}

// readField reads the field through queries: Rows() for the row identities and
// Row() per row (row keys that PQL text can carry: ASCII only).
func (r *cvRun) readField(c *cvCase, index string, rows []string) (map[cvPair]bool, []string, error) {
	ctx := context.Background()
	out := map[cvPair]bool{}
	resp, err := r.cmd.API.Query(ctx, &pilosa.QueryRequest{Index: index, Query: "Rows(f)"})
	if err != nil {
		return nil, nil, err
	}
	ri, ok := resp.Results[0].(pilosa.RowIdentifiers)
	if !ok {
		return nil, nil, fmt.Errorf("Rows(f) returned %T", resp.Results[0])
	}
	rowIDs := []string{}
	if c.rowKeys {
		rowIDs = append(rowIDs, ri.Keys...)
	} else {
		for _, id := range ri.Rows {
			rowIDs = append(rowIDs, strconv.FormatUint(id, 10))
		}
	}
	sort.Strings(rowIDs)
	for _, row := range rows {
		lit := row
		if c.rowKeys {
			lit = strconv.Quote(row)
		}
		resp, err := r.cmd.API.Query(ctx, &pilosa.QueryRequest{Index: index, Query: fmt.Sprintf("Row(f=%s)", lit)})
		if err != nil {
			if c.rowKeys && strings.Contains(err.Error(), "could not convert") {
				continue // unknown key: the row is empty
			}
			return nil, nil, fmt.Errorf("Row(f=%s): %v", lit, err)
		}
		row0, ok := resp.Results[0].(*pilosa.Row)
		if !ok {
			return nil, nil, fmt.Errorf("Row(f=%s) returned %T", lit, resp.Results[0])
		}
		if c.colKeys {
			for _, k := range row0.Keys {
				out[cvPair{row, k}] = true
			}
		} else {
			for _, col := range row0.Columns() {
				out[cvPair{row, strconv.FormatUint(col, 10)}] = true
			}
		}
	}
	return out, rowIDs, nil
}

func cvASCII(s string) bool {
	for i := 0; i < len(s); i++ {
		if s[i] >= 0x80 {
			return false
		}
	}
	return true
}

func (r *cvRun) runCase(c *cvCase) {
	ctx := context.Background()
	src, dst := fmt.Sprintf("s%d", c.n), fmt.Sprintf("d%d", c.n)
	r.seq = []string{c.String()}
	for i, p := range c.order {
		if i < 30 {
			r.seq = append(r.seq, fmt.Sprintf("bit row=%q col=%q", p.Row, p.Col))
		}
	}
	opts := []pilosa.FieldOption{pilosa.OptFieldTypeSet(c.cache, c.size)}
	if c.rowKeys {
		opts = append(opts, pilosa.OptFieldKeys())
	}
	for _, in := range []string{src, dst} {
		if _, err := r.cmd.API.CreateIndex(ctx, in, pilosa.IndexOptions{Keys: c.colKeys, TrackExistence: in == src}); err != nil {
			r.t.Fatal(err)
		}
		if _, err := r.cmd.API.CreateField(ctx, in, "f", opts...); err != nil {
			r.t.Fatal(err)
		}
	}
	defer func() {
		_ = r.cmd.API.DeleteIndex(ctx, src)
		_ = r.cmd.API.DeleteIndex(ctx, dst)
	}()
	r.fill(c, src)

	// rows that can be read with a Row() query
	rowSet := map[string]bool{}
	for p := range c.pairs {
		rowSet[p.Row] = true
	}
	allRows := []string{}
	qRows := []string{}
	for row := range rowSet {
		allRows = append(allRows, row)
		if cvASCII(row) {
			qRows = append(qRows, row)
		}
	}
	sort.Strings(allRows)
	sort.Strings(qRows)
	wantQ := map[cvPair]bool{}
	for p := range c.pairs {
		if cvASCII(p.Row) {
			wantQ[p] = true
		}
	}

	// sanity: the source holds the model (otherwise this is not an export/import matter)
	if got, rows, err := r.readField(c, src, qRows); err != nil {
		r.t.Fatalf("reading the source field: %v (%s)", err, c)
	} else if d := cvDiff(got, wantQ); d != "" || fmt.Sprint(rows) != fmt.Sprint(allRows) {
		if len(r.res.Notes) < 5 {
			r.res.Notes = append(r.res.Notes, fmt.Sprintf("source field differs from the model before any export (not a C30 matter): %s rows %q vs %q (%s)", d, rows, allRows, c))
		}
		return
	}

	// ---- export every shard with the real command
	data, path, err := r.export(src, c.viaFile, fmt.Sprintf("export-%d.csv", c.n))
	r.evals++
	if err != nil {
		r.fail("export-error", fmt.Sprintf("export command failed: %v", err))
		return
	}
	defer os.Remove(path)
	exported, nrec, err := cvParseCSV(data)
	if err != nil {
		r.fail("export-csv-unparsable", fmt.Sprintf("exported CSV does not parse: %v; output %q", err, cvShort(string(data))))
		return
	}
	r.evals++
	if d := cvDiff(exported, c.pairs); d != "" {
		r.fail("export-csv-content", "exported CSV differs from the field contents: "+d+"; output "+strconv.Quote(cvShort(string(data))))
	} else if nrec != len(c.pairs) {
		r.fail("export-csv-duplicates", fmt.Sprintf("exported CSV has %d records for %d bits", nrec, len(c.pairs)))
	}

	// ---- import the output into the empty destination with the real command
	var stdout, stderr bytes.Buffer
	im := NewImportCommand(bytes.NewReader(nil), &stdout, &stderr)
	im.Host = r.cmd.API.Node().URI.HostPort()
	im.Index, im.Field = dst, "f"
	im.Paths = []string{path}
	im.BufferSize = c.bufSize
	im.Sort = c.sortFlag
	r.evals++
	if err := r.guard("import", func() error { return im.Run(ctx) }); err != nil {
		r.fail("import-error", fmt.Sprintf("import command refused the exported CSV: %v; csv %q", err, cvShort(string(data))))
		return
	}

	// ---- compare the destination with the model
	got, rows, err := r.readField(c, dst, qRows)
	r.evals += 2
	if err != nil {
		r.fail("roundtrip-read-error", fmt.Sprintf("reading the destination failed: %v", err))
		return
	}
	if fmt.Sprint(rows) != fmt.Sprint(allRows) {
		r.fail("roundtrip-rows", fmt.Sprintf("Rows(f) of the destination = %q, source/model %q", rows, allRows))
	}
	if d := cvDiff(got, wantQ); d != "" {
		r.fail("roundtrip-row", "Row() answers of the destination differ from the source/model: "+d)
	}
	// second read path (covers rows whose key PQL text cannot carry): export of the destination
	data2, path2, err := r.export(dst, false, fmt.Sprintf("export-%d-dst.csv", c.n))
	r.evals++
	if err != nil {
		r.fail("roundtrip-export-error", fmt.Sprintf("export of the destination failed: %v", err))
		return
	}
	defer os.Remove(path2)
	exported2, _, err := cvParseCSV(data2)
	if err != nil {
		r.fail("export-csv-unparsable", fmt.Sprintf("exported CSV of the destination does not parse: %v", err))
		return
	}
	if d := cvDiff(exported2, c.pairs); d != "" {
		r.fail("roundtrip-export", "export of the destination differs from the source/model: "+d)
	}
}

func TestRcheckCsvio(t *testing.T) {
	seed := int64(1)
	if s := os.Getenv("VERIF_SEED"); s != "" {
		if v, err := strconv.ParseInt(s, 10, 64); err == nil {
			seed = v
		}
	}
	nCases := 40
	if os.Getenv("VERIF_TIER") == "thorough" {
		nCases = 1200
	}
	dir, err := ioutil.TempDir("", "rcheck-csvio-")
	if err != nil {
		t.Fatal(err)
	}
	defer os.RemoveAll(dir)
	// The test servers map only 140000 bytes of key translation log and the log
	// keeps the keys of deleted indexes: a fresh server every 25 cases.
	cluster := test.MustRunCluster(t, 1)
	defer func() { cluster.Close() }()
	res := &cvResult{Harness: "csvio", Failures: []cvFailure{}, Samples: []interface{}{},
		Rule: "a case = one set field content (set of (row,column) bits, by id or by key) exported with ExportCommand and imported with ImportCommand into an empty field of the same options in another index; compared: parsed CSV vs model, Rows(f) and Row(f=r) of the destination vs model, export of the destination vs model; non-trivial when the field holds at least one bit; distinct by content and options"}
	r := &cvRun{t: t, res: res, cmd: cluster[0], dir: dir}
	rng := rand.New(rand.NewSource(seed))
	seen := map[string]bool{}
	for n := 0; n < nCases; n++ {
		if n > 0 && n%25 == 0 {
			cluster.Close()
			cluster = test.MustRunCluster(t, 1)
			r.cmd = cluster[0]
		}
		c := cvGen(rng, n)
		r.runCase(c)
		if len(c.pairs) > 0 {
			key := fmt.Sprintf("%v %v %s %d %v", c.colKeys, c.rowKeys, c.cache, c.size, cvSorted(c.pairs))
			if !seen[key] {
				seen[key] = true
				res.Distinct++
				if len(res.Samples) < 3 {
					s := r.seq
					if len(s) > 8 {
						s = s[:8]
					}
					res.Samples = append(res.Samples, append([]string{}, s...))
				}
			}
		}
	}
	res.Evaluations = r.evals
	res.Bound = fmt.Sprintf("%d cases on a 1-node cluster: set field (cache ranked|lru|none, size 1|10|50000), column keys on/off, row keys on/off, 0..41 bits; row ids %v, columns = shard {0,1,3} (shard 2 left empty) * ShardWidth + %v, row keys %q, column keys %q; import buffer size 1|3|7|default, sort on/off, export to file or stdout; seed %d",
		nCases, cvRowIDs, cvColOffsets, cvRowKeys, cvColKeys, seed)
	if out := os.Getenv("RCHECK_OUT"); out != "" {
		data, _ := json.MarshalIndent(res, "", " ")
		if err := ioutil.WriteFile(out, data, 0o644); err != nil {
			t.Fatal(err)
		}
	}
	for _, f := range res.Failures {
		t.Logf("FAIL %v %s: %s", f.Props, f.Sig, f.What)
	}
	for _, n := range res.Notes {
		t.Logf("NOTE %s", n)
	}
}
