package pilosa_test

// BOUNDED stand-in (never counted as proved) for C24 (key translation is a
// stable bijection) and C25 (attributes merge, persist and diff correctly).
// External test (package pilosa_test) because the real attribute store lives in
// package boltdb, which imports package pilosa.  Injected with `go test
// -overlay`; results go to $RCHECK_OUT.  Strictly sequential (one caller).
//
// C24: the real pilosa.TranslateFile is driven with random batches
// (TranslateColumnsToUint64 / TranslateRowsToUint64 with repeated, empty, long
// and Unicode keys, and bursts of > 500 keys per namespace to force two growths
// of the hash table), reverse translations, close + reopen, and a real replica
// (SetPrimaryStore -> monitorReplication -> replicate) fed from the primary's
// real Reader through a wrapper that stops the stream at a chosen byte offset
// (an entry boundary or the middle of an entry); the replica is then closed,
// reopened and resumed.  Against a map model it is checked that every key gets
// one positive id that never changes, ids are distinct per namespace, reverse
// translation returns the key, nothing changes over reopen, namespaces are
// independent, and the resumed replica holds the identical mapping.
//
// C25: the real boltdb attribute store (standalone, and the one inside a
// one-node server driven through SetColumnAttrs / SetRowAttrs queries) is
// driven with random SetAttrs / SetBulkAttrs (string, int64, bool, float64
// values, nil deletes), reads of present and absent ids, close + reopen (same
// object: cache kept; new object: cold cache).  Every read must return exactly
// the merged attributes with their types, also after the caller has modified
// maps it passed in or got back.  Blocks()/BlockData() of two stores with
// related histories are compared: same block contents <=> same checksum, block
// data = exactly the ids of the block; API.IndexAttrDiff (attrBlocks.Diff +
// BlockData) must return exactly the ids of the differing blocks.
// Not demanded (property silent): whether an id whose attributes were all
// deleted (or that was bulk-set to an empty map) still appears in block data or
// contributes to a checksum; blocks where the two stores differ only in such
// ids are not compared.  nil and empty attribute maps are the same "no
// attributes".

import (
	"bytes"
	"context"
	"encoding/json"
	"fmt"
	"io"
	"math"
	"math/rand"
	"os"
	"path/filepath"
	"reflect"
	"sort"
	"strconv"
	"strings"
	"testing"
	"time"

	"github.com/pilosa/pilosa"
	"github.com/pilosa/pilosa/boltdb"
	"github.com/pilosa/pilosa/test"
)

type stFailure struct {
	Props []string `json:"props"`
	What  string   `json:"what"`
	Sig   string   `json:"signature"`
	Seq   []string `json:"sequence"`
}

type stResult struct {
	Harness     string        `json:"harness"`
	Bound       string        `json:"bound"`
	Evaluations int           `json:"evaluations"`
	Distinct    int           `json:"distinct_nontrivial"`
	Rule        string        `json:"rule"`
	Exhaustive  bool          `json:"exhaustive"`
	Samples     []interface{} `json:"samples"`
	Failures    []stFailure   `json:"failures"`
}

type stRun struct {
	t   *testing.T
	res *stResult
	rng *rand.Rand
	dir string
	seq []string
	n   int
}

func (r *stRun) op(format string, a ...interface{}) {
	s := fmt.Sprintf(format, a...)
	if len(s) > 160 {
		s = s[:160] + "..."
	}
	r.seq = append(r.seq, s)
}

func (r *stRun) fail(prop, sig, what string) {
	for i, f := range r.res.Failures {
		if f.Sig == sig {
			if len(r.seq) < len(f.Seq) { // keep the shortest history
				r.res.Failures[i].What, r.res.Failures[i].Seq = what, append([]string{}, r.seq...)
			}
			return
		}
	}
	if len(what) > 600 {
		what = what[:600] + "..."
	}
	r.res.Failures = append(r.res.Failures, stFailure{Props: []string{prop}, What: what, Sig: sig, Seq: append([]string{}, r.seq...)})
}

// guard runs f and records a panic of the real code as a failure.
func (r *stRun) guard(prop, where string, f func()) {
	defer func() {
		if p := recover(); p != nil {
			r.fail(prop, "panic-"+where, fmt.Sprintf("panic: %v", p))
		}
	}()
	f()
}

func (r *stRun) path(name string) string {
	r.n++
	return filepath.Join(r.dir, fmt.Sprintf("%s-%d", name, r.n))
}

// ====================================================================== C24

type stNS struct{ index, field string } // field "" with row=false: column keys of index

type stNSKey struct {
	row          bool
	index, field string
}

func (k stNSKey) String() string {
	if k.row {
		return "rows(" + k.index + "," + k.field + ")"
	}
	return "cols(" + k.index + ")"
}

var stNamespaces = []stNSKey{{false, "i", ""}, {false, "j", ""}, {true, "i", "f"}, {true, "i", "g"}, {true, "j", "f"}}

var stSpecialKeys = []string{"", "a", "b", "A", "ab", "ba", " ", "a b", "é", "é", "日本", "\U0001F600", "a\x00b", "\x00", "\xff\xfe",
	strings.Repeat("x", 4095), strings.Repeat("x", 4096), strings.Repeat("y", 4097), strings.Repeat("z", 70000)}

type stTModel struct {
	ids  map[stNSKey]map[string]uint64
	keys map[stNSKey]map[uint64]string
	next map[stNSKey]int // next numbered key
}

func newTModel() *stTModel {
	return &stTModel{ids: map[stNSKey]map[string]uint64{}, keys: map[stNSKey]map[uint64]string{}, next: map[stNSKey]int{}}
}

func stShow(k string) string {
	if len(k) > 12 {
		return fmt.Sprintf("%q...(%d bytes)", k[:6], len(k))
	}
	return fmt.Sprintf("%q", k)
}

func stTranslate(s pilosa.TranslateStore, ns stNSKey, keys []string) ([]uint64, error) {
	if ns.row {
		return s.TranslateRowsToUint64(ns.index, ns.field, keys)
	}
	return s.TranslateColumnsToUint64(ns.index, keys)
}

func stReverse(s pilosa.TranslateStore, ns stNSKey, id uint64) (string, error) {
	if ns.row {
		return s.TranslateRowToString(ns.index, ns.field, id)
	}
	return s.TranslateColumnToString(ns.index, id)
}

func stOpenTranslate(path string) (*pilosa.TranslateFile, error) {
	s := pilosa.NewTranslateFile(pilosa.OptTranslateFileMapSize(64 << 20))
	s.Path = path
	return s, s.Open()
}

// batch translates keys in ns on the primary and checks the result against the model.
func (r *stRun) batch(s *pilosa.TranslateFile, m *stTModel, ns stNSKey, keys []string) {
	r.res.Evaluations++
	shown := make([]string, 0, 8)
	for i, k := range keys {
		if i == 6 {
			shown = append(shown, fmt.Sprintf("...(%d keys)", len(keys)))
			break
		}
		shown = append(shown, stShow(k))
	}
	r.op("translate %s [%s]", ns, strings.Join(shown, ","))
	var ids []uint64
	var err error
	r.guard("C24", "translate", func() { ids, err = stTranslate(s, ns, keys) })
	if err != nil {
		r.fail("C24", "translate-error", "translate returned error: "+err.Error())
		return
	}
	if len(ids) != len(keys) {
		r.fail("C24", "translate-length", fmt.Sprintf("%d keys translated to %d ids", len(keys), len(ids)))
		return
	}
	if m.ids[ns] == nil {
		m.ids[ns], m.keys[ns] = map[string]uint64{}, map[uint64]string{}
	}
	for i, k := range keys {
		id := ids[i]
		if id == 0 {
			r.fail("C24", "id-not-positive", fmt.Sprintf("key %s in %s got id 0", stShow(k), ns))
			continue
		}
		if old, ok := m.ids[ns][k]; ok {
			if old != id {
				r.fail("C24", "id-changed", fmt.Sprintf("key %s in %s had id %d, now translates to %d", stShow(k), ns, old, id))
			}
			continue
		}
		if other, ok := m.keys[ns][id]; ok {
			r.fail("C24", "id-shared", fmt.Sprintf("new key %s in %s got id %d, which already belongs to key %s", stShow(k), ns, id, stShow(other)))
			continue
		}
		m.ids[ns][k], m.keys[ns][id] = id, k
	}
	for i, k := range keys {
		if i > 8 && i < len(keys)-2 {
			continue
		}
		var back string
		r.guard("C24", "reverse", func() { back, err = stReverse(s, ns, ids[i]) })
		if err != nil || back != k {
			r.fail("C24", "reverse-mismatch", fmt.Sprintf("id %d of key %s in %s translates back to %s (err %v)", ids[i], stShow(k), ns, stShow(back), err))
		}
	}
}

// fullCheck compares every known key of every namespace (forward and reverse) with the model.
func (r *stRun) fullCheck(s pilosa.TranslateStore, m *stTModel, who, sigPrefix string) {
	r.res.Evaluations++
	for _, ns := range stNamespaces {
		keys := make([]string, 0, len(m.ids[ns]))
		for k := range m.ids[ns] {
			keys = append(keys, k)
		}
		sort.Strings(keys)
		if len(keys) == 0 {
			continue
		}
		var ids []uint64
		var err error
		r.guard("C24", sigPrefix+"translate", func() { ids, err = stTranslate(s, ns, keys) })
		if err != nil || len(ids) != len(keys) {
			r.fail("C24", sigPrefix+"lookup-error", fmt.Sprintf("%s: translating %d known keys of %s: %d ids, err %v", who, len(keys), ns, len(ids), err))
			continue
		}
		for i, k := range keys {
			if ids[i] != m.ids[ns][k] {
				r.fail("C24", sigPrefix+"id-changed", fmt.Sprintf("%s: key %s in %s has id %d, was assigned %d", who, stShow(k), ns, ids[i], m.ids[ns][k]))
				break
			}
		}
		for i, k := range keys {
			var back string
			r.guard("C24", sigPrefix+"reverse", func() { back, err = stReverse(s, ns, m.ids[ns][k]) })
			if err != nil || back != k {
				r.fail("C24", sigPrefix+"reverse-mismatch", fmt.Sprintf("%s: id %d in %s translates back to %s, key is %s (err %v)", who, ids[i], ns, stShow(back), stShow(k), err))
				break
			}
		}
	}
}

func (r *stRun) pickKeys(m *stTModel, ns stNSKey) []string {
	n := r.rng.Intn(7)
	keys := make([]string, 0, n)
	for i := 0; i < n; i++ {
		switch r.rng.Intn(10) {
		case 0, 1, 2, 3:
			keys = append(keys, stSpecialKeys[r.rng.Intn(len(stSpecialKeys))])
		case 4:
			if len(keys) > 0 { // repeat within the batch
				keys = append(keys, keys[r.rng.Intn(len(keys))])
				continue
			}
			fallthrough
		case 5, 6:
			keys = append(keys, "k"+strconv.Itoa(r.rng.Intn(m.next[ns]+1)))
		default:
			keys = append(keys, "k"+strconv.Itoa(m.next[ns]))
			m.next[ns]++
		}
	}
	return keys
}

// limited primary: serves the primary's real log stream up to limit bytes, then stalls.
type stLimitedStore struct {
	pilosa.TranslateStore
	limit int64
}

type stLimitedReader struct {
	ctx       context.Context
	inner     io.ReadCloser
	remaining int64
}

func (s *stLimitedStore) Reader(ctx context.Context, off int64) (io.ReadCloser, error) {
	if off > s.limit {
		return nil, fmt.Errorf("harness: replica offset %d beyond limit %d", off, s.limit)
	}
	inner, err := s.TranslateStore.Reader(ctx, off)
	if err != nil {
		return nil, err
	}
	return &stLimitedReader{ctx: ctx, inner: inner, remaining: s.limit - off}, nil
}

func (r *stLimitedReader) Read(p []byte) (int, error) {
	if r.remaining <= 0 {
		<-r.ctx.Done()
		return 0, r.ctx.Err()
	}
	if int64(len(p)) > r.remaining {
		p = p[:r.remaining]
	}
	n, err := r.inner.Read(p)
	r.remaining -= int64(n)
	return n, err
}

func (r *stLimitedReader) Close() error { return r.inner.Close() }

type stEntry struct {
	end  int64 // offset just after the entry
	ns   stNSKey
	ids  []uint64
	keys []string
}

// decodeLog decodes the primary's log file into entries with their end offsets.
func (r *stRun) decodeLog(path string) ([]stEntry, int64) {
	data, err := os.ReadFile(path)
	if err != nil {
		r.t.Fatal(err)
	}
	br := bytes.NewReader(data)
	var out []stEntry
	var off int64
	for {
		var e pilosa.LogEntry
		n, err := e.ReadFrom(br)
		if err == io.EOF {
			break
		} else if err != nil {
			r.fail("C24", "log-undecodable", fmt.Sprintf("primary log does not decode at offset %d: %v", off, err))
			break
		}
		off += n
		se := stEntry{end: off, ns: stNSKey{row: e.Type == pilosa.LogEntryTypeInsertRow, index: string(e.Index), field: string(e.Field)}, ids: e.IDs}
		for _, k := range e.Keys {
			se.keys = append(se.keys, string(k))
		}
		out = append(out, se)
	}
	return out, int64(len(data))
}

// stWaitFor polls (read-only: reverse translation) until the replica knows id -> key.
func stWaitFor(rep *pilosa.TranslateFile, ns stNSKey, key string, id uint64) bool {
	deadline := time.Now().Add(15 * time.Second)
	for time.Now().Before(deadline) {
		if back, err := stReverse(rep, ns, id); err == nil && back == key {
			return true
		}
		time.Sleep(200 * time.Microsecond)
	}
	return false
}

// replicaPhase: replicate a prefix of the primary's log, close the replica, reopen it and resume.
func (r *stRun) replicaPhase(primary *pilosa.TranslateFile, m *stTModel) {
	entries, size := r.decodeLog(primary.Path)
	if len(entries) == 0 {
		return
	}
	// choose the cut: an entry boundary (incl. 0 and the end) or a byte inside an entry
	k := r.rng.Intn(len(entries) + 1) // number of complete entries before the cut
	var cut int64
	if k > 0 {
		cut = entries[k-1].end
	}
	where := fmt.Sprintf("after entry %d of %d", k, len(entries))
	if k < len(entries) && r.rng.Intn(3) == 0 {
		span := entries[k].end - cut
		cut += 1 + r.rng.Int63n(span-1+1)
		if cut >= entries[k].end {
			cut = entries[k].end - 1
		}
		where = fmt.Sprintf("inside entry %d of %d", k+1, len(entries))
	}
	r.op("replica: stream primary log up to byte %d (%s), close, reopen, resume to byte %d", cut, where, size)
	lim := &stLimitedStore{TranslateStore: primary, limit: cut}
	path := r.path("replica")
	lastVisible := func(rep *pilosa.TranslateFile, n int) bool {
		for i := n - 1; i >= 0; i-- {
			e := entries[i]
			for j := len(e.ids) - 1; j >= 0; j-- {
				if e.keys[j] != "" { // entries are applied in order: the last pair visible => all visible
					ok := stWaitFor(rep, e.ns, e.keys[j], e.ids[j])
					time.Sleep(time.Millisecond)
					return ok
				}
			}
		}
		time.Sleep(20 * time.Millisecond)
		return true
	}
	var rep *pilosa.TranslateFile
	var err error
	r.guard("C24", "replica-open", func() { rep, err = stOpenTranslate(path) })
	if err != nil || rep == nil {
		r.fail("C24", "replica-open-error", fmt.Sprintf("opening replica: %v", err))
		return
	}
	rep.SetPrimaryStore("primary", lim)
	if !lastVisible(rep, k) {
		r.fail("C24", "replica-did-not-catch-up", fmt.Sprintf("replica did not apply the first %d entries within 15s", k))
		rep.Close()
		return
	}
	// prefix check: every pair of the first k entries is present with the primary's id
	r.res.Evaluations++
	for i := 0; i < k; i++ {
		e := entries[i]
		for j := range e.ids {
			if ids, err := stTranslate(rep, e.ns, []string{e.keys[j]}); err != nil || ids[0] != e.ids[j] {
				r.fail("C24", "replica-prefix-mismatch", fmt.Sprintf("replica after %d entries: key %s of %s -> %v (err %v), primary assigned %d", k, stShow(e.keys[j]), e.ns, ids, err, e.ids[j]))
			}
		}
	}
	time.Sleep(2 * time.Millisecond) // let the last append finish its fsync before closing
	if err := rep.Close(); err != nil {
		r.fail("C24", "replica-close-error", err.Error())
	}
	// resume on a fresh object over the same file
	lim2 := &stLimitedStore{TranslateStore: primary, limit: size}
	var rep2 *pilosa.TranslateFile
	r.guard("C24", "replica-reopen", func() { rep2, err = stOpenTranslate(path) })
	if err != nil || rep2 == nil {
		r.fail("C24", "replica-reopen-error", fmt.Sprintf("reopening replica after streaming %d bytes (%s): %v", cut, where, err))
		return
	}
	rep2.SetPrimaryStore("primary", lim2)
	if !lastVisible(rep2, len(entries)) {
		r.fail("C24", "replica-did-not-catch-up-after-resume", fmt.Sprintf("replica resumed at byte %d (%s) did not reach the primary's last entry within 15s", cut, where))
		rep2.Close()
		return
	}
	r.fullCheck(rep2, m, "resumed replica", "replica-")
	time.Sleep(2 * time.Millisecond)
	rep2.Close()
}

func (r *stRun) translateSequence(nops int, withGrowth, withReplica bool) {
	r.seq = nil
	m := newTModel()
	path := r.path("keys")
	s, err := stOpenTranslate(path)
	if err != nil {
		r.t.Fatal(err)
	}
	defer func() { s.Close() }()
	for i := 0; i < nops; i++ {
		ns := stNamespaces[r.rng.Intn(len(stNamespaces))]
		switch x := r.rng.Intn(20); {
		case x < 14:
			r.batch(s, m, ns, r.pickKeys(m, ns))
		case x < 15 && withGrowth: // burst of new + old numbered keys
			n := 120 + r.rng.Intn(200)
			keys := make([]string, 0, n)
			for j := 0; j < n; j++ {
				if r.rng.Intn(8) == 0 && m.next[ns] > 0 {
					keys = append(keys, "k"+strconv.Itoa(r.rng.Intn(m.next[ns])))
				} else {
					keys = append(keys, "k"+strconv.Itoa(m.next[ns]))
					m.next[ns]++
				}
			}
			r.batch(s, m, ns, keys)
		case x < 17:
			r.op("close, reopen")
			if err := s.Close(); err != nil {
				r.fail("C24", "close-error", err.Error())
			}
			var ns2 *pilosa.TranslateFile
			r.guard("C24", "reopen", func() { ns2, err = stOpenTranslate(path) })
			if err != nil || ns2 == nil {
				r.fail("C24", "reopen-error", fmt.Sprintf("reopen: %v", err))
				return
			}
			s = ns2
			r.fullCheck(s, m, "after reopen", "reopen-")
		default:
			r.fullCheck(s, m, "primary", "")
		}
	}
	r.fullCheck(s, m, "primary", "")
	if withReplica {
		r.replicaPhase(s, m)
	}
}

// ====================================================================== C25

var stAttrIDs = []uint64{0, 1, 2, 99, 100, 101, 199, 200, 250, 1 << 40}
var stAttrKeys = []string{"a", "b", "c", "d"}

func (r *stRun) attrValue(pqlSafe bool) interface{} {
	switch r.rng.Intn(9) {
	case 0, 1:
		if pqlSafe {
			return []interface{}{"", "x", "y z", "true", "5"}[r.rng.Intn(5)]
		}
		return []interface{}{"", "x", "é", "true", "5", "a\x00b"}[r.rng.Intn(6)]
	case 2, 3:
		return []interface{}{int64(0), int64(1), int64(-1), int64(5), int64(math.MaxInt64), int64(math.MinInt64)}[r.rng.Intn(6)]
	case 4:
		return r.rng.Intn(2) == 0
	case 5, 6:
		return []interface{}{float64(0), 1.5, -2.25, float64(5), 0.1, 1e15}[r.rng.Intn(6)]
	default:
		return nil
	}
}

type stAModel struct {
	attrs   map[uint64]map[string]interface{}
	touched map[uint64]bool // ids for which a record may exist
}

func newAModel() *stAModel {
	return &stAModel{attrs: map[uint64]map[string]interface{}{}, touched: map[uint64]bool{}}
}

func (m *stAModel) apply(id uint64, upd map[string]interface{}) {
	if m.attrs[id] == nil {
		m.attrs[id] = map[string]interface{}{}
	}
	for k, v := range upd {
		if v == nil {
			delete(m.attrs[id], k)
		} else {
			m.attrs[id][k] = v
		}
	}
	m.touched[id] = true
}

func stAttrStr(m map[string]interface{}) string {
	keys := make([]string, 0, len(m))
	for k := range m {
		keys = append(keys, k)
	}
	sort.Strings(keys)
	var b strings.Builder
	b.WriteString("{")
	for i, k := range keys {
		if i > 0 {
			b.WriteString(", ")
		}
		fmt.Fprintf(&b, "%s:%T(%#v)", k, m[k], m[k])
	}
	b.WriteString("}")
	return b.String()
}

func stSameAttrs(a, b map[string]interface{}) bool {
	if len(a) == 0 && len(b) == 0 {
		return true
	}
	return reflect.DeepEqual(a, b)
}

func stCopyAttrs(m map[string]interface{}) map[string]interface{} {
	o := make(map[string]interface{}, len(m))
	for k, v := range m {
		o[k] = v
	}
	return o
}

// stAStore is one attribute store under test with its model.
type stAStore struct {
	name  string
	store pilosa.AttrStore
	m     *stAModel
	// set for the store inside the server: single updates go through PQL
	api   *pilosa.API
	index string
	field string // "" -> column attrs
}

func (r *stRun) randUpdate(pqlSafe bool) map[string]interface{} {
	n := []int{0, 1, 1, 1, 2, 2, 3}[r.rng.Intn(7)]
	upd := map[string]interface{}{}
	for i := 0; i < n; i++ {
		upd[stAttrKeys[r.rng.Intn(len(stAttrKeys))]] = r.attrValue(pqlSafe)
	}
	return upd
}

func stPQLValue(v interface{}) string {
	switch v := v.(type) {
	case nil:
		return "null"
	case string:
		return strconv.Quote(v)
	case int64:
		return strconv.FormatInt(v, 10)
	case bool:
		return strconv.FormatBool(v)
	case float64:
		s := strconv.FormatFloat(v, 'f', -1, 64)
		if !strings.Contains(s, ".") {
			s += ".0"
		}
		return s
	}
	panic("harness: value")
}

// set applies one single-id update to the store (directly, or as a query) and to the model.
func (r *stRun) set(a *stAStore, id uint64, upd map[string]interface{}) {
	r.res.Evaluations++
	var err error
	if a.api != nil && len(upd) > 0 {
		keys := make([]string, 0, len(upd))
		for k := range upd {
			keys = append(keys, k)
		}
		sort.Strings(keys)
		parts := []string{}
		for _, k := range keys {
			parts = append(parts, k+"="+stPQLValue(upd[k]))
		}
		q := fmt.Sprintf("SetColumnAttrs(%d, %s)", id, strings.Join(parts, ", "))
		if a.field != "" {
			q = fmt.Sprintf("SetRowAttrs(%s, %d, %s)", a.field, id, strings.Join(parts, ", "))
			if len(parts) >= 2 && r.rng.Intn(2) == 0 {
				// the same update written as two calls of one query (the executor folds
				// several SetRowAttrs calls of a query together): same meaning
				k := 1 + r.rng.Intn(len(parts)-1)
				q = fmt.Sprintf("SetRowAttrs(%s, %d, %s) SetRowAttrs(%s, %d, %s)", a.field, id, strings.Join(parts[:k], ", "), a.field, id, strings.Join(parts[k:], ", "))
			}
		}
		r.op("%s: query %s", a.name, q)
		r.guard("C25", "query-setattrs", func() {
			_, err = a.api.Query(context.Background(), &pilosa.QueryRequest{Index: a.index, Query: q})
		})
	} else {
		r.op("%s: SetAttrs(%d, %s)", a.name, id, stAttrStr(upd))
		passed := stCopyAttrs(upd)
		r.guard("C25", "setattrs", func() { err = a.store.SetAttrs(id, passed) })
		// the caller goes on using its map
		for k := range passed {
			passed[k] = "mutated-by-caller"
		}
		passed["zz"] = int64(42)
	}
	if err != nil {
		r.fail("C25", "setattrs-error", fmt.Sprintf("%s: update of id %d with %s failed: %v", a.name, id, stAttrStr(upd), err))
		return
	}
	if len(upd) > 0 {
		a.m.apply(id, upd)
	}
}

func (r *stRun) bulk(a *stAStore) {
	r.res.Evaluations++
	n := 1 + r.rng.Intn(4)
	upd := map[uint64]map[string]interface{}{}
	for i := 0; i < n; i++ {
		upd[stAttrIDs[r.rng.Intn(len(stAttrIDs))]] = r.randUpdate(false)
	}
	ids := make([]uint64, 0, len(upd))
	for id := range upd {
		ids = append(ids, id)
	}
	sort.Slice(ids, func(i, j int) bool { return ids[i] < ids[j] })
	desc := []string{}
	passed := map[uint64]map[string]interface{}{}
	for _, id := range ids {
		desc = append(desc, fmt.Sprintf("%d:%s", id, stAttrStr(upd[id])))
		passed[id] = stCopyAttrs(upd[id])
	}
	r.op("%s: SetBulkAttrs(%s)", a.name, strings.Join(desc, "; "))
	var err error
	r.guard("C25", "setbulkattrs", func() { err = a.store.SetBulkAttrs(passed) })
	for _, pm := range passed {
		for k := range pm {
			pm[k] = "mutated-by-caller"
		}
		pm["zz"] = int64(42)
	}
	if err != nil {
		r.fail("C25", "setbulkattrs-error", fmt.Sprintf("%s: bulk update failed: %v", a.name, err))
		return
	}
	for _, id := range ids {
		a.m.apply(id, upd[id])
	}
}

// read compares Attrs(id) with the model; optionally modifies the returned map,
// re-reads, and then undoes its modification (so that an aliasing store is
// repaired and later checks are not polluted).
func (r *stRun) read(a *stAStore, id uint64, mutate bool) {
	r.res.Evaluations++
	var got map[string]interface{}
	var err error
	r.guard("C25", "attrs", func() { got, err = a.store.Attrs(id) })
	if err != nil {
		r.fail("C25", "attrs-error", fmt.Sprintf("%s: Attrs(%d): %v", a.name, id, err))
		return
	}
	want := a.m.attrs[id]
	if !stSameAttrs(got, want) {
		r.op("%s: Attrs(%d)", a.name, id)
		sig := "attrs-mismatch"
		if len(got) == len(want) {
			same := true
			for k, v := range want {
				if fmt.Sprint(got[k]) != fmt.Sprint(v) {
					same = false
				}
			}
			if same {
				sig = "attrs-type-changed"
			}
		}
		r.fail("C25", sig, fmt.Sprintf("%s: Attrs(%d) = %s, merged updates give %s", a.name, id, stAttrStr(got), stAttrStr(want)))
		r.seq = r.seq[:len(r.seq)-1]
		return
	}
	if !mutate || got == nil {
		return
	}
	// the caller modifies the map it was handed
	r.op("%s: caller modifies the map returned by Attrs(%d), reads again", a.name, id)
	saved := stCopyAttrs(got)
	for k := range got {
		got[k] = "mutated-by-caller"
	}
	got["zz"] = int64(42)
	probe := id
	if len(want) == 0 && r.rng.Intn(2) == 0 { // another absent id
		probe = 7777
	}
	var again map[string]interface{}
	r.guard("C25", "attrs", func() { again, err = a.store.Attrs(probe) })
	if err == nil && !stSameAttrs(again, a.m.attrs[probe]) {
		sig := "attrs-aliasing-returned-map"
		if len(want) == 0 {
			sig = "attrs-aliasing-shared-empty-map"
		}
		r.fail("C25", sig, fmt.Sprintf("%s: after the caller modified the map returned by Attrs(%d), Attrs(%d) = %s, merged updates give %s", a.name, id, probe, stAttrStr(again), stAttrStr(a.m.attrs[probe])))
	}
	// undo
	for k := range got {
		delete(got, k)
	}
	for k, v := range saved {
		got[k] = v
	}
	r.seq = r.seq[:len(r.seq)-1]
}

func (r *stRun) readAll(a *stAStore) {
	for _, id := range stAttrIDs {
		r.read(a, id, false)
	}
	r.read(a, 5555, false)
}

func (r *stRun) reopen(a *stAStore) {
	if a.api != nil {
		return
	}
	if r.rng.Intn(2) == 0 {
		r.op("%s: close, open (same object)", a.name)
		a.store.Close()
		if err := a.store.Open(); err != nil {
			r.t.Fatal(err)
		}
	} else {
		r.op("%s: close, open (new object, cold cache)", a.name)
		a.store.Close()
		a.store = boltdb.NewAttrStore(a.store.Path())
		if err := a.store.Open(); err != nil {
			r.t.Fatal(err)
		}
	}
	// first reads after a reopen (cold cache for a new object), some followed by a caller-side modification
	for _, id := range stAttrIDs {
		r.read(a, id, r.rng.Intn(2) == 0)
	}
	r.read(a, 5555, false)
}

// block model helpers
func (m *stAModel) block(b uint64) (nonEmpty map[uint64]map[string]interface{}, emptyTouched map[uint64]bool) {
	nonEmpty, emptyTouched = map[uint64]map[string]interface{}{}, map[uint64]bool{}
	for id := range m.touched {
		if id/100 != b {
			continue
		}
		if len(m.attrs[id]) > 0 {
			nonEmpty[id] = m.attrs[id]
		} else {
			emptyTouched[id] = true
		}
	}
	return
}

func (m *stAModel) blockIDs() []uint64 {
	set := map[uint64]bool{}
	for id := range m.touched {
		set[id/100] = true
	}
	out := []uint64{}
	for b := range set {
		out = append(out, b)
	}
	sort.Slice(out, func(i, j int) bool { return out[i] < out[j] })
	return out
}

// checkBlocks: Blocks() and BlockData() of one store against its model.
func (r *stRun) checkBlocks(a *stAStore) map[uint64][]byte {
	r.res.Evaluations++
	var blocks []pilosa.AttrBlock
	var err error
	r.guard("C25", "blocks", func() { blocks, err = a.store.Blocks() })
	if err != nil {
		r.fail("C25", "blocks-error", err.Error())
		return nil
	}
	sums := map[uint64][]byte{}
	for i, b := range blocks {
		if _, dup := sums[b.ID]; dup {
			r.fail("C25", "blocks-duplicate", fmt.Sprintf("%s: Blocks() lists block %d twice", a.name, b.ID))
		}
		if i > 0 && blocks[i-1].ID >= b.ID {
			r.fail("C25", "blocks-unsorted", fmt.Sprintf("%s: Blocks() not ascending: %d then %d", a.name, blocks[i-1].ID, b.ID))
		}
		sums[b.ID] = b.Checksum
	}
	for _, b := range a.m.blockIDs() {
		nonEmpty, emptyTouched := a.m.block(b)
		if _, listed := sums[b]; !listed && len(nonEmpty) > 0 {
			r.fail("C25", "blocks-missing", fmt.Sprintf("%s: block %d holds %d ids with attributes but Blocks() does not list it", a.name, b, len(nonEmpty)))
		}
		var data map[uint64]map[string]interface{}
		r.guard("C25", "blockdata", func() { data, err = a.store.BlockData(b) })
		if err != nil {
			r.fail("C25", "blockdata-error", err.Error())
			continue
		}
		for id, want := range nonEmpty {
			if got, ok := data[id]; !ok || !stSameAttrs(got, want) {
				r.fail("C25", "blockdata-mismatch", fmt.Sprintf("%s: BlockData(%d)[%d] = %s (present %v), merged updates give %s", a.name, b, id, stAttrStr(got), ok, stAttrStr(want)))
			}
		}
		for id, got := range data {
			if _, ok := nonEmpty[id]; ok {
				continue
			}
			if id/100 != b {
				r.fail("C25", "blockdata-foreign-id", fmt.Sprintf("%s: BlockData(%d) lists id %d of block %d", a.name, b, id, id/100))
			} else if !emptyTouched[id] {
				r.fail("C25", "blockdata-unknown-id", fmt.Sprintf("%s: BlockData(%d) lists id %d = %s, which never received attributes", a.name, b, id, stAttrStr(got)))
			} else if len(got) != 0 {
				r.fail("C25", "blockdata-mismatch", fmt.Sprintf("%s: BlockData(%d)[%d] = %s, all its attributes were deleted", a.name, b, id, stAttrStr(got)))
			} else {
				r.fail("C25", "blockdata-lists-emptied-id", fmt.Sprintf("%s: BlockData(%d) lists id %d, which holds no attribute (all were deleted, or it only ever received an empty update)", a.name, b, id))
			}
		}
	}
	for b := range sums {
		if ne, et := a.m.block(b); len(ne) == 0 && len(et) == 0 {
			r.fail("C25", "blocks-unknown", fmt.Sprintf("%s: Blocks() lists block %d, which never received attributes", a.name, b))
		} else if len(ne) == 0 {
			r.fail("C25", "blocks-lists-empty-block", fmt.Sprintf("%s: Blocks() lists block %d, in which no id holds an attribute any more", a.name, b))
		}
	}
	return sums
}

// compareStores: equal checksum <=> same block contents; API.IndexAttrDiff on the server store.
func (r *stRun) compareStores(a, b *stAStore) {
	r.op("compare blocks of %s and %s", a.name, b.name)
	sa, sb := r.checkBlocks(a), r.checkBlocks(b)
	if sa == nil || sb == nil {
		r.seq = r.seq[:len(r.seq)-1]
		return
	}
	r.res.Evaluations++
	all := map[uint64]bool{}
	for _, x := range a.m.blockIDs() {
		all[x] = true
	}
	for _, x := range b.m.blockIDs() {
		all[x] = true
	}
	differing := map[uint64]bool{} // blocks of a that certainly differ from b (or are missing in b)
	ambiguous := map[uint64]bool{}
	for blk := range all {
		na, ea := a.m.block(blk)
		nb, eb := b.m.block(blk)
		same := len(na) == len(nb)
		for id, x := range na {
			if y, ok := nb[id]; !ok || !reflect.DeepEqual(x, y) {
				same = false
			}
		}
		// Blocks that differ only in ids whose attributes were all deleted hold the same
		// attributes: the checksums must be equal (an emptied id is not one of the block's ids).
		_, _ = ea, eb
		ca, oka := sa[blk]
		cb, okb := sb[blk]
		if same {
			if oka != okb || !bytes.Equal(ca, cb) {
				r.fail("C25", "checksum-differs-for-equal-blocks", fmt.Sprintf("block %d holds the same attributes in %s and %s (%d ids) but checksums are %x (listed %v) and %x (listed %v)", blk, a.name, b.name, len(na), ca, oka, cb, okb))
			}
		} else {
			if len(na) > 0 {
				differing[blk] = true
			} else if len(ea) > 0 {
				ambiguous[blk] = true
			}
			if oka && okb && bytes.Equal(ca, cb) {
				r.fail("C25", "checksum-equal-for-different-blocks", fmt.Sprintf("block %d differs between %s and %s but both report checksum %x", blk, a.name, b.name, ca))
			}
		}
	}
	if a.api != nil && a.field == "" {
		var blocksB []pilosa.AttrBlock
		var diff map[uint64]map[string]interface{}
		var err error
		blocksB, err = b.store.Blocks()
		if err != nil {
			r.seq = r.seq[:len(r.seq)-1]
			return
		}
		r.res.Evaluations++
		r.guard("C25", "indexattrdiff", func() { diff, err = a.api.IndexAttrDiff(context.Background(), a.index, blocksB) })
		if err != nil {
			r.fail("C25", "indexattrdiff-error", err.Error())
		} else {
			for blk := range differing {
				ne, _ := a.m.block(blk)
				for id, want := range ne {
					if got, ok := diff[id]; !ok || !stSameAttrs(got, want) {
						r.fail("C25", "attrdiff-missing", fmt.Sprintf("block %d of %s differs from %s, but IndexAttrDiff returns %s (present %v) for id %d, store holds %s", blk, a.name, b.name, stAttrStr(got), ok, id, stAttrStr(want)))
					}
				}
			}
			for id, got := range diff {
				blk := id / 100
				if !differing[blk] && !ambiguous[blk] {
					r.fail("C25", "attrdiff-extra", fmt.Sprintf("block %d holds the same attributes in %s and %s, but IndexAttrDiff returns id %d = %s", blk, a.name, b.name, id, stAttrStr(got)))
				}
			}
		}
	}
	r.seq = r.seq[:len(r.seq)-1]
}

func (r *stRun) attrSequence(nops int, srv *test.Command, useServer bool) {
	r.seq = nil
	open := func(name string) *stAStore {
		s := boltdb.NewAttrStore(r.path("attrs"))
		if err := s.Open(); err != nil {
			r.t.Fatal(err)
		}
		return &stAStore{name: name, store: s, m: newAModel()}
	}
	a, b := open("A"), open("B")
	defer func() { a.store.Close(); b.store.Close() }()
	if useServer {
		r.n++
		index := fmt.Sprintf("i%d", r.n)
		idx, err := srv.API.CreateIndex(context.Background(), index, pilosa.IndexOptions{})
		if err != nil {
			r.t.Fatal(err)
		}
		a.store.Close()
		if r.rng.Intn(3) == 0 {
			fld, err := srv.API.CreateField(context.Background(), index, "f")
			if err != nil {
				r.t.Fatal(err)
			}
			a = &stAStore{name: "S(row attrs of " + index + "/f)", store: fld.RowAttrStore(), m: newAModel(), api: srv.API, index: index, field: "f"}
		} else {
			a = &stAStore{name: "S(column attrs of " + index + ")", store: idx.ColumnAttrStore(), m: newAModel(), api: srv.API, index: index}
		}
		defer func() { _ = srv.API.DeleteIndex(context.Background(), index) }()
	}
	for i := 0; i < nops; i++ {
		st := a
		if r.rng.Intn(3) == 0 {
			st = b
		}
		id := stAttrIDs[r.rng.Intn(len(stAttrIDs))]
		switch x := r.rng.Intn(20); {
		case x < 8:
			upd := r.randUpdate(a.api != nil)
			r.set(st, id, upd)
			if r.rng.Intn(3) != 0 { // related history: the other store usually gets the same update
				other := a
				if st == a {
					other = b
				}
				r.set(other, id, upd)
			}
			r.read(st, id, false)
		case x < 11:
			r.bulk(st)
			r.readAll(st)
		case x < 16:
			if r.rng.Intn(4) == 0 {
				id = 5555 // never written
			}
			r.read(st, id, r.rng.Intn(2) == 0)
		case x < 18:
			r.reopen(st)
		default:
			r.compareStores(a, b)
		}
	}
	r.readAll(a)
	r.readAll(b)
	r.compareStores(a, b)
	r.compareStores(b, a)
}

func TestRcheckStores(t *testing.T) {
	seed := int64(1)
	if s := os.Getenv("VERIF_SEED"); s != "" {
		if v, err := strconv.ParseInt(s, 10, 64); err == nil {
			seed = v
		}
	}
	tseqs, aseqs := 60, 200
	if os.Getenv("VERIF_TIER") == "thorough" {
		tseqs, aseqs = 600, 3000
	}
	dir, err := os.MkdirTemp("", "rcheck-stores")
	if err != nil {
		t.Fatal(err)
	}
	defer os.RemoveAll(dir)
	res := &stResult{Harness: "stores",
		Rule: "random operation histories against map models; a history is non-trivial when it assigns at least one key / stores at least one attribute; distinct by history text; evaluations = model comparisons (translate batches, full mapping checks, replica checks, attribute updates, reads, block and diff comparisons)",
		Bound: fmt.Sprintf("C24: %d histories of <= 40 operations over namespaces %v, %d special keys (empty, Unicode, invalid UTF-8, NUL, 4095..70000 bytes) + numbered keys, bursts of 120..320 keys (> 500 per namespace in growth histories), reopen, one replica per history cut at a random entry boundary or inside an entry then resumed; C25: %d histories of <= 40 operations over ids %v, keys %v, values string/int64/bool/float64/nil, two related stores (standalone boltdb, or the server's column/row attribute store via SetColumnAttrs/SetRowAttrs queries); seed %d; sequential only",
			tseqs, stNamespaces, len(stSpecialKeys), aseqs, stAttrIDs, stAttrKeys, seed)}
	r := &stRun{t: t, res: res, rng: rand.New(rand.NewSource(seed)), dir: dir}
	seen := map[string]bool{}
	start := time.Now()
	record := func() {
		key := strings.Join(r.seq, ";")
		if len(r.seq) > 0 && !seen[key] {
			seen[key] = true
			res.Distinct++
			if len(res.Samples) < 4 {
				s := append([]string{}, r.seq...)
				if len(s) > 12 {
					s = s[:12]
				}
				res.Samples = append(res.Samples, s)
			}
		}
	}
	for i := 0; i < tseqs; i++ {
		r.translateSequence(5+r.rng.Intn(36), i%4 == 0, true)
		record()
	}
	t.Logf("translate phase done after %v", time.Since(start))
	srv := test.MustRunCluster(t, 1)
	defer srv.Close()
	for i := 0; i < aseqs; i++ {
		r.attrSequence(5+r.rng.Intn(36), srv[0], i%3 == 0)
		record()
	}
	if out := os.Getenv("RCHECK_OUT"); out != "" {
		data, _ := json.MarshalIndent(res, "", " ")
		if err := os.WriteFile(out, data, 0o644); err != nil {
			t.Fatal(err)
		}
	}
	for _, f := range res.Failures {
		t.Logf("FAIL %v %s: %s  (history of %d ops)", f.Props, f.Sig, f.What, len(f.Seq))
	}
	t.Logf("evaluations %d distinct %d failures %d", res.Evaluations, res.Distinct, len(res.Failures))
}
