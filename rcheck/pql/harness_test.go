package pilosa_test

// BOUNDED stand-in (never counted as proved): the real server (API.Query on a
// test cluster) is driven with random write sequences and every read query is
// compared with a map model.  Injected with `go test -overlay`; results go to
// $RCHECK_OUT.  Serves C12, C14, C15, C16, C17, C18, C19.
//
// Bound: columns {0,1,2,SW-1,SW,SW+1,2*SW+5} (3 shards), set/mutex rows
// {0,1,2,3,10}, int field [-1000,1000] with values from a boundary pool, time
// stamps from a 2x2x2x2 grid of (year,month,day,hour); quick: 6 rounds of <= 25
// writes, thorough: 40 rounds; seeded by VERIF_SEED.  A 1-node and a 3-node
// (2 replicas) cluster receive identical writes and must answer identically.

import (
	"context"
	"encoding/json"
	"fmt"
	"math/rand"
	"os"
	"reflect"
	"sort"
	"strconv"
	"strings"
	"testing"
	"time"

	"github.com/pilosa/pilosa"
	"github.com/pilosa/pilosa/test"
)

type pqFailure struct {
	Props []string `json:"props"`
	What  string   `json:"what"`
	Sig   string   `json:"signature"`
	Seq   []string `json:"sequence"`
}

type pqResult struct {
	Harness     string        `json:"harness"`
	Bound       string        `json:"bound"`
	Evaluations int           `json:"evaluations"`
	Distinct    int           `json:"distinct_nontrivial"`
	Rule        string        `json:"rule"`
	Exhaustive  bool          `json:"exhaustive"`
	Samples     []interface{} `json:"samples"`
	Failures    []pqFailure   `json:"failures"`
}

const pqSW = pilosa.ShardWidth

var pqCols = []uint64{0, 1, 2, pqSW - 1, pqSW, pqSW + 1, 2*pqSW + 5}
var pqRows = []uint64{0, 1, 2, 3, 10}
var pqVals = []int64{-1000, -999, -100, -8, -7, -1, 0, 1, 7, 8, 15, 16, 100, 999, 1000}
var pqTimes []time.Time

type pqModel struct {
	s    map[uint64]map[uint64]bool // set field: row -> cols
	m    map[uint64]uint64          // mutex field: col -> row
	mHas map[uint64]bool
	v    map[uint64]int64 // int field: col -> value
	vHas map[uint64]bool
	t    map[uint64]map[uint64]map[time.Time]bool // time field: row -> col -> timestamps
	tStd map[uint64]map[uint64]bool               // time field standard view
}

func newPqModel() *pqModel {
	return &pqModel{s: map[uint64]map[uint64]bool{}, m: map[uint64]uint64{}, mHas: map[uint64]bool{}, v: map[uint64]int64{}, vHas: map[uint64]bool{},
		t: map[uint64]map[uint64]map[time.Time]bool{}, tStd: map[uint64]map[uint64]bool{}}
}

type pqRun struct {
	t     *testing.T
	res   *pqResult
	seq   []string
	seen  map[string]bool
	c1    test.Cluster
	c3    test.Cluster
	evals int
	noStd bool // the time field of this round was created with noStandardView
	cross bool // the query being asked shifts a column over a shard boundary (recorded finding)
}

func (r *pqRun) fail(props []string, sig, what string) {
	for _, f := range r.res.Failures {
		if f.Sig == sig {
			return
		}
	}
	seq := r.seq
	if len(seq) > 60 {
		seq = seq[len(seq)-60:]
	}
	r.res.Failures = append(r.res.Failures, pqFailure{Props: props, What: what, Sig: sig, Seq: append([]string{}, seq...)})
}

func sortedCols(m map[uint64]bool) []uint64 {
	out := []uint64{}
	for c, ok := range m {
		if ok {
			out = append(out, c)
		}
	}
	sort.Slice(out, func(i, j int) bool { return out[i] < out[j] })
	return out
}

// query runs q on both clusters, checks they agree (C17) and returns the 1-node result.
func (r *pqRun) query(q string) (interface{}, bool) {
	r.evals++
	res1, err1 := r.c1[0].API.Query(context.Background(), &pilosa.QueryRequest{Index: "i", Query: q})
	if err1 != nil {
		r.fail([]string{"C15"}, "query-error:"+strings.SplitN(q, "(", 2)[0], fmt.Sprintf("%s: %v", q, err1))
		return nil, false
	}
	if r.c3 != nil {
		// ask the nodes of the 3-node cluster in turn (any node may coordinate)
		res3, err3 := r.c3[r.evals%3].API.Query(context.Background(), &pilosa.QueryRequest{Index: "i", Query: q})
		if err3 != nil {
			r.fail([]string{"C17"}, "query-error-3node:"+strings.SplitN(q, "(", 2)[0], fmt.Sprintf("%s: %v", q, err3))
		} else if !reflect.DeepEqual(pqNorm(res1.Results[0]), pqNorm(res3.Results[0])) {
			sig := "placement:" + strings.SplitN(q, "(", 2)[0]
			if r.cross {
				// the recorded Shift finding also shows as a placement difference (the
				// carried column sits in the segment of the shard it left, so even the
				// order of the columns depends on how shards are grouped)
				sig = "placement-shift-across-shards"
			}
			r.fail([]string{"C17"}, sig, fmt.Sprintf("%s: 1-node %v, 3-node %v", q, pqNorm(res1.Results[0]), pqNorm(res3.Results[0])))
		}
	}
	return res1.Results[0], true
}

// pqNorm makes results comparable across clusters (TopN ties are unordered).
func pqNorm(v interface{}) interface{} {
	switch x := v.(type) {
	case *pilosa.Row:
		return x.Columns()
	case []pilosa.Pair:
		ps := append([]pilosa.Pair{}, x...)
		sort.Slice(ps, func(i, j int) bool {
			if ps[i].Count != ps[j].Count {
				return ps[i].Count > ps[j].Count
			}
			return ps[i].ID < ps[j].ID
		})
		return fmt.Sprint(ps)
	}
	return fmt.Sprint(v)
}

func (r *pqRun) write(q string) {
	r.seq = append(r.seq, q)
	if _, err := r.c1[0].API.Query(context.Background(), &pilosa.QueryRequest{Index: "i", Query: q}); err != nil {
		r.fail([]string{"C15"}, "write-error", q+": "+err.Error())
	}
	if r.c3 != nil {
		if _, err := r.c3[0].API.Query(context.Background(), &pilosa.QueryRequest{Index: "i", Query: q}); err != nil {
			r.fail([]string{"C17"}, "write-error-3node", q+": "+err.Error())
		}
	}
}

func (r *pqRun) expectCols(props []string, sig, q string, want []uint64) {
	v, ok := r.query(q)
	if !ok {
		return
	}
	row, isRow := v.(*pilosa.Row)
	if !isRow {
		r.fail(props, sig+":type", fmt.Sprintf("%s returned %T", q, v))
		return
	}
	got := row.Columns()
	if len(got) == 0 && len(want) == 0 {
		return
	}
	if !reflect.DeepEqual(got, want) {
		r.fail(props, sig, fmt.Sprintf("%s = %v, model %v", q, got, want))
	}
}

func pqTS(t time.Time) string { return t.Format("2006-01-02T15:04") }

// topnPlacement: a scripted TopN(n=1) case in which the largest row is the top row of
// one shard only and owes its total to a second shard, laid over the three shards in all
// six ways so that, whatever the placement, some node serves two of the shards for
// another coordinator.  Demanded is only what C17 states: every node of the 3-node
// cluster reports the count the 1-node cluster reports.
func (r *pqRun) topnPlacement(t *testing.T) {
	perms := [][3]uint64{{0, 1, 2}, {0, 2, 1}, {1, 0, 2}, {1, 2, 0}, {2, 0, 1}, {2, 1, 0}}
	for pi, p := range perms {
		fld := fmt.Sprintf("tp%d", pi)
		for _, cl := range []test.Cluster{r.c1, r.c3} {
			cl.CreateField(t, "i", pilosa.IndexOptions{}, fld, pilosa.OptFieldTypeSet(pilosa.CacheTypeRanked, 100))
		}
		a, b, c := p[0]*pqSW, p[1]*pqSW, p[2]*pqSW
		// shard A: row 1 x7; shard B: row 2 x8, row 1 x3; shard C: row 3 x7, row 2 x6
		var sets []string
		for i := uint64(0); i < 8; i++ {
			if i < 7 {
				sets = append(sets, fmt.Sprintf("Set(%d, %s=1)", a+10+i, fld), fmt.Sprintf("Set(%d, %s=3)", c+10+i, fld))
			}
			sets = append(sets, fmt.Sprintf("Set(%d, %s=2)", b+10+i, fld))
			if i < 3 {
				sets = append(sets, fmt.Sprintf("Set(%d, %s=1)", b+30+i, fld))
			}
			if i < 6 {
				sets = append(sets, fmt.Sprintf("Set(%d, %s=2)", c+30+i, fld))
			}
		}
		r.seq = []string{fmt.Sprintf("field %s: shard %d: row 1 x7; shard %d: row 2 x8, row 1 x3; shard %d: row 3 x7, row 2 x6", fld, p[0], p[1], p[2])}
		for _, q := range sets {
			for _, node := range []*test.Command{r.c1[0], r.c3[0]} {
				if _, err := node.API.Query(context.Background(), &pilosa.QueryRequest{Index: "i", Query: q}); err != nil {
					r.fail([]string{"C17"}, "write-error-3node", q+": "+err.Error())
				}
			}
		}
		for _, n := range []int{1, 2} {
			q := fmt.Sprintf("TopN(%s, n=%d)", fld, n)
			var want []int
			for ni, node := range []*test.Command{r.c1[0], r.c3[0], r.c3[1], r.c3[2]} {
				r.evals++
				resp, err := node.API.Query(context.Background(), &pilosa.QueryRequest{Index: "i", Query: q})
				if err != nil {
					r.fail([]string{"C17"}, "query-error:TopN", fmt.Sprintf("%s: %v", q, err))
					continue
				}
				ps, _ := resp.Results[0].([]pilosa.Pair)
				var got []int
				for _, pr := range ps {
					got = append(got, int(pr.Count))
				}
				if ni == 0 {
					want = got
				} else if !reflect.DeepEqual(got, want) {
					r.fail([]string{"C17"}, "topn-n-placement", fmt.Sprintf("%s: the 1-node cluster reports counts %v, node %d of the 3-node cluster reports %v", q, want, ni-1, got))
				}
			}
		}
	}
}

func (r *pqRun) checkAll(m *pqModel, rng *rand.Rand) {
	// ---- set algebra (C15) ----
	rowSet := func(row uint64) map[uint64]bool { return m.s[row] }
	for _, row := range pqRows {
		r.expectCols([]string{"C15"}, "row", fmt.Sprintf("Row(s=%d)", row), sortedCols(rowSet(row)))
	}
	type expr struct {
		q   string
		set map[uint64]bool
	}
	// crossShift: some Shift in the expression moves a column over a shard boundary
	// (reported under its own signature: the carry into the next shard is a recorded
	// finding, see known_findings.json, and must not hide other Shift results)
	crossShift := false
	leaf := func() expr {
		if rng.Intn(3) == 0 && len(m.v) > 0 {
			p := pqVals[rng.Intn(len(pqVals))]
			set := map[uint64]bool{}
			for c, ok := range m.vHas {
				if ok && m.v[c] > p {
					set[c] = true
				}
			}
			return expr{fmt.Sprintf("Row(v > %d)", p), set}
		}
		row := pqRows[rng.Intn(len(pqRows))]
		set := map[uint64]bool{}
		for c := range m.s[row] {
			set[c] = true
		}
		return expr{fmt.Sprintf("Row(s=%d)", row), set}
	}
	var gen func(d int) expr
	gen = func(d int) expr {
		if d == 0 || rng.Intn(3) == 0 {
			return leaf()
		}
		if rng.Intn(5) == 0 {
			a, n := gen(d-1), uint64(1+rng.Intn(2))
			out := map[uint64]bool{}
			for c := range a.set {
				out[c+n] = true
				if c/pqSW != (c+n)/pqSW {
					crossShift = true
				}
			}
			return expr{fmt.Sprintf("Shift(%s, n=%d)", a.q, n), out}
		}
		a, b := gen(d-1), gen(d-1)
		out := map[uint64]bool{}
		switch rng.Intn(4) {
		case 0:
			for c := range a.set {
				out[c] = true
			}
			for c := range b.set {
				out[c] = true
			}
			return expr{"Union(" + a.q + ", " + b.q + ")", out}
		case 1:
			for c := range a.set {
				if b.set[c] {
					out[c] = true
				}
			}
			return expr{"Intersect(" + a.q + ", " + b.q + ")", out}
		case 2:
			for c := range a.set {
				if !b.set[c] {
					out[c] = true
				}
			}
			return expr{"Difference(" + a.q + ", " + b.q + ")", out}
		default:
			for c := range a.set {
				if !b.set[c] {
					out[c] = true
				}
			}
			for c := range b.set {
				if !a.set[c] {
					out[c] = true
				}
			}
			return expr{"Xor(" + a.q + ", " + b.q + ")", out}
		}
	}
	// Shift of every stored row, alone and intersected with another row (the latter is
	// evaluated shard by shard, where a bit carried over a shard boundary goes missing)
	for _, row := range pqRows {
		out, cross := map[uint64]bool{}, false
		for c := range m.s[row] {
			out[c+1] = true
			cross = cross || c/pqSW != (c+1)/pqSW
		}
		sig := "shift-row"
		if cross {
			sig = "algebra-shift-across-shards"
		}
		r.cross = cross
		r.expectCols([]string{"C15"}, sig, fmt.Sprintf("Shift(Row(s=%d), n=1)", row), sortedCols(out))
		other := pqRows[(int(row)+1)%len(pqRows)]
		both := map[uint64]bool{}
		for c := range out {
			if m.s[other][c] {
				both[c] = true
			}
		}
		r.expectCols([]string{"C15"}, sig, fmt.Sprintf("Intersect(Shift(Row(s=%d), n=1), Row(s=%d))", row, other), sortedCols(both))
		r.cross = false
	}
	for i := 0; i < 8; i++ {
		crossShift = false
		e := gen(3)
		sig, csig := "algebra", "count"
		if crossShift {
			sig, csig = "algebra-shift-across-shards", "count-shift-across-shards"
		}
		r.cross = crossShift
		r.expectCols([]string{"C15"}, sig, e.q, sortedCols(e.set))
		if v, ok := r.query("Count(" + e.q + ")"); ok {
			if n, _ := v.(uint64); int(n) != len(e.set) {
				r.fail([]string{"C15"}, csig, fmt.Sprintf("Count(%s) = %v, model %d", e.q, v, len(e.set)))
			}
		}
		r.cross = false
	}
	// ---- integer conditions (C14) ----
	preds := append([]int64{-1001, 1001, -9, 9, -16, 17}, pqVals...)
	ops := []struct {
		op string
		f  func(v, p int64) bool
	}{{"==", func(v, p int64) bool { return v == p }}, {"!=", func(v, p int64) bool { return v != p }}, {"<", func(v, p int64) bool { return v < p }},
		{"<=", func(v, p int64) bool { return v <= p }}, {">", func(v, p int64) bool { return v > p }}, {">=", func(v, p int64) bool { return v >= p }}}
	for _, o := range ops {
		for _, p := range preds {
			want := map[uint64]bool{}
			for c, ok := range m.vHas {
				if ok && o.f(m.v[c], p) {
					want[c] = true
				}
			}
			r.expectCols([]string{"C14", "C15"}, "intcond "+o.op, fmt.Sprintf("Row(v %s %d)", o.op, p), sortedCols(want))
		}
	}
	for i := 0; i < 12; i++ {
		lo, hi := preds[rng.Intn(len(preds))], preds[rng.Intn(len(preds))]
		if lo > hi {
			lo, hi = hi, lo
		}
		want := map[uint64]bool{}
		for c, ok := range m.vHas {
			if ok && lo <= m.v[c] && m.v[c] <= hi {
				want[c] = true
			}
		}
		r.expectCols([]string{"C14", "C15"}, "between", fmt.Sprintf("Row(v >< [%d,%d])", lo, hi), sortedCols(want))
	}
	notNull := map[uint64]bool{}
	for c, ok := range m.vHas {
		if ok {
			notNull[c] = true
		}
	}
	r.expectCols([]string{"C14"}, "notnull", "Row(v != null)", sortedCols(notNull))
	// Sum / Min / Max with and without a filter row
	for _, filt := range []string{"", "Row(s=0)", "Row(s=1)"} {
		var sum int64
		var cnt, nmin, nmax int64
		var mn, mx int64
		first := true
		for c, ok := range m.vHas {
			if !ok {
				continue
			}
			if filt == "Row(s=0)" && !m.s[0][c] {
				continue
			}
			if filt == "Row(s=1)" && !m.s[1][c] {
				continue
			}
			v := m.v[c]
			sum += v
			cnt++
			if first || v < mn {
				mn, nmin = v, 0
			}
			if first || v > mx {
				mx, nmax = v, 0
			}
			if v == mn {
				nmin++
			}
			if v == mx {
				nmax++
			}
			first = false
		}
		arg := "field=v"
		if filt != "" {
			arg = filt + ", field=v"
		}
		if v, ok := r.query("Sum(" + arg + ")"); ok {
			if vc, _ := v.(pilosa.ValCount); vc.Val != sum || vc.Count != cnt {
				r.fail([]string{"C14"}, "sum:"+filt, fmt.Sprintf("Sum(%s) = %+v, model {%d %d}", arg, v, sum, cnt))
			}
		}
		if cnt > 0 {
			if v, ok := r.query("Min(" + arg + ")"); ok {
				if vc, _ := v.(pilosa.ValCount); vc.Val != mn || vc.Count != nmin {
					r.fail([]string{"C14", "C17"}, "min:"+filt, fmt.Sprintf("Min(%s) = %+v, model {%d %d}", arg, v, mn, nmin))
				}
			}
			if v, ok := r.query("Max(" + arg + ")"); ok {
				if vc, _ := v.(pilosa.ValCount); vc.Val != mx || vc.Count != nmax {
					r.fail([]string{"C14", "C17"}, "max:"+filt, fmt.Sprintf("Max(%s) = %+v, model {%d %d}", arg, v, mx, nmax))
				}
			}
		}
	}
	// ---- Rows / MinRow / MaxRow / GroupBy (C16) ----
	nonEmpty := func(f map[uint64]map[uint64]bool) []uint64 {
		out := []uint64{}
		for row, cs := range f {
			if len(sortedCols(cs)) > 0 {
				out = append(out, row)
			}
		}
		sort.Slice(out, func(i, j int) bool { return out[i] < out[j] })
		return out
	}
	sRows := nonEmpty(m.s)
	getRows := func(q string) ([]uint64, bool) {
		v, ok := r.query(q)
		if !ok {
			return nil, false
		}
		ri, isRI := v.(pilosa.RowIdentifiers)
		if !isRI {
			r.fail([]string{"C16"}, "rows:type", fmt.Sprintf("%s returned %T", q, v))
			return nil, false
		}
		return ri.Rows, true
	}
	if got, ok := getRows("Rows(s)"); ok && !(len(got) == 0 && len(sRows) == 0) && !reflect.DeepEqual(got, sRows) {
		r.fail([]string{"C16"}, "rows", fmt.Sprintf("Rows(s) = %v, model %v", got, sRows))
	}
	for _, lim := range []int{1, 2} {
		// paging with previous/limit concatenates to the unpaged result
		var all []uint64
		q := fmt.Sprintf("Rows(s, limit=%d)", lim)
		for i := 0; i < 10; i++ {
			page, ok := getRows(q)
			if !ok || len(page) == 0 {
				break
			}
			all = append(all, page...)
			q = fmt.Sprintf("Rows(s, previous=%d, limit=%d)", page[len(page)-1], lim)
		}
		if !(len(all) == 0 && len(sRows) == 0) && !reflect.DeepEqual(all, sRows) {
			r.fail([]string{"C16"}, "rows-paging", fmt.Sprintf("Rows(s) paged by %d = %v, model %v", lim, all, sRows))
		}
	}
	for _, c := range pqCols[:4] {
		want := []uint64{}
		for _, row := range sRows {
			if m.s[row][c] {
				want = append(want, row)
			}
		}
		if got, ok := getRows(fmt.Sprintf("Rows(s, column=%d)", c)); ok && !(len(got) == 0 && len(want) == 0) && !reflect.DeepEqual(got, want) {
			r.fail([]string{"C16"}, "rows-column", fmt.Sprintf("Rows(s, column=%d) = %v, model %v", c, got, want))
		}
	}
	if len(sRows) > 0 {
		if v, ok := r.query("MinRow(field=s)"); ok {
			if p, _ := v.(pilosa.Pair); p.ID != sRows[0] || p.Count == 0 {
				r.fail([]string{"C16"}, "minrow", fmt.Sprintf("MinRow(field=s) = %+v, model row %d", v, sRows[0]))
			}
		}
		if v, ok := r.query("MaxRow(field=s)"); ok {
			if p, _ := v.(pilosa.Pair); p.ID != sRows[len(sRows)-1] || p.Count == 0 {
				r.fail([]string{"C16"}, "maxrow", fmt.Sprintf("MaxRow(field=s) = %+v, model row %d", v, sRows[len(sRows)-1]))
			}
		}
	}
	// GroupBy(Rows(s), Rows(m)): every combination with a non-zero count, ascending, exact counts
	type gk struct{ a, b uint64 }
	gcount := map[gk]uint64{}
	for row, cs := range m.s {
		for c, ok := range cs {
			if ok && m.mHas[c] {
				gcount[gk{row, m.m[c]}]++
			}
		}
	}
	var gkeys []gk
	for k := range gcount {
		gkeys = append(gkeys, k)
	}
	sort.Slice(gkeys, func(i, j int) bool {
		if gkeys[i].a != gkeys[j].a {
			return gkeys[i].a < gkeys[j].a
		}
		return gkeys[i].b < gkeys[j].b
	})
	wantG := []string{}
	for _, k := range gkeys {
		wantG = append(wantG, fmt.Sprintf("%d/%d=%d", k.a, k.b, gcount[k]))
	}
	getGroups := func(q string) ([]string, bool) {
		v, ok := r.query(q)
		if !ok {
			return nil, false
		}
		gs, isG := v.([]pilosa.GroupCount)
		if !isG {
			r.fail([]string{"C16"}, "groupby:type", fmt.Sprintf("%s returned %T", q, v))
			return nil, false
		}
		out := []string{}
		for _, g := range gs {
			if len(g.Group) == 2 {
				out = append(out, fmt.Sprintf("%d/%d=%d", g.Group[0].RowID, g.Group[1].RowID, g.Count))
			}
		}
		return out, true
	}
	if got, ok := getGroups("GroupBy(Rows(s), Rows(m))"); ok && !(len(got) == 0 && len(wantG) == 0) && !reflect.DeepEqual(got, wantG) {
		r.fail([]string{"C16"}, "groupby", fmt.Sprintf("GroupBy(Rows(s),Rows(m)) = %v, model %v", got, wantG))
	}
	for _, lim := range []int{1, 2, 3} {
		var all []string
		for off := 0; off < 40; off += lim {
			page, ok := getGroups(fmt.Sprintf("GroupBy(Rows(s), Rows(m), limit=%d, offset=%d)", lim, off))
			if !ok || len(page) == 0 {
				break
			}
			all = append(all, page...)
		}
		if !(len(all) == 0 && len(wantG) == 0) && !reflect.DeepEqual(all, wantG) {
			r.fail([]string{"C16"}, "groupby-offset-paging", fmt.Sprintf("GroupBy pages of %d concatenate to %v, unpaged model %v", lim, all, wantG))
		}
	}
	// GroupBy whose Rows children carry limit / column / previous: the child row set is
	// the one the same Rows query returns over the whole index (not per node).
	groupsWhere := func(keep func(a uint64) bool) []string {
		out := []string{}
		for _, k := range gkeys {
			if keep(k.a) {
				out = append(out, fmt.Sprintf("%d/%d=%d", k.a, k.b, gcount[k]))
			}
		}
		return out
	}
	for _, lim := range []int{1, 2} {
		first := map[uint64]bool{}
		for i, row := range sRows {
			if i < lim {
				first[row] = true
			}
		}
		want := groupsWhere(func(a uint64) bool { return first[a] })
		if got, ok := getGroups(fmt.Sprintf("GroupBy(Rows(s, limit=%d), Rows(m))", lim)); ok && !(len(got) == 0 && len(want) == 0) && !reflect.DeepEqual(got, want) {
			r.fail([]string{"C16", "C17"}, "groupby-child-limit", fmt.Sprintf("GroupBy(Rows(s, limit=%d), Rows(m)) = %v, model %v (Rows(s) = %v)", lim, got, want, sRows))
		}
	}
	for _, c := range pqCols[:3] {
		want := groupsWhere(func(a uint64) bool { return m.s[a][c] })
		if got, ok := getGroups(fmt.Sprintf("GroupBy(Rows(s, column=%d), Rows(m))", c)); ok && !(len(got) == 0 && len(want) == 0) && !reflect.DeepEqual(got, want) {
			r.fail([]string{"C16", "C17"}, "groupby-child-column", fmt.Sprintf("GroupBy(Rows(s, column=%d), Rows(m)) = %v, model %v", c, got, want))
		}
	}
	// (previous= on only some children has no stated meaning; it is checked below, on
	// every child, as a paging device)
	// MinRow / MaxRow with a filter: the smallest / largest row meeting the filter,
	// with the number of its columns inside the filter summed over all shards (C17).
	for _, fr := range sRows {
		lo, hi, nlo, nhi, any := uint64(0), uint64(0), 0, 0, false
		for _, row := range sRows {
			k := 0
			for c, ok := range m.s[row] {
				if ok && m.s[fr][c] {
					k++
				}
			}
			if k == 0 {
				continue
			}
			if !any {
				lo, nlo, any = row, k, true
			}
			hi, nhi = row, k
		}
		if !any {
			continue
		}
		if v, ok := r.query(fmt.Sprintf("MinRow(Row(s=%d), field=s)", fr)); ok {
			if p, _ := v.(pilosa.Pair); p.ID != lo || int(p.Count) != nlo {
				r.fail([]string{"C16", "C17"}, "minrow-filter", fmt.Sprintf("MinRow(Row(s=%d), field=s) = %+v, model row %d count %d", fr, v, lo, nlo))
			}
		}
		if v, ok := r.query(fmt.Sprintf("MaxRow(Row(s=%d), field=s)", fr)); ok {
			if p, _ := v.(pilosa.Pair); p.ID != hi || int(p.Count) != nhi {
				r.fail([]string{"C16", "C17"}, "maxrow-filter", fmt.Sprintf("MaxRow(Row(s=%d), field=s) = %+v, model row %d count %d", fr, v, hi, nhi))
			}
		}
	}
	if len(sRows) > 0 {
		fr := sRows[len(sRows)-1]
		want := []string{}
		for _, k := range gkeys {
			n := 0
			for c, ok := range m.s[k.a] {
				if ok && m.mHas[c] && m.m[c] == k.b && m.s[fr][c] {
					n++
				}
			}
			if n > 0 {
				want = append(want, fmt.Sprintf("%d/%d=%d", k.a, k.b, n))
			}
		}
		if got, ok := getGroups(fmt.Sprintf("GroupBy(Rows(s), Rows(m), filter=Row(s=%d))", fr)); ok && !(len(got) == 0 && len(want) == 0) && !reflect.DeepEqual(got, want) {
			r.fail([]string{"C16"}, "groupby-filter", fmt.Sprintf("GroupBy(Rows(s), Rows(m), filter=Row(s=%d)) = %v, model %v", fr, got, want))
		}
	}
	// GroupBy over three fields, paged with previous= on every child (the group the
	// previous page ended with) and limit: the pages concatenate to the unpaged result.
	if !r.noStd {
		type g3 struct{ a, b, c uint64 }
		cnt3 := map[g3]uint64{}
		for a, cs := range m.s {
			for col, ok := range cs {
				if !ok || !m.mHas[col] {
					continue
				}
				for c, tc := range m.tStd {
					if tc[col] {
						cnt3[g3{a, m.m[col], c}]++
					}
				}
			}
		}
		var keys3 []g3
		for k := range cnt3 {
			keys3 = append(keys3, k)
		}
		sort.Slice(keys3, func(i, j int) bool {
			x, y := keys3[i], keys3[j]
			if x.a != y.a {
				return x.a < y.a
			}
			if x.b != y.b {
				return x.b < y.b
			}
			return x.c < y.c
		})
		want3 := []string{}
		for _, k := range keys3 {
			want3 = append(want3, fmt.Sprintf("%d/%d/%d=%d", k.a, k.b, k.c, cnt3[k]))
		}
		get3 := func(q string) ([]string, []g3, bool) {
			v, ok := r.query(q)
			if !ok {
				return nil, nil, false
			}
			gs, isG := v.([]pilosa.GroupCount)
			if !isG {
				return nil, nil, false
			}
			out, ks := []string{}, []g3{}
			for _, g := range gs {
				if len(g.Group) == 3 {
					out = append(out, fmt.Sprintf("%d/%d/%d=%d", g.Group[0].RowID, g.Group[1].RowID, g.Group[2].RowID, g.Count))
					ks = append(ks, g3{g.Group[0].RowID, g.Group[1].RowID, g.Group[2].RowID})
				}
			}
			return out, ks, true
		}
		if got, _, ok := get3("GroupBy(Rows(s), Rows(m), Rows(t))"); ok && !(len(got) == 0 && len(want3) == 0) && !reflect.DeepEqual(got, want3) {
			r.fail([]string{"C16"}, "groupby3", fmt.Sprintf("GroupBy(Rows(s),Rows(m),Rows(t)) = %v, model %v", got, want3))
		}
		for _, lim := range []int{1, 2} {
			var all []string
			q := fmt.Sprintf("GroupBy(Rows(s), Rows(m), Rows(t), limit=%d)", lim)
			for i := 0; i < 60; i++ {
				page, ks, ok := get3(q)
				if !ok || len(page) == 0 {
					break
				}
				all = append(all, page...)
				last := ks[len(ks)-1]
				q = fmt.Sprintf("GroupBy(Rows(s, previous=%d), Rows(m, previous=%d), Rows(t, previous=%d), limit=%d)", last.a, last.b, last.c, lim)
			}
			if !(len(all) == 0 && len(want3) == 0) && !reflect.DeepEqual(all, want3) {
				r.fail([]string{"C16"}, "groupby3-previous-paging", fmt.Sprintf("GroupBy over 3 fields paged by %d with previous= concatenates to %v, unpaged model %v", lim, all, want3))
			}
		}
	}
	// ---- TopN with explicit ids (C12) ----
	if v, ok := r.query("TopN(s, ids=[0,1,2,3,10])"); ok {
		if ps, isP := v.([]pilosa.Pair); isP {
			for _, p := range ps {
				if int(p.Count) != len(sortedCols(m.s[p.ID])) {
					r.fail([]string{"C12"}, "topn-ids", fmt.Sprintf("TopN(s, ids) reports row %d count %d, model %d", p.ID, p.Count, len(sortedCols(m.s[p.ID]))))
				}
			}
			for _, row := range sRows {
				found := false
				for _, p := range ps {
					found = found || p.ID == row
				}
				if !found {
					r.fail([]string{"C12"}, "topn-ids-missing", fmt.Sprintf("TopN(s, ids) omits non-empty row %d", row))
				}
			}
		}
	}
	// TopN(n=K): at most 5 rows exist, so every cache holds them all and the K largest
	// counts are exact whichever node coordinates (ties make the ids ambiguous, the
	// counts are not)
	{
		var counts []int
		for _, row := range pqRows {
			if n := len(sortedCols(m.s[row])); n > 0 {
				counts = append(counts, n)
			}
		}
		sort.Sort(sort.Reverse(sort.IntSlice(counts)))
		for _, k := range []int{1, 2, 3} {
			want := counts
			if len(want) > k {
				want = want[:k]
			}
			q := fmt.Sprintf("TopN(s, n=%d)", k)
			var nodes []*test.Command
			nodes = append(nodes, r.c1[0])
			if r.c3 != nil {
				nodes = append(nodes, r.c3[0], r.c3[1], r.c3[2])
			}
			for ni, node := range nodes {
				r.evals++
				resp, err := node.API.Query(context.Background(), &pilosa.QueryRequest{Index: "i", Query: q})
				if err != nil {
					r.fail([]string{"C17"}, "query-error:TopN", fmt.Sprintf("%s: %v", q, err))
					continue
				}
				ps, isP := resp.Results[0].([]pilosa.Pair)
				if !isP {
					continue
				}
				var got []int
				for _, p := range ps {
					got = append(got, int(p.Count))
				}
				// Over several shards TopN(n) is a two-pass approximation (a row that is in no
				// shard's own top n can be missed), so the model's K largest counts are not
				// demanded.  What C17 demands is that the answer does not depend on which
				// nodes hold the shards or which node is asked: every node of the 3-node
				// cluster must report the counts the 1-node cluster reports.
				if ni == 0 {
					want = got
					continue
				}
				if !(len(got) == 0 && len(want) == 0) && !reflect.DeepEqual(got, want) {
					r.fail([]string{"C17"}, "topn-n-placement", fmt.Sprintf("%s: the 1-node cluster reports counts %v, node %d of the 3-node cluster reports %v", q, want, ni-1, got))
				}
			}
		}
	}
	// a row named twice is still one row with one count
	if v, ok := r.query("TopN(s, ids=[1,0,1,10,1])"); ok {
		if ps, isP := v.([]pilosa.Pair); isP {
			seenID := map[uint64]bool{}
			for _, p := range ps {
				if int(p.Count) != len(sortedCols(m.s[p.ID])) || seenID[p.ID] {
					r.fail([]string{"C12"}, "topn-ids-repeated", fmt.Sprintf("TopN(s, ids=[1,0,1,10,1]) = %v: row %d has %d columns in the model", ps, p.ID, len(sortedCols(m.s[p.ID]))))
				}
				seenID[p.ID] = true
			}
		}
	}
	// ---- time ranges (C18, C19) ----
	for i := 0; i < 8; i++ {
		a, b := pqTimes[rng.Intn(len(pqTimes))], pqTimes[rng.Intn(len(pqTimes))]
		if i == 0 {
			a = pqTimes[0] // one range always reaches back to the earliest (pre-1970) stamp
		}
		if b.Before(a) {
			a, b = b, a
		}
		b = b.Add(time.Hour) // exclusive end, aligned to the hour
		for _, row := range pqRows[:3] {
			want := map[uint64]bool{}
			for c, ts := range m.t[row] {
				for t0, ok := range ts {
					if ok && !t0.Before(a) && t0.Before(b) {
						want[c] = true
					}
				}
			}
			r.expectCols([]string{"C18", "C19", "C28"}, "timerange", fmt.Sprintf("Row(t=%d, from=%s, to=%s)", row, pqTS(a), pqTS(b)), sortedCols(want))
		}
		// Rows over the same range: the rows with a bit in [a,b), and its limit= prefixes
		var wantRows []uint64
		for _, row := range pqRows[:3] {
			hit := false
			for _, ts := range m.t[row] {
				for t0, ok := range ts {
					hit = hit || (ok && !t0.Before(a) && t0.Before(b))
				}
			}
			if hit {
				wantRows = append(wantRows, row)
			}
		}
		sort.Slice(wantRows, func(x, y int) bool { return wantRows[x] < wantRows[y] })
		for _, lim := range []int{0, 1, 2} {
			q, want := fmt.Sprintf("Rows(t, from=%s, to=%s)", pqTS(a), pqTS(b)), wantRows
			if lim > 0 {
				q = fmt.Sprintf("Rows(t, from=%s, to=%s, limit=%d)", pqTS(a), pqTS(b), lim)
				if len(want) > lim {
					want = want[:lim]
				}
			}
			if got, ok := getRows(q); ok && !(len(got) == 0 && len(want) == 0) && !reflect.DeepEqual(got, want) {
				r.fail([]string{"C16", "C18"}, "rows-timerange", fmt.Sprintf("%s = %v, model %v", q, got, want))
			}
		}
	}
	for _, row := range pqRows[:3] {
		if r.noStd {
			// no write path creates a standard view on a noStandardView field (a Set
			// without a time stamp is a no-op there, and so is an import without one)
			r.expectCols([]string{"C28", "C19"}, "nostd-standard", fmt.Sprintf("Row(t=%d)", row), []uint64{})
			continue
		}
		r.expectCols([]string{"C19"}, "time-standard", fmt.Sprintf("Row(t=%d)", row), sortedCols(m.tStd[row]))
	}
}

func (r *pqRun) round(rng *rand.Rand, writes int) {
	m := newPqModel()
	// Every second round with a standard time view starts from dense data: every
	// column carries a set row or two, a mutex row and a time row, so that GroupBy
	// over two and three fields has many groups spread unevenly over the shards.
	if !r.noStd && rng.Intn(2) == 0 {
		for _, c := range pqCols {
			for k := 0; k < 1+rng.Intn(2); k++ {
				row := pqRows[rng.Intn(len(pqRows))]
				r.write(fmt.Sprintf("Set(%d, s=%d)", c, row))
				if m.s[row] == nil {
					m.s[row] = map[uint64]bool{}
				}
				m.s[row][c] = true
			}
			mr := pqRows[rng.Intn(len(pqRows))]
			r.write(fmt.Sprintf("Set(%d, m=%d)", c, mr))
			m.m[c], m.mHas[c] = mr, true
			tr := pqRows[rng.Intn(3)]
			ts := pqTimes[rng.Intn(len(pqTimes))]
			r.write(fmt.Sprintf("Set(%d, t=%d, %s)", c, tr, pqTS(ts)))
			if m.t[tr] == nil {
				m.t[tr] = map[uint64]map[time.Time]bool{}
				m.tStd[tr] = map[uint64]bool{}
			}
			if m.t[tr][c] == nil {
				m.t[tr][c] = map[time.Time]bool{}
			}
			m.t[tr][c][ts] = true
			m.tStd[tr][c] = true
		}
	}
	timeWrite := func(c, row uint64, ts time.Time, viaImport bool) {
		if viaImport {
			// the bulk import path with a time stamp (C28: same answers as Set);
			// like the real client, the request goes to every owner of the shard
			r.seq = append(r.seq, fmt.Sprintf("Import(col %d, t=%d, %s)", c, row, pqTS(ts)))
			for _, cl := range []test.Cluster{r.c1, r.c3} {
				if cl == nil {
					continue
				}
				accepted := 0
				var lastErr error
				for _, node := range cl {
					req := &pilosa.ImportRequest{Index: "i", Field: "t", Shard: c / pqSW, RowIDs: []uint64{row}, ColumnIDs: []uint64{c}, Timestamps: []int64{ts.UnixNano()}}
					err := node.API.Import(context.Background(), req)
					if err == nil {
						accepted++
					} else if !strings.Contains(err.Error(), "shard ownership") {
						lastErr = err
					}
				}
				if accepted == 0 || lastErr != nil {
					r.fail([]string{"C28"}, "import-error", fmt.Sprintf("Import(col %d, t=%d, %s): accepted by %d nodes, error %v", c, row, pqTS(ts), accepted, lastErr))
				}
			}
		} else {
			r.write(fmt.Sprintf("Set(%d, t=%d, %s)", c, row, pqTS(ts)))
		}
		if m.t[row] == nil {
			m.t[row] = map[uint64]map[time.Time]bool{}
			m.tStd[row] = map[uint64]bool{}
		}
		if m.t[row][c] == nil {
			m.t[row][c] = map[time.Time]bool{}
		}
		m.t[row][c][ts] = true
		m.tStd[row][c] = true
	}
	// every round starts with one bulk import of a time stamp before 1970 (negative
	// UnixNano), the corner of C28 a random draw reaches only now and then
	timeWrite(pqCols[rng.Intn(len(pqCols))], pqRows[rng.Intn(3)], pqTimes[0], true)
	// ... and one bulk import without a time stamp: like Set without one it writes the
	// standard view only, and nothing at all when the field has no standard view
	{
		c, row := pqCols[rng.Intn(len(pqCols))], pqRows[rng.Intn(3)]
		r.seq = append(r.seq, fmt.Sprintf("Import(col %d, t=%d, no time stamp)", c, row))
		for _, cl := range []test.Cluster{r.c1, r.c3} {
			if cl == nil {
				continue
			}
			for _, node := range cl {
				req := &pilosa.ImportRequest{Index: "i", Field: "t", Shard: c / pqSW, RowIDs: []uint64{row}, ColumnIDs: []uint64{c}}
				if err := node.API.Import(context.Background(), req); err != nil && !strings.Contains(err.Error(), "shard ownership") {
					r.fail([]string{"C28"}, "import-error", fmt.Sprintf("Import(col %d, t=%d, no time stamp): %v", c, row, err))
				}
			}
		}
		if !r.noStd {
			if m.tStd[row] == nil {
				m.t[row] = map[uint64]map[time.Time]bool{}
				m.tStd[row] = map[uint64]bool{}
			}
			m.tStd[row][c] = true
		}
	}
	for w := 0; w < writes; w++ {
		c := pqCols[rng.Intn(len(pqCols))]
		switch rng.Intn(10) {
		case 0, 1:
			row := pqRows[rng.Intn(len(pqRows))]
			r.write(fmt.Sprintf("Set(%d, s=%d)", c, row))
			if m.s[row] == nil {
				m.s[row] = map[uint64]bool{}
			}
			m.s[row][c] = true
		case 2:
			row := pqRows[rng.Intn(len(pqRows))]
			r.write(fmt.Sprintf("Clear(%d, s=%d)", c, row))
			if m.s[row] != nil {
				delete(m.s[row], c)
			}
		case 3:
			row := pqRows[rng.Intn(len(pqRows))]
			r.write(fmt.Sprintf("Set(%d, m=%d)", c, row))
			m.m[c], m.mHas[c] = row, true
		case 4, 5:
			v := pqVals[rng.Intn(len(pqVals))]
			if rng.Intn(3) == 0 {
				// the value-import path (C14/C28: same answers as Set)
				r.seq = append(r.seq, fmt.Sprintf("ImportValue(col %d, v=%d)", c, v))
				for _, cl := range []test.Cluster{r.c1, r.c3} {
					if cl == nil {
						continue
					}
					// like the real client: the request goes to every node that owns the shard
					accepted := 0
					var lastErr error
					for _, node := range cl {
						req := &pilosa.ImportValueRequest{Index: "i", Field: "v", Shard: c / pqSW, ColumnIDs: []uint64{c}, Values: []int64{v}}
						err := node.API.ImportValue(context.Background(), req)
						if err == nil {
							accepted++
						} else if !strings.Contains(err.Error(), "shard ownership") {
							lastErr = err
						}
					}
					if accepted == 0 || lastErr != nil {
						r.fail([]string{"C14"}, "importvalue-error", fmt.Sprintf("ImportValue(col %d, v=%d): accepted by %d nodes, error %v", c, v, accepted, lastErr))
					}
				}
			} else {
				r.write(fmt.Sprintf("Set(%d, v=%d)", c, v))
			}
			m.v[c], m.vHas[c] = v, true
		case 6, 7:
			timeWrite(c, pqRows[rng.Intn(3)], pqTimes[rng.Intn(len(pqTimes))], rng.Intn(3) == 0)
		case 8, 9:
			row := pqRows[rng.Intn(3)]
			// prefer a bit that is set (a Clear of an absent bit exercises little)
			if rng.Intn(4) != 0 {
				type rc struct{ r, c uint64 }
				var have []rc
				for _, r0 := range pqRows[:3] {
					for _, c0 := range pqCols {
						if len(m.t[r0][c0]) > 0 {
							have = append(have, rc{r0, c0})
						}
					}
				}
				if len(have) > 0 {
					x := have[rng.Intn(len(have))]
					row, c = x.r, x.c
				}
			}
			if rng.Intn(3) == 0 {
				// the clearing bulk import (no time stamps are allowed with it): it must
				// remove the bit from every view, like Clear
				r.seq = append(r.seq, fmt.Sprintf("Import(clear; col %d, t=%d)", c, row))
				for _, cl := range []test.Cluster{r.c1, r.c3} {
					if cl == nil {
						continue
					}
					for _, node := range cl {
						req := &pilosa.ImportRequest{Index: "i", Field: "t", Shard: c / pqSW, RowIDs: []uint64{row}, ColumnIDs: []uint64{c}}
						if err := node.API.Import(context.Background(), req, pilosa.OptImportOptionsClear(true)); err != nil && !strings.Contains(err.Error(), "shard ownership") {
							r.fail([]string{"C28"}, "import-error", fmt.Sprintf("Import(clear; col %d, t=%d): %v", c, row, err))
						}
					}
				}
			} else {
				r.write(fmt.Sprintf("Clear(%d, t=%d)", c, row))
			}
			if m.t[row] != nil {
				delete(m.t[row], c)
				delete(m.tStd[row], c)
			}
		}
		if w%6 == 5 || w == writes-1 {
			r.checkAll(m, rng)
		}
	}
}

func TestRcheckPQL(t *testing.T) {
	seed := int64(1)
	if s := os.Getenv("VERIF_SEED"); s != "" {
		if v, err := strconv.ParseInt(s, 10, 64); err == nil {
			seed = v
		}
	}
	rounds := 4
	if os.Getenv("VERIF_TIER") == "thorough" {
		rounds = 30
	}
	for _, y := range []int{1969, 2017, 2018} { // 1969: time stamps before the Unix epoch
		for _, mo := range []time.Month{time.January, time.March} {
			for _, d := range []int{1, 6, 7, 31} {
				for _, h := range []int{0, 13} {
					pqTimes = append(pqTimes, time.Date(y, mo, d, h, 0, 0, 0, time.UTC))
				}
			}
		}
	}
	res := &pqResult{Harness: "pql", Rule: "random PQL write sequences on a 1-node and a 3-node cluster; every read query compared with a map model and between the clusters; a round is non-trivial when it contains at least one write; distinct by write sequence",
		Bound: fmt.Sprintf("columns %v, rows %v, int values %v, %d time stamps, %d rounds of <= 25 writes, seed %d", pqCols, pqRows, pqVals, len(pqTimes), rounds, seed)}
	r := &pqRun{t: t, res: res, seen: map[string]bool{}}
	rng := rand.New(rand.NewSource(seed))
	for round := 0; round < rounds; round++ {
		// fresh clusters per round (fresh data directories)
		r.c1 = test.MustRunCluster(t, 1)
		r.c3 = nil
		if round%2 == 0 {
			r.c3 = test.MustRunCluster(t, 3)
		}
		for _, cl := range []test.Cluster{r.c1, r.c3} {
			if cl == nil {
				continue
			}
			cl.CreateField(t, "i", pilosa.IndexOptions{}, "s", pilosa.OptFieldTypeSet(pilosa.CacheTypeRanked, 100))
			cl.CreateField(t, "i", pilosa.IndexOptions{}, "m", pilosa.OptFieldTypeMutex(pilosa.CacheTypeRanked, 100))
			cl.CreateField(t, "i", pilosa.IndexOptions{}, "v", pilosa.OptFieldTypeInt(-1000, 1000))
			cl.CreateField(t, "i", pilosa.IndexOptions{}, "t", pilosa.OptFieldTypeTime(pilosa.TimeQuantum("YMDH"), round%4 >= 2))
		}
		r.noStd = round%4 >= 2
		r.seq = []string{fmt.Sprintf("round %d (3-node comparison: %v, time field noStandardView: %v)", round, r.c3 != nil, r.noStd)}
		r.round(rng, 10+rng.Intn(16))
		if r.c3 != nil && round == 0 {
			r.topnPlacement(t)
		}
		key := strings.Join(r.seq, ";")
		if !r.seen[key] {
			r.seen[key] = true
			res.Distinct++
			if len(res.Samples) < 2 {
				s := r.seq
				if len(s) > 12 {
					s = s[:12]
				}
				res.Samples = append(res.Samples, append([]string{}, s...))
			}
		}
		r.c1.Close()
		if r.c3 != nil {
			r.c3.Close()
		}
	}
	res.Evaluations = r.evals
	if out := os.Getenv("RCHECK_OUT"); out != "" {
		data, _ := json.MarshalIndent(res, "", " ")
		if err := os.WriteFile(out, data, 0o644); err != nil {
			t.Fatal(err)
		}
	}
	for _, f := range res.Failures {
		t.Logf("FAIL %v %s: %s", f.Props, f.Sig, f.What)
	}
}
