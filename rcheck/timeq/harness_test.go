package pilosa

// BOUNDED stand-in (never counted as proved): the calendar arithmetic behind time
// views (time.go) goes through time.Time, which the VC generator does not model.
// Serves C18.  Injected into package pilosa with `go test -overlay`; results are
// written as JSON to $RCHECK_OUT.
//
// 1. viewsByTimeRange(name, start, end, q): for every valid quantum q and every
//    pair start < end of instants aligned to q's finest unit (taken from a grid of
//    boundary-heavy instants), the intervals denoted by the returned view names are
//    pairwise disjoint and their union is exactly [start, end).  The interval of a
//    view name is computed here from its digits, independently of timeOfView.
// 2. timeOfView(view, false/true): for every year/month/day/hour view of the years
//    1970..2040 (exhaustive) and a few far years, the name maps back to the start /
//    end of the interval it denotes.
// 3. viewsByTime(name, t, q) names exactly the enclosing interval of t per unit of q.

import (
	"encoding/json"
	"fmt"
	"math/rand"
	"os"
	"sort"
	"strconv"
	"testing"
	"time"
)

type tqFailure struct {
	Props []string `json:"props"`
	What  string   `json:"what"`
	Sig   string   `json:"signature"`
	Seq   []string `json:"sequence"`
}

type tqResult struct {
	Harness     string        `json:"harness"`
	Bound       string        `json:"bound"`
	Evaluations int           `json:"evaluations"`
	Distinct    int           `json:"distinct_nontrivial"`
	Rule        string        `json:"rule"`
	Exhaustive  bool          `json:"exhaustive"`
	Samples     []interface{} `json:"samples"`
	Failures    []tqFailure   `json:"failures"`
}

func (r *tqResult) fail(sig, what string, seq ...string) {
	r.failP([]string{"C18"}, sig, what, seq...)
}

func (r *tqResult) failP(props []string, sig, what string, seq ...string) {
	for _, f := range r.Failures {
		if f.Sig == sig {
			return
		}
	}
	r.Failures = append(r.Failures, tqFailure{Props: props, What: what, Sig: sig, Seq: seq})
}

// tqInterval: the interval a view name denotes, from its digits alone.
func tqInterval(view, name string) (time.Time, time.Time, error) {
	prefix := name + "_"
	if len(view) <= len(prefix) || view[:len(prefix)] != prefix {
		return time.Time{}, time.Time{}, fmt.Errorf("view %q does not start with %q", view, prefix)
	}
	d := view[len(prefix):]
	num := func(s string) int { n, _ := strconv.Atoi(s); return n }
	for _, ch := range d {
		if ch < '0' || ch > '9' {
			return time.Time{}, time.Time{}, fmt.Errorf("view %q has a non-digit time part", view)
		}
	}
	switch len(d) {
	case 4:
		s := time.Date(num(d), 1, 1, 0, 0, 0, 0, time.UTC)
		return s, time.Date(num(d)+1, 1, 1, 0, 0, 0, 0, time.UTC), nil
	case 6:
		s := time.Date(num(d[:4]), time.Month(num(d[4:6])), 1, 0, 0, 0, 0, time.UTC)
		return s, time.Date(num(d[:4]), time.Month(num(d[4:6]))+1, 1, 0, 0, 0, 0, time.UTC), nil
	case 8:
		s := time.Date(num(d[:4]), time.Month(num(d[4:6])), num(d[6:8]), 0, 0, 0, 0, time.UTC)
		return s, s.AddDate(0, 0, 1), nil
	case 10:
		s := time.Date(num(d[:4]), time.Month(num(d[4:6])), num(d[6:8]), num(d[8:10]), 0, 0, 0, time.UTC)
		return s, s.Add(time.Hour), nil
	}
	return time.Time{}, time.Time{}, fmt.Errorf("view %q has a time part of length %d", view, len(d))
}

func tqAligned(t time.Time, q TimeQuantum) bool {
	switch {
	case q.HasHour():
		return true
	case q.HasDay():
		return t.Hour() == 0
	case q.HasMonth():
		return t.Hour() == 0 && t.Day() == 1
	default:
		return t.Hour() == 0 && t.Day() == 1 && t.Month() == 1
	}
}

func TestRcheckTimeq(t *testing.T) {
	seed := int64(1)
	if s := os.Getenv("VERIF_SEED"); s != "" {
		if v, err := strconv.ParseInt(s, 10, 64); err == nil {
			seed = v
		}
	}
	thorough := os.Getenv("VERIF_TIER") == "thorough"
	pairsPerQuantum := 3000
	if thorough {
		pairsPerQuantum = 60000
	}
	res := &tqResult{Harness: "timeq",
		Rule: "range cover: views of viewsByTimeRange are disjoint and cover exactly [start,end) (non-trivial: the range spans at least two views; distinct by (quantum,start,end)); name->interval: timeOfView agrees with the digits of the view name; viewsByTime names the enclosing interval per unit"}
	rng := rand.New(rand.NewSource(seed))

	// grid of instants: boundary-heavy
	var grid []time.Time
	for _, y := range []int{1999, 2000, 2001, 2019, 2020, 2021} {
		for _, m := range []int{1, 2, 3, 4, 11, 12} {
			for _, d := range []int{1, 2, 15, 27, 28, 29, 30, 31} {
				for _, h := range []int{0, 1, 11, 12, 13, 22, 23} {
					ts := time.Date(y, time.Month(m), d, h, 0, 0, 0, time.UTC)
					if ts.Month() != time.Month(m) {
						continue // day does not exist in this month
					}
					grid = append(grid, ts)
				}
			}
		}
	}
	quanta := []TimeQuantum{"Y", "M", "D", "H", "YM", "MD", "DH", "YMD", "MDH", "YMDH"}
	for _, q := range quanta {
		if !q.Valid() {
			res.fail("quantum-invalid-"+string(q), fmt.Sprintf("quantum %q is reported invalid", q))
			continue
		}
		var al []time.Time
		for _, g := range grid {
			if tqAligned(g, q) {
				al = append(al, g)
			}
		}
		seen := map[[2]int]bool{}
		for n := 0; n < pairsPerQuantum; n++ {
			i, j := rng.Intn(len(al)), rng.Intn(len(al))
			if i == j {
				continue
			}
			if al[j].Before(al[i]) {
				i, j = j, i
			}
			start, end := al[i], al[j]
			// keep hour-only / day-only quanta from producing huge view lists
			if !q.HasMonth() && !q.HasYear() && end.Sub(start) > 24*time.Hour*400 {
				continue
			}
			if seen[[2]int{i, j}] {
				continue
			}
			seen[[2]int{i, j}] = true
			views := viewsByTimeRange("f", start, end, q)
			res.Evaluations++
			type iv struct {
				s, e time.Time
				v    string
			}
			var ivs []iv
			bad := false
			for _, v := range views {
				s, e, err := tqInterval(v, "f")
				if err != nil {
					res.fail("range-view-name", err.Error(), fmt.Sprintf("viewsByTimeRange(f, %s, %s, %s) = %v", start.Format("2006-01-02T15"), end.Format("2006-01-02T15"), q, tqShort(views)))
					bad = true
					break
				}
				ivs = append(ivs, iv{s, e, v})
			}
			if bad {
				continue
			}
			if len(ivs) >= 2 {
				res.Distinct++
				if len(res.Samples) < 4 {
					res.Samples = append(res.Samples, map[string]interface{}{"quantum": q, "start": start.Format("2006-01-02T15"), "end": end.Format("2006-01-02T15"), "views": tqShort(views)})
				}
			}
			sort.Slice(ivs, func(a, b int) bool { return ivs[a].s.Before(ivs[b].s) })
			desc := fmt.Sprintf("viewsByTimeRange(f, %s, %s, %s) = %v", start.Format("2006-01-02T15"), end.Format("2006-01-02T15"), q, tqShort(views))
			cur := start
			for _, x := range ivs {
				if x.s.Before(cur) {
					res.fail("range-overlap", fmt.Sprintf("view %s starts before the previous view ends (or before the range start)", x.v), desc)
					bad = true
					break
				}
				if x.s.After(cur) {
					res.fail("range-gap", fmt.Sprintf("no view covers [%s, %s)", cur.Format("2006-01-02T15"), x.s.Format("2006-01-02T15")), desc)
					bad = true
					break
				}
				cur = x.e
			}
			if !bad && !cur.Equal(end) {
				if cur.Before(end) {
					res.fail("range-short", fmt.Sprintf("views end at %s, range ends at %s", cur.Format("2006-01-02T15"), end.Format("2006-01-02T15")), desc)
				} else {
					res.fail("range-long", fmt.Sprintf("views end at %s, range ends at %s", cur.Format("2006-01-02T15"), end.Format("2006-01-02T15")), desc)
				}
			}
		}
	}

	// Unaligned ranges (C16: Rows/Row over "the given time range" for any from/to):
	// whatever the quantum, the views read must be disjoint, stay inside the range
	// rounded outwards to the coarsest unit, and cover every whole finest unit that lies
	// inside the range (a bit stamped in such a unit is in the range and must be found).
	floorTo := func(t time.Time, q TimeQuantum) time.Time {
		switch {
		case q.HasHour():
			return time.Date(t.Year(), t.Month(), t.Day(), t.Hour(), 0, 0, 0, time.UTC)
		case q.HasDay():
			return time.Date(t.Year(), t.Month(), t.Day(), 0, 0, 0, 0, time.UTC)
		case q.HasMonth():
			return time.Date(t.Year(), t.Month(), 1, 0, 0, 0, 0, time.UTC)
		}
		return time.Date(t.Year(), 1, 1, 0, 0, 0, 0, time.UTC)
	}
	nextUnit := func(t time.Time, q TimeQuantum) time.Time {
		switch {
		case q.HasHour():
			return t.Add(time.Hour)
		case q.HasDay():
			return t.AddDate(0, 0, 1)
		case q.HasMonth():
			return time.Date(t.Year(), t.Month()+1, 1, 0, 0, 0, 0, time.UTC)
		}
		return time.Date(t.Year()+1, 1, 1, 0, 0, 0, 0, time.UTC)
	}
	for _, q := range quanta {
		if q.HasHour() {
			continue // every grid instant is aligned for these
		}
		for n := 0; n < pairsPerQuantum/3; n++ {
			i, j := rng.Intn(len(grid)), rng.Intn(len(grid))
			if grid[j].Before(grid[i]) {
				i, j = j, i
			}
			start, end := grid[i], grid[j]
			if !start.Before(end) || (tqAligned(start, q) && tqAligned(end, q)) {
				continue
			}
			if !q.HasMonth() && !q.HasYear() && end.Sub(start) > 24*time.Hour*400 {
				continue
			}
			innerLo := floorTo(start, q)
			if innerLo.Before(start) {
				innerLo = nextUnit(innerLo, q)
			}
			innerHi := floorTo(end, q)
			if !innerLo.Before(innerHi) {
				continue
			}
			views := viewsByTimeRange("f", start, end, q)
			res.Evaluations++
			desc := fmt.Sprintf("viewsByTimeRange(f, %s, %s, %s) = %v", start.Format("2006-01-02T15"), end.Format("2006-01-02T15"), q, tqShort(views))
			type iv struct{ s, e time.Time }
			var ivs []iv
			bad := false
			for _, v := range views {
				s0, e0, err := tqInterval(v, "f")
				if err != nil {
					bad = true
					break
				}
				ivs = append(ivs, iv{s0, e0})
			}
			if bad {
				continue
			}
			sort.Slice(ivs, func(a, b int) bool { return ivs[a].s.Before(ivs[b].s) })
			cur := innerLo
			for k, x := range ivs {
				if k > 0 && x.s.Before(ivs[k-1].e) {
					res.failP([]string{"C16", "C18"}, "unaligned-overlap", "two views of an unaligned range overlap", desc)
					break
				}
				if !x.e.After(cur) {
					continue
				}
				if x.s.After(cur) && cur.Before(innerHi) {
					res.failP([]string{"C16", "C18"}, "unaligned-gap", fmt.Sprintf("no view covers [%s, %s) although it lies inside the range", cur.Format("2006-01-02T15"), x.s.Format("2006-01-02T15")), desc)
					break
				}
				cur = x.e
			}
			if cur.Before(innerHi) && len(res.Failures) == 0 {
				res.failP([]string{"C16", "C18"}, "unaligned-short", fmt.Sprintf("views end at %s, the range contains whole units up to %s", cur.Format("2006-01-02T15"), innerHi.Format("2006-01-02T15")), desc)
			}
		}
	}

	// name -> interval
	check := func(view string) {
		s, e, err := tqInterval(view, "f")
		if err != nil {
			res.fail("harness-interval", err.Error())
			return
		}
		res.Evaluations++
		got, err := timeOfView(view, false)
		if err != nil {
			res.fail("timeOfView-error", fmt.Sprintf("timeOfView(%q,false): %v", view, err), view)
		} else if !got.Equal(s) {
			res.fail("timeOfView-start", fmt.Sprintf("timeOfView(%q,false) = %s, the view starts at %s", view, got.Format(time.RFC3339), s.Format(time.RFC3339)), view)
		}
		got, err = timeOfView(view, true)
		if err != nil {
			res.fail("timeOfView-error", fmt.Sprintf("timeOfView(%q,true): %v", view, err), view)
		} else if !got.Equal(e) {
			res.fail("timeOfView-end", fmt.Sprintf("timeOfView(%q,true) = %s, the view ends at %s", view, got.Format(time.RFC3339), e.Format(time.RFC3339)), view)
		}
	}
	years := []int{1, 999, 1000, 1900, 9998, 9999}
	for y := 1970; y <= 2040; y++ {
		years = append(years, y)
	}
	for _, y := range years {
		check(fmt.Sprintf("f_%04d", y))
		for m := 1; m <= 12; m++ {
			check(fmt.Sprintf("f_%04d%02d", y, m))
			days := time.Date(y, time.Month(m)+1, 0, 0, 0, 0, 0, time.UTC).Day()
			for d := 1; d <= days; d++ {
				check(fmt.Sprintf("f_%04d%02d%02d", y, m, d))
				if !thorough && (y < 2019 || y > 2021) && d != 1 && d != days {
					continue
				}
				for h := 0; h < 24; h++ {
					check(fmt.Sprintf("f_%04d%02d%02d%02d", y, m, d, h))
				}
			}
		}
	}

	// viewsByTime: one view per unit of the quantum, each enclosing t
	for _, q := range quanta {
		for n := 0; n < 400; n++ {
			ts := grid[rng.Intn(len(grid))]
			views := viewsByTime("f", ts, q)
			res.Evaluations++
			if len(views) != len(string(q)) {
				res.fail("viewsByTime-count", fmt.Sprintf("viewsByTime(f, %s, %s) = %v: want one view per unit", ts.Format("2006-01-02T15"), q, views))
				continue
			}
			for _, v := range views {
				s, e, err := tqInterval(v, "f")
				if err != nil || ts.Before(s) || !ts.Before(e) {
					res.fail("viewsByTime-enclose", fmt.Sprintf("viewsByTime(f, %s, %s) = %v: view %s does not enclose the time stamp", ts.Format("2006-01-02T15"), q, views, v))
				}
			}
		}
	}

	res.Bound = fmt.Sprintf("quanta %v; %d aligned (start,end) pairs per quantum drawn from a grid of %d instants (years 1999-2001, 2019-2021; months 1-4,11,12; days 1,2,15,27-31; hours 0,1,11-13,22,23), hour-/day-only quanta limited to 400 days; name->interval for years 1970-2040 (+1,999,1000,1900,9998,9999), all months and days, hours %s; seed %d",
		quanta, pairsPerQuantum, len(grid), map[bool]string{true: "all", false: "all for 2019-2021, first/last day of month otherwise"}[thorough], seed)
	if out := os.Getenv("RCHECK_OUT"); out != "" {
		data, _ := json.MarshalIndent(res, "", " ")
		if err := os.WriteFile(out, data, 0o644); err != nil {
			t.Fatal(err)
		}
	}
	for _, f := range res.Failures {
		t.Logf("FAIL %v %s: %s", f.Props, f.Sig, f.What)
	}
}

func tqShort(v []string) []string {
	if len(v) <= 12 {
		return v
	}
	out := append([]string{}, v[:6]...)
	out = append(out, fmt.Sprintf("...(%d more)...", len(v)-12))
	return append(out, v[len(v)-6:]...)
}
