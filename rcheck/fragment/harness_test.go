package pilosa

// BOUNDED stand-in (never counted as proved): model-based execution of the real
// fragment write and read paths against a plain map model.  Injected into
// package pilosa with `go test -overlay`; results are written as JSON to
// $RCHECK_OUT.  Serves C07, C10, C12, C13, C14 (bit-sliced layer), C16, C28.
//
// Bound: row universe {0,1,2,99,100,101,205}, column universe (per shard)
// {0,1,2,65535,65536,65537,SW-1}, shards {0,3}; random operation sequences of
// length <= 14 (quick: 120 sequences per flavour, thorough: 1200), seeded by
// VERIF_SEED.  After every operation every read path is compared with the model.

import (
	"bytes"
	"context"
	"encoding/json"
	"fmt"
	"math/rand"
	"os"
	"reflect"
	"sort"
	"strconv"
	"strings"
	"testing"

	"github.com/pilosa/pilosa/pql"
	"github.com/pilosa/pilosa/roaring"
)

type rcFailure struct {
	Props []string `json:"props"`
	What  string   `json:"what"`
	Sig   string   `json:"signature"`
	Seq   []string `json:"sequence"`
}

type rcResult struct {
	Harness     string        `json:"harness"`
	Bound       string        `json:"bound"`
	Evaluations int           `json:"evaluations"`
	Distinct    int           `json:"distinct_nontrivial"`
	Rule        string        `json:"rule"`
	Exhaustive  bool          `json:"exhaustive"`
	Samples     []interface{} `json:"samples"`
	Failures    []rcFailure   `json:"failures"`
}

var rcRows = []uint64{0, 1, 2, 99, 100, 101, 205}
var rcCols = []uint64{0, 1, 2, 65535, 65536, 65537, ShardWidth - 1}

type rcModel map[uint64]map[uint64]bool // row -> absolute column -> set

func (m rcModel) set(r, c uint64) bool {
	if m[r] == nil {
		m[r] = map[uint64]bool{}
	}
	if m[r][c] {
		return false
	}
	m[r][c] = true
	return true
}
func (m rcModel) clear(r, c uint64) bool {
	if m[r] != nil && m[r][c] {
		delete(m[r], c)
		return true
	}
	return false
}
func (m rcModel) cols(r uint64) []uint64 {
	out := []uint64{}
	for c := range m[r] {
		out = append(out, c)
	}
	sort.Slice(out, func(i, j int) bool { return out[i] < out[j] })
	return out
}
func (m rcModel) rows() []uint64 {
	out := []uint64{}
	for r, cs := range m {
		if len(cs) > 0 {
			out = append(out, r)
		}
	}
	sort.Slice(out, func(i, j int) bool { return out[i] < out[j] })
	return out
}

type rcRun struct {
	fit        bool // cache of 3 entries, rows rcRows[:3] preferred
	overflowed bool // fit flavour: more than 3 rows were non-empty at some point of the sequence
	tiny       bool // cache holds at most 2 rows: only reported counts are checked (C12 is silent about rows a cache forgot)
	t          *testing.T
	res        *rcResult
	seq        []string
	seen       map[string]bool
	nontriv    bool
}

func (rr *rcRun) fail(props []string, sig, what string) {
	for _, f := range rr.res.Failures {
		if f.Sig == sig {
			return // one example per signature
		}
	}
	rr.res.Failures = append(rr.res.Failures, rcFailure{Props: props, What: what, Sig: sig, Seq: append([]string{}, rr.seq...)})
}

// closeFragment: like fragment.Clean, but a file/in-memory mismatch is recorded as
// a failure (file = snapshot + op log must decode to the in-memory bitmap: C05).
func (rr *rcRun) closeFragment(f *fragment) {
	f.awaitSnapshot()
	if data, err := os.ReadFile(f.path); err == nil {
		bm := roaring.NewFileBitmap()
		if err := bm.UnmarshalBinary(data); err != nil {
			rr.fail([]string{"C05", "C07"}, "file-undecodable", "stored file does not decode: "+err.Error())
		} else if fs, ms := bm.Slice(), f.storage.Slice(); !(len(fs) == 0 && len(ms) == 0) && !reflect.DeepEqual(fs, ms) {
			rr.fail([]string{"C05", "C07"}, "file-differs-from-memory", fmt.Sprintf("decoding the fragment file (snapshot + op log) yields %v, the in-memory bitmap holds %v", fs, ms))
		}
	}
	_ = f.Close()
	_ = os.Remove(f.path)
	_ = os.Remove(f.cachePath())
	if f.snapshotQueue != nil {
		close(f.snapshotQueue)
		f.snapshotQueue = nil
	}
}

func rcEncodeRoaring(positions []uint64) []byte {
	b := roaring.NewBitmap(positions...)
	var buf bytes.Buffer
	if _, err := b.WriteTo(&buf); err != nil {
		panic(err)
	}
	return buf.Bytes()
}

// checkSetFragment compares every read path of a set-type fragment with the model.
func (rr *rcRun) checkSetFragment(f *fragment, m rcModel, lastOp string) {
	rr.res.Evaluations++
	shardBase := f.shard * ShardWidth
	for pass := 0; pass < 2; pass++ { // second pass reads through the row cache
		for _, r := range rcRows {
			got := f.row(r).Columns()
			want := m.cols(r)
			if len(got) == 0 && len(want) == 0 {
				continue
			}
			if !reflect.DeepEqual(got, want) {
				props := []string{"C07", "C28"}
				if strings.HasPrefix(lastOp, "mutex-") {
					props = append(props, "C13") // a column read in a row it left: two rows for one column
				}
				rr.fail(props, "row-read-after:"+lastOp, fmt.Sprintf("row(%d) = %v, model %v (pass %d)", r, got, want, pass))
			}
		}
	}
	for _, r := range rcRows {
		for _, c := range rcCols {
			v, err := f.bit(r, shardBase+c)
			if err != nil || v != m[r][shardBase+c] {
				rr.fail([]string{"C07"}, "bit-read-after:"+lastOp, fmt.Sprintf("bit(%d,%d)=%v err=%v model %v", r, shardBase+c, v, err, m[r][shardBase+c]))
			}
		}
	}
	// enumeration
	n := 0
	_ = f.forEachBit(func(r, c uint64) error {
		n++
		if !m[r][c] {
			rr.fail([]string{"C07"}, "foreach-after:"+lastOp, fmt.Sprintf("forEachBit yields (%d,%d) not in model", r, c))
		}
		return nil
	})
	total := 0
	for _, cs := range m {
		total += len(cs)
	}
	if n != total {
		rr.fail([]string{"C07"}, "foreach-count-after:"+lastOp, fmt.Sprintf("forEachBit yields %d bits, model %d", n, total))
	}
	// rows / minRow / maxRow
	wantRows := m.rows()
	if rr.fit && len(wantRows) > 3 {
		rr.overflowed = true // the history exceeded the cache once: it may have forgotten rows for good
	}
	if got := f.rows(0); !(len(got) == 0 && len(wantRows) == 0) && !reflect.DeepEqual(got, wantRows) {
		rr.fail([]string{"C16"}, "rows-after:"+lastOp, fmt.Sprintf("rows(0) = %v, model %v", got, wantRows))
	}
	if len(wantRows) > 0 {
		if r, cnt := f.maxRow(nil); cnt == 0 || r != wantRows[len(wantRows)-1] {
			rr.fail([]string{"C16"}, "maxrow-after:"+lastOp, fmt.Sprintf("maxRow(nil) = (%d,%d), model max row %d", r, cnt, wantRows[len(wantRows)-1]))
		}
		if r, cnt := f.minRow(nil); cnt == 0 || r != wantRows[0] {
			rr.fail([]string{"C16"}, "minrow-after:"+lastOp, fmt.Sprintf("minRow(nil) = (%d,%d), model min row %d", r, cnt, wantRows[0]))
		}
		// with a filter row: largest/smallest row intersecting it
		fr := wantRows[len(wantRows)/2]
		filter := NewRow(m.cols(fr)...)
		var wmax, wmin uint64
		var cmax, cmin uint64
		first := true
		for _, r := range wantRows {
			k := uint64(0)
			for c := range m[r] {
				if m[fr][c] {
					k++
				}
			}
			if k > 0 {
				if first {
					wmin, cmin, first = r, k, false
				}
				wmax, cmax = r, k
			}
		}
		if r, cnt := f.maxRow(filter); r != wmax || cnt != cmax {
			rr.fail([]string{"C16"}, "maxrow-filter-after:"+lastOp, fmt.Sprintf("maxRow(filter row %d) = (%d,%d), model (%d,%d)", fr, r, cnt, wmax, cmax))
		}
		if r, cnt := f.minRow(filter); r != wmin || cnt != cmin {
			rr.fail([]string{"C16"}, "minrow-filter-after:"+lastOp, fmt.Sprintf("minRow(filter row %d) = (%d,%d), model (%d,%d)", fr, r, cnt, wmin, cmin))
		}
	}
	// block checksums: cached == recomputed from current contents
	b1 := f.Blocks()
	f.InvalidateChecksums()
	b2 := f.Blocks()
	if !reflect.DeepEqual(b1, b2) {
		rr.fail([]string{"C10"}, "checksum-after:"+lastOp, fmt.Sprintf("cached block checksums %v differ from recomputed %v", rcBlockIDs(b1), rcBlockIDs(b2)))
	}
	// TopN with explicit rows: counts are exact
	if f.CacheType != CacheTypeNone {
		pairs, err := f.top(topOptions{RowIDs: rcRows})
		if err != nil {
			rr.fail([]string{"C12"}, "top-error", err.Error())
		}
		for _, p := range pairs {
			if int(p.Count) != len(m[p.ID]) {
				rr.fail([]string{"C12", "C28"}, "top-ids-after:"+lastOp, fmt.Sprintf("TopN(ids) reports row %d count %d, model %d", p.ID, p.Count, len(m[p.ID])))
			}
		}
		for _, r := range wantRows {
			if rr.tiny || (rr.fit && rr.overflowed) {
				break
			}
			found := false
			for _, p := range pairs {
				if p.ID == r {
					found = true
				}
			}
			if !found {
				rr.fail([]string{"C12"}, "top-ids-missing-after:"+lastOp, fmt.Sprintf("TopN(ids) omits non-empty row %d (count %d)", r, len(m[r])))
			}
		}
		// with a source row
		if len(wantRows) > 0 {
			sr := wantRows[0]
			src := NewRow(m.cols(sr)...)
			pairs, _ := f.top(topOptions{RowIDs: rcRows, Src: src})
			for _, p := range pairs {
				k := 0
				for c := range m[p.ID] {
					if m[sr][c] {
						k++
					}
				}
				if int(p.Count) != k {
					rr.fail([]string{"C12"}, "top-src-after:"+lastOp, fmt.Sprintf("TopN(ids,src=row %d) reports row %d count %d, model %d", sr, p.ID, p.Count, k))
				}
			}
		}
	}
}

func rcBlockIDs(bs []FragmentBlock) []string {
	var out []string
	for _, b := range bs {
		out = append(out, fmt.Sprintf("%d:%x", b.ID, b.Checksum))
	}
	return out
}

// checkTopN: after a recalculation the cache ranks every non-empty row exactly.
func (rr *rcRun) checkTopN(f *fragment, m rcModel, lastOp string) {
	if f.CacheType == CacheTypeNone || rr.tiny {
		return
	}
	f.RecalculateCache()
	want := m.rows()
	if rr.fit && (rr.overflowed || len(want) > 3) {
		return // other operations (setRow, imports) filled more rows than the cache holds: C12's ranking clause does not apply
	}
	for n := 1; n <= len(want)+1; n++ {
		pairs, _ := f.top(topOptions{N: n})
		exp := n
		if len(want) < n {
			exp = len(want)
		}
		if len(pairs) != exp {
			rr.fail([]string{"C12"}, "topn-len-after:"+lastOp, fmt.Sprintf("TopN(%d) returns %d rows, %d non-empty rows", n, len(pairs), len(want)))
			continue
		}
		counts := []int{}
		for _, r := range want {
			counts = append(counts, len(m[r]))
		}
		sort.Sort(sort.Reverse(sort.IntSlice(counts)))
		for i, p := range pairs {
			if int(p.Count) != len(m[p.ID]) || int(p.Count) != counts[i] {
				rr.fail([]string{"C12"}, "topn-after:"+lastOp, fmt.Sprintf("TopN(%d)[%d] = row %d count %d; model count %d, expected rank count %d", n, i, p.ID, p.Count, len(m[p.ID]), counts[i]))
			}
		}
	}
}

func (rr *rcRun) runSetSequence(rng *rand.Rand, cacheType string, shard uint64, steps int) {
	f := mustOpenFragment("i", "f", viewStandard, shard, cacheType)
	defer rr.closeFragment(f)
	if rr.tiny {
		f.CacheSize = 2
		switch cacheType {
		case CacheTypeRanked:
			f.cache = NewRankCache(2)
		case CacheTypeLRU:
			f.cache = newLRUCache(2)
		}
	} else if rr.fit {
		// a cache with exactly as many entries as there are rows: every row fits,
		// so every TopN clause of C12 applies, and the cache is full
		n := uint32(3) // the fit flavour writes rows rcRows[:3] only
		f.CacheSize = n
		switch cacheType {
		case CacheTypeRanked:
			f.cache = NewRankCache(n)
		case CacheTypeLRU:
			f.cache = newLRUCache(n)
		}
	}
	f.MaxOpN = 5 + rng.Intn(40) // force snapshots at different points
	m := rcModel{}
	base := shard * ShardWidth
	rr.seq = []string{fmt.Sprintf("fragment(shard=%d,cache=%s,tiny=%v,fit=%v,MaxOpN=%d)", shard, cacheType, rr.tiny, rr.fit, f.MaxOpN)}
	rr.nontriv = false
	rr.overflowed = false
	pick := func() (uint64, uint64) {
		if rr.fit {
			return rcRows[rng.Intn(3)], base + rcCols[rng.Intn(len(rcCols))]
		}
		return rcRows[rng.Intn(len(rcRows))], base + rcCols[rng.Intn(len(rcCols))]
	}
	for s := 0; s < steps; s++ {
		op := ""
		switch k := rng.Intn(13); k {
		case 12:
			// replace the whole fragment from an archive of another fragment (the
			// path a resize uses): afterwards every read reflects the archive
			g := mustOpenFragment("i", "f", viewStandard, shard, cacheType)
			mg := rcModel{}
			for n := rng.Intn(6); n > 0; n-- {
				r, c := pick()
				if _, err := g.setBit(r, c); err == nil {
					mg.set(r, c)
				}
			}
			var buf bytes.Buffer
			_, werr := g.WriteTo(&buf)
			rr.closeFragment(g)
			op = fmt.Sprintf("ReadFrom(archive of %v)", mg)
			rr.seq = append(rr.seq, op)
			if werr != nil {
				rr.fail([]string{"C07"}, "archive-write-error", werr.Error())
				break
			}
			if _, err := f.ReadFrom(&buf); err != nil {
				rr.fail([]string{"C07"}, "archive-read-error", err.Error())
				break
			}
			for r := range m {
				delete(m, r)
			}
			for r, cs := range mg {
				for c := range cs {
					m.set(r, c)
				}
			}
			rr.nontriv = true
			op = "readFrom"
		case 0, 1, 2:
			r, c := pick()
			op = fmt.Sprintf("setBit(%d,%d)", r, c)
			rr.seq = append(rr.seq, op)
			changed, err := f.setBit(r, c)
			want := m.set(r, c)
			if err != nil || changed != want {
				rr.fail([]string{"C07"}, "setBit-changed", fmt.Sprintf("%s changed=%v err=%v, model %v", op, changed, err, want))
			}
			rr.nontriv = rr.nontriv || want
			op = "setBit"
		case 3:
			r, c := pick()
			op = fmt.Sprintf("clearBit(%d,%d)", r, c)
			rr.seq = append(rr.seq, op)
			changed, err := f.clearBit(r, c)
			want := m.clear(r, c)
			if err != nil || changed != want {
				rr.fail([]string{"C07"}, "clearBit-changed", fmt.Sprintf("%s changed=%v err=%v, model %v", op, changed, err, want))
			}
			rr.nontriv = rr.nontriv || want
			op = "clearBit"
		case 4, 5:
			n := 1 + rng.Intn(5)
			var rs, cs []uint64
			for i := 0; i < n; i++ {
				r, c := pick()
				rs, cs = append(rs, r), append(cs, c)
			}
			clear := k == 5
			op = fmt.Sprintf("bulkImport(rows=%v,cols=%v,clear=%v)", rs, cs, clear)
			rr.seq = append(rr.seq, op)
			for i := range rs {
				if clear {
					rr.nontriv = m.clear(rs[i], cs[i]) || rr.nontriv
				} else {
					rr.nontriv = m.set(rs[i], cs[i]) || rr.nontriv
				}
			}
			if err := f.bulkImport(append([]uint64{}, rs...), append([]uint64{}, cs...), &ImportOptions{Clear: clear}); err != nil {
				rr.fail([]string{"C07"}, "bulkImport-error", op+": "+err.Error())
			}
			op = "bulkImport"
			if clear {
				op = "bulkImportClear"
			}
		case 6, 7:
			n := 1 + rng.Intn(5)
			var ps []uint64
			clear := k == 7
			desc := []string{}
			for i := 0; i < n; i++ {
				r, c := pick()
				ps = append(ps, r*ShardWidth+(c%ShardWidth))
				desc = append(desc, fmt.Sprintf("(%d,%d)", r, c))
				if clear {
					rr.nontriv = m.clear(r, c) || rr.nontriv
				} else {
					rr.nontriv = m.set(r, c) || rr.nontriv
				}
			}
			op = fmt.Sprintf("importRoaring(%s,clear=%v)", strings.Join(desc, ""), clear)
			rr.seq = append(rr.seq, op)
			if err := f.importRoaring(context.Background(), rcEncodeRoaring(ps), clear); err != nil {
				rr.fail([]string{"C07"}, "importRoaring-error", op+": "+err.Error())
			}
			op = "importRoaring"
			if clear {
				op = "importRoaringClear"
			}
		case 8:
			r := rcRows[rng.Intn(len(rcRows))]
			var cs []uint64
			for _, c := range rcCols {
				if rng.Intn(2) == 0 {
					cs = append(cs, base+c)
				}
			}
			op = fmt.Sprintf("setRow(row=%d,cols=%v)", r, cs)
			rr.seq = append(rr.seq, op)
			src := NewRow(cs...)
			if _, err := f.setRow(src, r); err != nil {
				rr.fail([]string{"C07"}, "setRow-error", op+": "+err.Error())
			}
			m[r] = map[uint64]bool{}
			for _, c := range cs {
				m[r][c] = true
			}
			rr.nontriv = true
			op = "setRow"
		case 9:
			r := rcRows[rng.Intn(len(rcRows))]
			op = fmt.Sprintf("clearRow(%d)", r)
			rr.seq = append(rr.seq, op)
			changed, err := f.clearRow(r)
			want := len(m[r]) > 0
			if err != nil || changed != want {
				rr.fail([]string{"C07"}, "clearRow-changed", fmt.Sprintf("%s changed=%v err=%v, model %v", op, changed, err, want))
			}
			delete(m, r)
			op = "clearRow"
		case 10:
			op = "Snapshot()"
			rr.seq = append(rr.seq, op)
			if err := f.Snapshot(); err != nil {
				rr.fail([]string{"C07"}, "snapshot-error", err.Error())
			}
			op = "snapshot"
		case 11:
			op = "Reopen()"
			rr.seq = append(rr.seq, op)
			f.awaitSnapshot()
			if err := f.Reopen(); err != nil {
				rr.fail([]string{"C07"}, "reopen-error", err.Error())
			}
			op = "reopen"
		}
		rr.checkSetFragment(f, m, op)
	}
	rr.checkTopN(f, m, "sequence-end")
}

// ---- mutex / bool fragments (C13) -------------------------------------------------

func (rr *rcRun) runMutexSequence(rng *rand.Rand, isBool bool, steps int) {
	var f *fragment
	rows := []uint64{0, 1, 2, 100}
	if isBool {
		f = mustOpenBoolFragment("i", "f", viewStandard, 0, CacheTypeNone)
		rows = []uint64{0, 1}
	} else {
		f = mustOpenMutexFragment("i", "f", viewStandard, 0, "")
	}
	defer rr.closeFragment(f)
	last := map[uint64]uint64{} // column -> row of the last write
	has := map[uint64]bool{}
	cols := []uint64{0, 1, 65536}
	rr.seq = []string{fmt.Sprintf("mutexFragment(bool=%v)", isBool)}
	rr.nontriv = true
	for s := 0; s < steps; s++ {
		op := ""
		switch rng.Intn(4) {
		case 0, 1:
			r, c := rows[rng.Intn(len(rows))], cols[rng.Intn(len(cols))]
			op = fmt.Sprintf("setBit(%d,%d)", r, c)
			rr.seq = append(rr.seq, op)
			if _, err := f.setBit(r, c); err != nil {
				rr.fail([]string{"C13"}, "mutex-setBit-error", err.Error())
			}
			last[c], has[c] = r, true
		case 2:
			n := 1 + rng.Intn(4)
			var rs, cs []uint64
			for i := 0; i < n; i++ {
				r, c := rows[rng.Intn(len(rows))], cols[rng.Intn(len(cols))]
				rs, cs = append(rs, r), append(cs, c)
				last[c], has[c] = r, true
			}
			op = fmt.Sprintf("bulkImport(rows=%v,cols=%v)", rs, cs)
			rr.seq = append(rr.seq, op)
			if err := f.bulkImport(append([]uint64{}, rs...), append([]uint64{}, cs...), &ImportOptions{}); err != nil {
				rr.fail([]string{"C13"}, "mutex-bulkImport-error", err.Error())
			}
		case 3:
			r, c := rows[rng.Intn(len(rows))], cols[rng.Intn(len(cols))]
			op = fmt.Sprintf("clearBit(%d,%d)", r, c)
			rr.seq = append(rr.seq, op)
			_, _ = f.clearBit(r, c)
			if has[c] && last[c] == r {
				has[c] = false
			}
		}
		rr.res.Evaluations++
		for _, c := range cols {
			var set []uint64
			for _, r := range rows {
				if v, _ := f.bit(r, c); v {
					set = append(set, r)
				}
			}
			switch {
			case len(set) > 1:
				rr.fail([]string{"C13"}, "mutex-two-rows", fmt.Sprintf("column %d holds rows %v after %s", c, set, op))
			case has[c] && (len(set) != 1 || set[0] != last[c]):
				rr.fail([]string{"C13"}, "mutex-not-last-write", fmt.Sprintf("column %d holds %v, last write was row %d (after %s)", c, set, last[c], op))
			case !has[c] && len(set) != 0:
				rr.fail([]string{"C13"}, "mutex-stale", fmt.Sprintf("column %d holds %v, model empty (after %s)", c, set, op))
			}
		}
		// every other read path (cached rows, enumeration, row lists, block checksums,
		// TopN counts) must agree with the same model: a column that moved to another
		// row must disappear from the row it left, in every view of the fragment
		mm := rcModel{}
		for c, ok := range has {
			if ok {
				mm.set(last[c], c)
			}
		}
		opName := op
		if i := strings.Index(opName, "("); i > 0 {
			opName = "mutex-" + opName[:i]
		}
		rr.checkSetFragment(f, mm, opName)
	}
}

// ---- integer (BSI) fragments (C14 bit-sliced layer, C07, C28) ----------------------

func (rr *rcRun) runBSISequence(rng *rand.Rand, steps int) {
	f := mustOpenBSIFragment("i", "f", viewBSIGroupPrefix+"f", 0)
	defer rr.closeFragment(f)
	const depth = 4 // values -15..15
	f.MaxOpN = 20 + rng.Intn(200)
	vals := map[uint64]int64{}
	cols := []uint64{0, 1, 2, 65536, 65537}
	rr.seq = []string{fmt.Sprintf("bsiFragment(depth=%d,MaxOpN=%d)", depth, f.MaxOpN)}
	rr.nontriv = true
	pv := func() int64 { return int64(rng.Intn(31)) - 15 }
	for s := 0; s < steps; s++ {
		op := ""
		switch rng.Intn(5) {
		case 0, 1:
			c, v := cols[rng.Intn(len(cols))], pv()
			op = fmt.Sprintf("setValue(%d,%d)", c, v)
			rr.seq = append(rr.seq, op)
			if _, err := f.setValue(c, depth, v); err != nil {
				rr.fail([]string{"C14"}, "setValue-error", err.Error())
			}
			vals[c] = v
			op = "setValue"
		case 2, 3:
			n := 1 + rng.Intn(4)
			var cs []uint64
			var vs []int64
			for i := 0; i < n; i++ {
				c, v := cols[rng.Intn(len(cols))], pv()
				cs, vs = append(cs, c), append(vs, v)
			}
			op = fmt.Sprintf("importValue(cols=%v,values=%v)", cs, vs)
			rr.seq = append(rr.seq, op)
			for i := range cs {
				vals[cs[i]] = vs[i]
			}
			if rng.Intn(2) == 0 {
				f.MaxOpN = 1 // force the large-write path
				op += "[large]"
				rr.seq[len(rr.seq)-1] = op
			}
			if err := f.importValue(cs, vs, depth, false); err != nil {
				rr.fail([]string{"C14"}, "importValue-error", err.Error())
			}
			if rng.Intn(3) == 0 {
				// a client retry: the same batch again, through the large-write path,
				// changing nothing (later writes must still reach the file: C05)
				f.MaxOpN = 1
				rr.seq[len(rr.seq)-1] += "[+retry,large]"
				last := map[uint64]int64{}
				for i := range cs {
					last[cs[i]] = vs[i]
				}
				var rcs []uint64
				var rvs []int64
				for c, v := range last {
					rcs, rvs = append(rcs, c), append(rvs, v)
				}
				if err := f.importValue(rcs, rvs, depth, false); err != nil {
					rr.fail([]string{"C14"}, "importValue-error", err.Error())
				}
			}
			f.MaxOpN = 200
			op = "importValue"
		case 4:
			c := cols[rng.Intn(len(cols))]
			v, ok := vals[c]
			if !ok {
				continue
			}
			op = fmt.Sprintf("clearValue(%d,%d)", c, v)
			rr.seq = append(rr.seq, op)
			if _, err := f.clearValue(c, depth, v); err != nil {
				rr.fail([]string{"C14"}, "clearValue-error", err.Error())
			}
			delete(vals, c)
			op = "clearValue"
		}
		rr.res.Evaluations++
		for _, c := range cols {
			v, ok, err := f.value(c, depth)
			mv, mok := vals[c]
			if err != nil || ok != mok || (ok && v != mv) {
				rr.fail([]string{"C14", "C07", "C28"}, "value-after:"+op, fmt.Sprintf("value(%d) = (%d,%v), model (%d,%v)", c, v, ok, mv, mok))
			}
		}
		// every bit-slice row through the cached read path against storage (C07: a write
		// is reflected in row reads, whatever was cached before it)
		for rowID := uint64(0); rowID <= depth+1; rowID++ {
			cached, fresh := f.row(rowID).Columns(), f.rowFromStorage(rowID).Columns()
			if !(len(cached) == 0 && len(fresh) == 0) && !reflect.DeepEqual(cached, fresh) {
				rr.fail([]string{"C07", "C28"}, "bsi-row-read-after:"+op, fmt.Sprintf("row(%d) of the BSI fragment = %v, storage holds %v", rowID, cached, fresh))
			}
		}
		// range queries for every operator and a sweep of predicates inside the bit depth
		ops := []struct {
			tok pql.Token
			f   func(v, p int64) bool
			n   string
		}{
			{pql.EQ, func(v, p int64) bool { return v == p }, "=="}, {pql.NEQ, func(v, p int64) bool { return v != p }, "!="},
			{pql.LT, func(v, p int64) bool { return v < p }, "<"}, {pql.LTE, func(v, p int64) bool { return v <= p }, "<="},
			{pql.GT, func(v, p int64) bool { return v > p }, ">"}, {pql.GTE, func(v, p int64) bool { return v >= p }, ">="},
		}
		for _, o := range ops {
			for p := int64(-15); p <= 15; p++ {
				row, err := f.rangeOp(o.tok, depth, p)
				if err != nil {
					rr.fail([]string{"C14"}, "rangeOp-error", err.Error())
					continue
				}
				want := []uint64{}
				for _, c := range cols {
					if v, ok := vals[c]; ok && o.f(v, p) {
						want = append(want, c)
					}
				}
				got := row.Columns()
				if len(got) == 0 && len(want) == 0 {
					continue
				}
				if !reflect.DeepEqual(got, want) {
					rr.fail(bsiProps(op), fmt.Sprintf("range %s %d", o.n, p), fmt.Sprintf("Range(v %s %d) = %v, model %v (values %v)", o.n, p, got, want, vals))
				}
			}
		}
		for lo := int64(-15); lo <= 15; lo += 3 {
			for hi := lo; hi <= 15; hi += 4 {
				row, err := f.rangeBetween(depth, lo, hi)
				if err != nil {
					continue
				}
				want := []uint64{}
				for _, c := range cols {
					if v, ok := vals[c]; ok && lo <= v && v <= hi {
						want = append(want, c)
					}
				}
				got := row.Columns()
				if !(len(got) == 0 && len(want) == 0) && !reflect.DeepEqual(got, want) {
					rr.fail(bsiProps(op), "between", fmt.Sprintf("Between(%d,%d) = %v, model %v (values %v)", lo, hi, got, want, vals))
				}
			}
		}
		// sum / min / max
		var wsum int64
		var wcnt uint64
		first := true
		var wmin, wmax int64
		var nmin, nmax uint64
		for _, c := range cols {
			if v, ok := vals[c]; ok {
				wsum += v
				wcnt++
				if first || v < wmin {
					wmin, nmin = v, 0
				}
				if first || v > wmax {
					wmax, nmax = v, 0
				}
				if v == wmin {
					nmin++
				}
				if v == wmax {
					nmax++
				}
				first = false
			}
		}
		if sum, cnt, err := f.sum(nil, depth); err != nil || sum != wsum || cnt != wcnt {
			rr.fail([]string{"C14"}, "sum", fmt.Sprintf("sum = (%d,%d) err=%v, model (%d,%d) values %v", sum, cnt, err, wsum, wcnt, vals))
		}
		if wcnt > 0 {
			if mn, cnt, err := f.min(nil, depth); err != nil || mn != wmin || cnt != nmin {
				rr.fail([]string{"C14"}, "min", fmt.Sprintf("min = (%d,%d) err=%v, model (%d,%d) values %v", mn, cnt, err, wmin, nmin, vals))
			}
			if mx, cnt, err := f.max(nil, depth); err != nil || mx != wmax || cnt != nmax {
				rr.fail([]string{"C14"}, "max", fmt.Sprintf("max = (%d,%d) err=%v, model (%d,%d) values %v", mx, cnt, err, wmax, nmax, vals))
			}
		}
	}
}

func TestRcheckFragment(t *testing.T) {
	seed := int64(1)
	if s := os.Getenv("VERIF_SEED"); s != "" {
		if v, err := strconv.ParseInt(s, 10, 64); err == nil {
			seed = v
		}
	}
	seqs := 40
	if os.Getenv("VERIF_TIER") == "thorough" {
		seqs = 400
	}
	res := &rcResult{Harness: "fragment", Rule: "random operation sequences over small row/column universes against a map model; a sequence is non-trivial when at least one write changes the model; distinct by sequence text",
		Bound: fmt.Sprintf("rows %v, columns %v per shard, shards {0,3}, sequences of <= 14 operations, %d sequences per flavour, seed %d", rcRows, rcCols, seqs, seed)}
	rr := &rcRun{t: t, res: res, seen: map[string]bool{}}
	rng := rand.New(rand.NewSource(seed))
	record := func() {
		key := strings.Join(rr.seq, ";")
		if rr.nontriv && !rr.seen[key] {
			rr.seen[key] = true
			res.Distinct++
			if len(res.Samples) < 4 {
				res.Samples = append(res.Samples, append([]string{}, rr.seq...))
			}
		}
	}
	for i := 0; i < seqs; i++ {
		for _, ct := range []string{CacheTypeRanked, CacheTypeLRU, CacheTypeNone} {
			rr.tiny = false
			rr.runSetSequence(rng, ct, []uint64{0, 3}[i%2], 4+rng.Intn(11))
			record()
			if ct != CacheTypeNone {
				rr.tiny = true
				rr.runSetSequence(rng, ct, []uint64{0, 3}[i%2], 4+rng.Intn(11))
				record()
				rr.tiny = false
				rr.fit = true
				rr.runSetSequence(rng, ct, []uint64{0, 3}[i%2], 6+rng.Intn(11))
				record()
				rr.fit = false
			}
		}
		rr.runMutexSequence(rng, false, 3+rng.Intn(8))
		record()
		rr.runMutexSequence(rng, true, 3+rng.Intn(6))
		record()
		rr.runBSISequence(rng, 3+rng.Intn(8))
		record()
	}
	if out := os.Getenv("RCHECK_OUT"); out != "" {
		data, _ := json.MarshalIndent(res, "", " ")
		if err := os.WriteFile(out, data, 0o644); err != nil {
			t.Fatal(err)
		}
	}
	for _, f := range res.Failures {
		t.Logf("FAIL %v %s: %s", f.Props, f.Sig, f.What)
	}
}

// bsiProps: a wrong range answer is a C14 failure; right after a value import it also
// shows the import path disagreeing with Set (C28).
func bsiProps(op string) []string {
	if op == "importValue" {
		return []string{"C14", "C28"}
	}
	return []string{"C14"}
}
