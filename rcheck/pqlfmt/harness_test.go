package pql

// BOUNDED stand-in (never counted as proved) for C26: PQL text is parsed
// faithfully and forwarded queries keep their meaning.  Injected into package
// pql with `go test -overlay`; results are written as JSON to $RCHECK_OUT.
//
// (a) Parse fidelity.  Query TEXT is generated from the grammar in pql.peg
// together with the AST the text denotes (built independently of the parser);
// the real parser must return exactly that AST (names, children, argument keys,
// argument values with their Go types: int64 / float64 / string / bool / nil /
// []interface{} / *Condition / *Call).  An explicit parse error is accepted only
// where the written value has no faithful representation (integers outside
// int64, a raw line feed or a non-Go escape inside a double-quoted literal).
//
// (b) Forwarding.  The intended AST is key-translated the way executor.go does
// it (string keys -> uint64 ids, bool rows -> uint64 0/1, ids lists -> []int64 /
// []uint64, GroupBy previous keys -> uint64) and printed with Query.String()
// (what remoteExec sends); re-parsing that text must give the same calls with
// the same argument values and PQL types.  PQL text has a single integer type,
// so int64(5)/uint64(5) and []int64/[]uint64/[]interface{} of integers are the
// same PQL value (the executor reads them through UintArg/IntArg/UintSliceArg/
// validateCallArgs, which accept either); every other type difference (float
// vs integer, string vs bool, ...) is a mismatch.  uint64 ids above MaxInt64
// are never generated (translation ids are allocated sequentially from 1).
//
// Bound: quick 10000 / thorough 500000 random queries of 1..3 calls, nesting
// depth <= 3, <= 4 arguments per call, strings of <= 8 runes over a 44-rune
// alphabet (ASCII, quotes, backslash, punctuation, tab, LF, 2/3/4-byte UTF-8,
// combining and zero-width runes), integers incl. int64 extremes, floats in
// all grammar spellings, seeded by VERIF_SEED.

import (
	"encoding/json"
	"fmt"
	"math"
	"math/rand"
	"os"
	"runtime/debug"
	"sort"
	"strconv"
	"strings"
	"testing"
)

type pfFailure struct {
	Props []string `json:"props"`
	What  string   `json:"what"`
	Sig   string   `json:"signature"`
	Seq   []string `json:"sequence"`
}

type pfResult struct {
	Harness     string        `json:"harness"`
	Bound       string        `json:"bound"`
	Evaluations int           `json:"evaluations"`
	Distinct    int           `json:"distinct_nontrivial"`
	Rule        string        `json:"rule"`
	Exhaustive  bool          `json:"exhaustive"`
	Samples     []interface{} `json:"samples"`
	Failures    []pfFailure   `json:"failures"`
}

func (r *pfResult) fail(sig, what string, seq ...string) {
	for i, f := range r.Failures {
		if f.Sig == sig {
			// keep the shortest reproduction
			if n, o := len(strings.Join(seq, "")), len(strings.Join(f.Seq, "")); n < o {
				r.Failures[i].What, r.Failures[i].Seq = what, seq
			}
			return
		}
	}
	r.Failures = append(r.Failures, pfFailure{Props: []string{"C26"}, What: what, Sig: sig, Seq: seq})
}

// ---------------------------------------------------------------- canonical form

// pfCanon renders a value with its exact Go type (exact=true) or with PQL
// types (exact=false: one integer type, one list type).
func pfCanon(v interface{}, exact bool) string {
	switch v := v.(type) {
	case nil:
		return "null"
	case bool:
		return fmt.Sprintf("bool(%v)", v)
	case int64:
		if exact {
			return fmt.Sprintf("int64(%d)", v)
		}
		return fmt.Sprintf("int(%d)", v)
	case uint64:
		if exact {
			return fmt.Sprintf("uint64(%d)", v)
		}
		return fmt.Sprintf("int(%d)", v)
	case float64:
		return fmt.Sprintf("float64(%s)", strconv.FormatFloat(v, 'g', -1, 64))
	case string:
		return fmt.Sprintf("string(%q)", v)
	case []interface{}:
		a := make([]string, len(v))
		for i := range v {
			a[i] = pfCanon(v[i], exact)
		}
		return "list[" + strings.Join(a, ",") + "]"
	case []int64:
		a := make([]string, len(v))
		for i := range v {
			a[i] = pfCanon(v[i], exact)
		}
		if exact {
			return "[]int64[" + strings.Join(a, ",") + "]"
		}
		return "list[" + strings.Join(a, ",") + "]"
	case []uint64:
		a := make([]string, len(v))
		for i := range v {
			a[i] = pfCanon(v[i], exact)
		}
		if exact {
			return "[]uint64[" + strings.Join(a, ",") + "]"
		}
		return "list[" + strings.Join(a, ",") + "]"
	case *Condition:
		if v == nil {
			return "cond(nil)"
		}
		return "cond(" + v.Op.String() + " " + pfCanon(v.Value, exact) + ")"
	case *Call:
		return pfCanonCall(v, exact)
	default:
		return fmt.Sprintf("%T(%v)", v, v)
	}
}

func pfCanonCall(c *Call, exact bool) string {
	if c == nil {
		return "call(nil)"
	}
	var b strings.Builder
	b.WriteString(c.Name + "{")
	for i, ch := range c.Children {
		if i > 0 {
			b.WriteString("; ")
		}
		b.WriteString(pfCanonCall(ch, exact))
	}
	b.WriteString("|")
	keys := make([]string, 0, len(c.Args))
	for k := range c.Args {
		keys = append(keys, k)
	}
	sort.Strings(keys)
	for i, k := range keys {
		if i > 0 {
			b.WriteString("; ")
		}
		b.WriteString(k + ":" + pfCanon(c.Args[k], exact))
	}
	b.WriteString("}")
	return b.String()
}

func pfCanonCalls(cs []*Call, exact bool) string {
	a := make([]string, len(cs))
	for i := range cs {
		a[i] = pfCanonCall(cs[i], exact)
	}
	return strings.Join(a, " ## ")
}

// pfParse runs the real parser, converting panics into a result.
func pfParse(s string) (q *Query, err error, panicked interface{}) {
	defer func() {
		if r := recover(); r != nil {
			panicked = r
		}
	}()
	q, err = ParseString(s)
	return q, err, nil
}

// ---------------------------------------------------------------- generator

// pfLeaf is one written thing in isolation: a complete one-call query, the call
// it denotes, and the class of what was written (decides the signature).  sub
// are the smaller written things it contains (list elements, arguments of a
// call-valued argument); a failure is attributed to the smallest failing leaf.
type pfLeaf struct {
	text  string
	want  []*Call
	class string
	errOK bool // an explicit parse error is an acceptable outcome
	sub   []pfLeaf
}

type pfGen struct {
	rng *rand.Rand
}

var pfRunes = []rune{
	'a', 'b', 'Z', '0', '7', ' ', ' ', '_', '-', ':', '.', '/', '(', ')', ',', '=', '[', ']', '<', '>', '!',
	'\'', '"', '\\', '\t', '\n',
	'é', 'ß', 'Я', 'ü', // 2-byte
	'\u65e5', '\u672c', '\u20ac', '\u200b', '\u0301', '\u2028', // 3-byte, zero width, combining, line separator
	'\U0001F600', '\U0001D11E', // 4-byte
	'x', 'y', 'k', 'q', 'n', 't', 'u',
}

func (g *pfGen) ws() string {
	switch g.rng.Intn(12) {
	case 0:
		return " "
	case 1:
		return "  "
	case 2:
		return "\t"
	case 3:
		return "\n"
	}
	return ""
}

func (g *pfGen) comma() string { return g.ws() + "," + g.ws() }

func (g *pfGen) rawString() string {
	n := g.rng.Intn(9)
	if g.rng.Intn(6) == 0 {
		n = 0
	}
	rs := make([]rune, n)
	ascii := g.rng.Intn(3) == 0
	for i := range rs {
		for {
			rs[i] = pfRunes[g.rng.Intn(len(pfRunes))]
			if ascii && rs[i] >= 0x80 {
				continue
			}
			if rs[i] == '\n' && g.rng.Intn(4) != 0 {
				continue
			}
			break
		}
	}
	return string(rs)
}

var pfTimestamps = []string{"2017-01-02T03:04", "0000-00-00T00:00", "1999-12-31T23:59", "2038-01-19T03:14"}

func hasNonASCII(s string) bool {
	for i := 0; i < len(s); i++ {
		if s[i] >= 0x80 {
			return true
		}
	}
	return false
}

// dq writes s as a double-quoted literal (Go escapes, as the parser's use of
// strconv.Unquote and Call.String's %q define them).  Returns text, class, errOK.
func (g *pfGen) dq(s string) (string, string, bool) {
	var b strings.Builder
	b.WriteByte('"')
	esc, goesc, rawnl := false, false, false
	for _, r := range s {
		switch {
		case r == '"':
			b.WriteString(`\"`)
			esc = true
		case r == '\\':
			b.WriteString(`\\`)
			esc = true
		case r == '\n':
			if g.rng.Intn(3) == 0 {
				b.WriteRune(r)
				rawnl = true
			} else {
				b.WriteString(`\n`)
				goesc = true
			}
		case r == '\t' && g.rng.Intn(2) == 0:
			b.WriteString(`\t`)
			goesc = true
		case r >= 0x80 && r <= 0xffff && g.rng.Intn(4) == 0:
			fmt.Fprintf(&b, `\u%04x`, r)
			goesc = true
		case r > 0xffff && g.rng.Intn(4) == 0:
			fmt.Fprintf(&b, `\U%08x`, r)
			goesc = true
		default:
			b.WriteRune(r)
		}
	}
	b.WriteByte('"')
	switch {
	case rawnl:
		// A raw line feed is accepted by the grammar ([^"]) but is not a Go string
		// literal: an explicit error is tolerated, a silently different value is not.
		return b.String(), "dq-raw-newline", true
	case esc:
		return b.String(), "dq-escape", false
	case goesc:
		return b.String(), "dq-goescape", false
	}
	return b.String(), "dq", false
}

// sq writes s as a single-quoted literal using the two escapes the grammar names (\' and \\).
func (g *pfGen) sq(s string) (string, string) {
	var b strings.Builder
	b.WriteByte('\'')
	esc := false
	for _, r := range s {
		switch r {
		case '\'':
			b.WriteString(`\'`)
			esc = true
		case '\\':
			b.WriteString(`\\`)
			esc = true
		default:
			b.WriteRune(r)
		}
	}
	b.WriteByte('\'')
	if esc {
		return b.String(), "sq-escape"
	}
	return b.String(), "sq"
}

func (g *pfGen) intText() (string, int64) {
	switch g.rng.Intn(12) {
	case 0:
		return "9223372036854775807", math.MaxInt64
	case 1:
		return "-9223372036854775808", math.MinInt64
	case 2:
		return "0", 0
	case 3:
		return "-0", 0
	case 4:
		v := int64(g.rng.Intn(1000))
		return "00" + strconv.FormatInt(v, 10), v
	case 5:
		v := g.rng.Int63()
		if g.rng.Intn(2) == 0 {
			v = -v
		}
		return strconv.FormatInt(v, 10), v
	case 6:
		v := int64(1) << uint(g.rng.Intn(63))
		v += int64(g.rng.Intn(3)) - 1
		return strconv.FormatInt(v, 10), v
	}
	v := int64(g.rng.Intn(2001)) - 1000
	return strconv.FormatInt(v, 10), v
}

func (g *pfGen) digits(n int) string {
	b := make([]byte, n)
	for i := range b {
		b[i] = byte('0' + g.rng.Intn(10))
	}
	return string(b)
}

func (g *pfGen) floatText() (string, float64) {
	var s string
	switch g.rng.Intn(8) {
	case 0:
		s = "." + g.digits(1+g.rng.Intn(4))
	case 1:
		s = g.digits(1+g.rng.Intn(4)) + "."
	case 2:
		s = "0.0"
	case 3:
		s = g.digits(1+g.rng.Intn(25)) + "." + g.digits(1+g.rng.Intn(25))
	case 4:
		s = strconv.Itoa(g.rng.Intn(100)) + ".0"
	case 5:
		s = strconv.FormatFloat(g.rng.Float64()*math.Pow(10, float64(g.rng.Intn(40)-15)), 'f', -1, 64)
		if !strings.Contains(s, ".") {
			s += ".0"
		}
	default:
		s = strconv.Itoa(g.rng.Intn(1000)) + "." + g.digits(1+g.rng.Intn(3))
	}
	if g.rng.Intn(3) == 0 {
		s = "-" + s
	}
	f, err := strconv.ParseFloat(s, 64)
	if err != nil {
		panic("harness: bad float text " + s)
	}
	return s, f
}

var pfBareWords = []string{"abc", "a-b", "x_y:z", "nullable", "true1", "falsey", "nul", "Tru", "_u", ":a", "-x", "a1", "Zed9-0", "T", "b:2017-01-02T03:04"}

type pfScalar struct {
	text  string
	want  interface{}
	class string
	errOK bool
}

// scalar kinds: 0 int 1 float 2 dq 3 sq 4 bare 5 bool 6 null 7 timestamp
func (g *pfGen) scalar(kinds []int) pfScalar {
	switch kinds[g.rng.Intn(len(kinds))] {
	case 0:
		t, v := g.intText()
		return pfScalar{t, v, "int", false}
	case 1:
		t, v := g.floatText()
		return pfScalar{t, v, "float", false}
	case 2:
		s := g.rawString()
		t, class, errOK := g.dq(s)
		return pfScalar{t, s, class, errOK}
	case 3:
		s := g.rawString()
		t, class := g.sq(s)
		return pfScalar{t, s, class, false}
	case 4:
		s := pfBareWords[g.rng.Intn(len(pfBareWords))]
		return pfScalar{s, s, "bare", false}
	case 5:
		if g.rng.Intn(2) == 0 {
			return pfScalar{"true", true, "bool", false}
		}
		return pfScalar{"false", false, "bool", false}
	case 6:
		return pfScalar{"null", nil, "null", false}
	default:
		t, v := g.timestampText()
		return pfScalar{t, v, "timestamp", false}
	}
}

func (g *pfGen) timestampText() (string, string) {
	ts := pfTimestamps[g.rng.Intn(len(pfTimestamps))]
	switch g.rng.Intn(3) {
	case 0:
		return ts, ts
	case 1:
		return `"` + ts + `"`, ts
	}
	return `'` + ts + `'`, ts
}

var pfAllScalars = []int{0, 0, 1, 2, 2, 2, 3, 3, 4, 5, 6, 7}

func pfOneCall(name string, args map[string]interface{}) []*Call {
	return []*Call{{Name: name, Args: args}}
}

// list generates a list literal; pre is the text before it in an isolated
// one-call query ("Zz(k=" or "Zz(k >= "), wrap turns a list value into the
// argument value (identity or *Condition).
func (g *pfGen) list(kinds []int, key, pre string, wrap func([]interface{}) interface{}, condList bool) (string, []interface{}, []pfLeaf, bool) {
	n := 1 + g.rng.Intn(4)
	var b strings.Builder
	b.WriteString("[" + g.ws())
	want := make([]interface{}, 0, n)
	var sub []pfLeaf
	errOK := false
	for i := 0; i < n; i++ {
		if i > 0 {
			b.WriteString(g.comma())
		}
		sc := g.scalar(kinds)
		b.WriteString(sc.text)
		want = append(want, sc.want)
		errOK = errOK || sc.errOK
		class := sc.class
		_, isInt := sc.want.(int64)
		_, isFloat := sc.want.(float64)
		var lf pfLeaf
		switch {
		case condList && !isInt && !isFloat:
			lf = pfLeaf{text: pre + "[" + sc.text + "])", want: pfOneCall("Zz", map[string]interface{}{key: wrap([]interface{}{sc.want})}), class: "cond-list-nonnumeric", errOK: sc.errOK}
		case (sc.class == "bool" || sc.class == "null") && i == n-1:
			lf = pfLeaf{text: pre + "[" + sc.text + "])", want: pfOneCall("Zz", map[string]interface{}{key: wrap([]interface{}{sc.want})}), class: "list-tail-keyword"}
		case sc.class == "bool" || sc.class == "null":
			lf = pfLeaf{text: pre + "[" + sc.text + ",0])", want: pfOneCall("Zz", map[string]interface{}{key: wrap([]interface{}{sc.want, int64(0)})}), class: class}
		default:
			lf = pfLeaf{text: pre + "[" + sc.text + "])", want: pfOneCall("Zz", map[string]interface{}{key: wrap([]interface{}{sc.want})}), class: class, errOK: sc.errOK}
		}
		sub = append(sub, lf)
	}
	b.WriteString(g.ws() + "]")
	return b.String(), want, sub, errOK
}

var pfKeys = []string{"f", "field", "a1", "x_y", "long-name", "Row", "from", "to", "n", "ids", "filter", "limit", "previous", "column",
	"_row", "_col", "_start", "_end", "_timestamp", "_field", "row", "col", "true", "null", "Set", "threshold", "attrName", "attrValues", "shards", "excludeColumns", "b-2"}

var pfFieldNames = []string{"f", "field", "a1", "x_y", "long-name", "Row", "g", "stargazer", "Z9"}

var pfCondOps = []struct {
	text string
	op   Token
}{{"<", LT}, {"<=", LTE}, {">", GT}, {">=", GTE}, {"==", EQ}, {"!=", NEQ}, {"><", BETWEEN}}

type pfArg struct {
	text string
	key  string
	want interface{}
	leaf pfLeaf
}

func pfIdent(l []interface{}) interface{} { return l }

// arg generates one keyword argument for key.
func (g *pfGen) arg(key string, depth int) pfArg {
	mk := func(text string, key string, want interface{}, class string, errOK bool, sub []pfLeaf) pfArg {
		return pfArg{text: text, key: key, want: want,
			leaf: pfLeaf{text: "Zz(" + text + ")", want: pfOneCall("Zz", map[string]interface{}{key: want}), class: class, errOK: errOK, sub: sub}}
	}
	switch r := g.rng.Intn(20); {
	case r < 11: // key = scalar
		sc := g.scalar(pfAllScalars)
		return mk(key+g.ws()+"="+g.ws()+sc.text, key, sc.want, sc.class, sc.errOK, nil)
	case r < 13: // key = list
		t, v, sub, errOK := g.list(pfAllScalars, key, "Zz("+key+"=", pfIdent, false)
		return mk(key+g.ws()+"="+g.ws()+t, key, v, "list", errOK, sub)
	case r < 14 && depth > 0: // key = Call(...)   (grammar: generic call form only)
		t, c, sub, errOK := g.genericCall(depth - 1)
		return mk(key+g.ws()+"="+g.ws()+t, key, c, "callarg", errOK, sub)
	case r < 17: // key COND value
		op := pfCondOps[g.rng.Intn(len(pfCondOps))]
		pre := "Zz(" + key + op.text
		wrap := func(l []interface{}) interface{} { return &Condition{Op: op.op, Value: l} }
		switch k := g.rng.Intn(10); {
		case op.op == BETWEEN && k < 8:
			a, av := g.intText()
			b, bv := g.intText()
			t := "[" + g.ws() + a + g.comma() + b + g.ws() + "]"
			return mk(key+g.ws()+op.text+g.ws()+t, key, &Condition{Op: op.op, Value: []interface{}{av, bv}}, "cond-list", false, nil)
		case k < 6:
			sc := g.scalar([]int{0, 0, 0, 1, 6, 2, 7})
			return mk(key+g.ws()+op.text+g.ws()+sc.text, key, &Condition{Op: op.op, Value: sc.want}, sc.class, sc.errOK, nil)
		case k < 9:
			t, l, sub, errOK := g.list([]int{0, 0, 1}, key, pre, wrap, true)
			return mk(key+g.ws()+op.text+g.ws()+t, key, &Condition{Op: op.op, Value: l}, "cond-list", errOK, sub)
		default:
			t, l, sub, errOK := g.list([]int{0, 2, 3, 5, 6}, key, pre, wrap, true)
			return mk(key+g.ws()+op.text+g.ws()+t, key, &Condition{Op: op.op, Value: l}, "cond-list", errOK, sub)
		}
	default: // a < key <= b   (key must be a fieldExpr)
		if strings.HasPrefix(key, "_") {
			key = "v" + key
		}
		lo, lov := g.condInt()
		hi, hiv := g.condInt()
		op1, op2 := "<", "<"
		overflow := false
		if g.rng.Intn(2) == 0 {
			op1 = "<="
		} else if lov == math.MaxInt64 {
			overflow = true
		} else {
			lov++
		}
		if g.rng.Intn(2) == 0 {
			op2 = "<="
		} else if hiv == math.MinInt64 {
			overflow = true
		} else {
			hiv--
		}
		class := "between"
		if overflow {
			// "MaxInt64 < f" / "f < MinInt64" has no [lo,hi] representation: an explicit
			// error is tolerated, a wrapped-around bound is not.
			class = "between-overflow"
		}
		return mk(lo+g.ws()+op1+g.ws()+key+g.ws()+op2+g.ws()+hi, key, &Condition{Op: BETWEEN, Value: []interface{}{lov, hiv}}, class, overflow, nil)
	}
}

// condInt: grammar '-'? [1-9][0-9]* / '0'
func (g *pfGen) condInt() (string, int64) {
	switch g.rng.Intn(10) {
	case 0:
		return "9223372036854775807", math.MaxInt64
	case 1:
		return "-9223372036854775808", math.MinInt64
	case 2:
		return "0", 0
	case 3:
		v := g.rng.Int63()
		return strconv.FormatInt(v, 10), v
	}
	v := int64(g.rng.Intn(201)) - 100
	return strconv.FormatInt(v, 10), v
}

// args generates up to n keyword arguments with distinct keys; adds them to m.
func (g *pfGen) args(n, depth int, avoid map[string]bool, m map[string]interface{}) (string, []pfLeaf, bool) {
	out := ""
	var leaves []pfLeaf
	errOK := false
	for i := 0; i < n; i++ {
		k := pfKeys[g.rng.Intn(len(pfKeys))]
		if avoid[k] || avoid["v"+k] {
			continue
		}
		a := g.arg(k, depth)
		avoid[k], avoid[a.key] = true, true
		m[a.key] = a.want
		if out != "" {
			out += g.comma()
		}
		out += a.text
		leaves = append(leaves, a.leaf)
		errOK = errOK || a.leaf.errOK
	}
	if out == "" { // always at least one
		out = "zq=1"
		m["zq"] = int64(1)
	}
	return out, leaves, errOK
}

// colOrRow writes a positional column / row: uint or quoted string.
func (g *pfGen) colOrRow() (string, interface{}, string) {
	switch g.rng.Intn(4) {
	case 0, 1:
		switch g.rng.Intn(4) {
		case 0:
			return "0", int64(0), "pos-int"
		case 1:
			return "9223372036854775807", int64(math.MaxInt64), "pos-int"
		}
		v := g.rng.Int63n(int64(1) << uint(1+g.rng.Intn(62)))
		return strconv.FormatInt(v, 10), v, "pos-int"
	case 2:
		// only the two escapes the grammar itself names (\" and \\); no line feeds
		s := strings.Replace(g.rawString(), "\n", "", -1)
		var b strings.Builder
		esc := false
		for _, r := range s {
			switch r {
			case '"':
				b.WriteString(`\"`)
				esc = true
			case '\\':
				b.WriteString(`\\`)
				esc = true
			default:
				b.WriteRune(r)
			}
		}
		if esc {
			return `"` + b.String() + `"`, s, "pos-dq-escape"
		}
		return `"` + b.String() + `"`, s, "pos-dq"
	default:
		s := g.rawString()
		t, class := g.sq(s)
		return t, s, "pos-" + class
	}
}

var pfGenericNames = []string{"Row", "Union", "Intersect", "Difference", "Xor", "Not", "Shift", "Count", "GroupBy", "Min", "Max", "Sum",
	"MinRow", "MaxRow", "Options", "Row", "Row", "Bitmap", "Settings", "Rowsx", "TopNotch", "Ranger", "Clearing", "Storex", "X", "a9"}

// genericCall: IDENT open allargs comma? close
func (g *pfGen) genericCall(depth int) (string, *Call, []pfLeaf, bool) {
	avoid := map[string]bool{}
	args := map[string]interface{}{}
	name := pfGenericNames[g.rng.Intn(len(pfGenericNames))]
	text := name + "(" + g.ws()
	var children []*Call
	var leaves []pfLeaf
	errOK := false
	nch := 0
	if depth > 0 {
		nch = []int{0, 0, 1, 1, 2, 3}[g.rng.Intn(6)]
	}
	for i := 0; i < nch; i++ {
		if i > 0 {
			text += g.comma()
		}
		ct, cc, cl, ce := g.call(depth - 1)
		text += ct
		children = append(children, cc)
		leaves = append(leaves, cl...)
		errOK = errOK || ce
	}
	nargs := []int{0, 1, 1, 2, 2, 3, 4}[g.rng.Intn(7)]
	if nargs > 0 {
		at, al, ae := g.args(nargs, depth, avoid, args)
		if nch > 0 {
			text += g.comma()
		}
		text += at
		leaves = append(leaves, al...)
		errOK = errOK || ae
	}
	if (nch > 0 || len(args) > 0) && g.rng.Intn(10) == 0 {
		text += g.comma() // trailing comma allowed by the grammar
	}
	c := &Call{Name: name, Children: children}
	if len(args) > 0 {
		c.Args = args
	}
	return text + ")", c, leaves, errOK
}

// call generates one call of any form: text, intended AST, isolated leaves, errOK.
func (g *pfGen) call(depth int) (string, *Call, []pfLeaf, bool) {
	r := g.rng.Intn(30)
	avoid := map[string]bool{}
	args := map[string]interface{}{}
	var leaves []pfLeaf
	pos := func(text string, c *Call, class string) {
		leaves = append(leaves, pfLeaf{text: text, want: []*Call{c}, class: class})
	}
	switch {
	case r < 3: // Set(col, args [, timestamp])
		ct, cv, cclass := g.colOrRow()
		avoid["_col"], avoid["_timestamp"] = true, true
		pos("Set("+ct+",f=1)", &Call{Name: "Set", Args: map[string]interface{}{"_col": cv, "f": int64(1)}}, cclass)
		at, al, errOK := g.args(1+g.rng.Intn(2), 0, avoid, args)
		leaves = append(leaves, al...)
		args["_col"] = cv
		text := "Set(" + g.ws() + ct + g.comma() + at
		if g.rng.Intn(2) == 0 {
			tt, tv := g.timestampText()
			text += g.comma() + tt
			args["_timestamp"] = tv
			class := "pos-timestamp"
			if tt != tv {
				class = "pos-timestamp-quoted"
			}
			pos("Set(1,f=1,"+tt+")", &Call{Name: "Set", Args: map[string]interface{}{"_col": int64(1), "f": int64(1), "_timestamp": tv}}, class)
		}
		return text + ")", &Call{Name: "Set", Args: args}, leaves, errOK
	case r < 5: // Clear / SetColumnAttrs (col, args)
		name := []string{"Clear", "SetColumnAttrs"}[g.rng.Intn(2)]
		ct, cv, cclass := g.colOrRow()
		avoid["_col"] = true
		pos(name+"("+ct+",f=1)", &Call{Name: name, Args: map[string]interface{}{"_col": cv, "f": int64(1)}}, cclass)
		at, al, errOK := g.args(1+g.rng.Intn(3), 0, avoid, args)
		leaves = append(leaves, al...)
		args["_col"] = cv
		return name + "(" + g.ws() + ct + g.comma() + at + ")", &Call{Name: name, Args: args}, leaves, errOK
	case r < 7: // SetRowAttrs(field, row, args)
		fn := pfFieldNames[g.rng.Intn(len(pfFieldNames))]
		rt, rv, rclass := g.colOrRow()
		avoid["_row"], avoid["_field"] = true, true
		pos("SetRowAttrs(f,"+rt+",a=1)", &Call{Name: "SetRowAttrs", Args: map[string]interface{}{"_field": "f", "_row": rv, "a": int64(1)}}, rclass)
		at, al, errOK := g.args(1+g.rng.Intn(3), 0, avoid, args)
		leaves = append(leaves, al...)
		args["_row"], args["_field"] = rv, fn
		return "SetRowAttrs(" + g.ws() + fn + g.comma() + rt + g.comma() + at + ")", &Call{Name: "SetRowAttrs", Args: args}, leaves, errOK
	case r < 8: // ClearRow(arg)
		at, al, errOK := g.args(1, 0, avoid, args)
		return "ClearRow(" + g.ws() + at + ")", &Call{Name: "ClearRow", Args: args}, al, errOK
	case r < 9 && depth > 0: // Store(Call, arg)
		ct, cc, cl, ce := g.call(depth - 1)
		at, al, errOK := g.args(1, 0, avoid, args)
		return "Store(" + g.ws() + ct + g.comma() + at + ")", &Call{Name: "Store", Args: args, Children: []*Call{cc}}, append(cl, al...), errOK || ce
	case r < 12: // TopN / Rows (field [, allargs])
		name := []string{"TopN", "Rows"}[g.rng.Intn(2)]
		fn := pfFieldNames[g.rng.Intn(len(pfFieldNames))]
		avoid["_field"] = true
		text := name + "(" + g.ws() + fn
		var children []*Call
		errOK := false
		if depth > 0 && g.rng.Intn(3) == 0 {
			ct, cc, cl, ce := g.call(depth - 1)
			text += g.comma() + ct
			children = append(children, cc)
			leaves = append(leaves, cl...)
			errOK = ce
		}
		if n := g.rng.Intn(4); n > 0 {
			at, al, ae := g.args(n, depth, avoid, args)
			text += g.comma() + at
			leaves = append(leaves, al...)
			errOK = errOK || ae
		}
		args["_field"] = fn
		return text + ")", &Call{Name: name, Args: args, Children: children}, leaves, errOK
	case r < 14: // Range(field=value, [from=]ts, [to=]ts)
		fn := pfFieldNames[g.rng.Intn(len(pfFieldNames))]
		sc := g.scalar([]int{0, 2, 3, 4, 5})
		leaves = append(leaves, pfLeaf{text: "Range(f=" + sc.text + ",2017-01-02T03:04,2038-01-19T03:14)", class: sc.class, errOK: sc.errOK,
			want: pfOneCall("Range", map[string]interface{}{"f": sc.want, "from": "2017-01-02T03:04", "to": "2038-01-19T03:14"})})
		ft, fv := g.timestampText()
		tt, tv := g.timestampText()
		text := "Range(" + g.ws() + fn + g.ws() + "=" + g.ws() + sc.text + g.comma()
		if g.rng.Intn(2) == 0 {
			text += "from="
		}
		text += ft + g.comma()
		if g.rng.Intn(2) == 0 {
			text += "to=" + g.ws()
		}
		text += tt + ")"
		pos("Range(f=1,"+ft+","+tt+")", &Call{Name: "Range", Args: map[string]interface{}{"f": int64(1), "from": fv, "to": tv}}, "range-timestamps")
		return text, &Call{Name: "Range", Args: map[string]interface{}{fn: sc.want, "from": fv, "to": tv}}, leaves, sc.errOK
	default:
		return g.genericCall(depth)
	}
}

// ---------------------------------------------------------------- translation (executor.translateCall / validateCallArgs)

func (g *pfGen) id() uint64 {
	if g.rng.Intn(4) == 0 {
		return uint64(1) << uint(g.rng.Intn(63))
	}
	return uint64(1 + g.rng.Intn(100000))
}

func (g *pfGen) translate(c *Call) *Call {
	out := &Call{Name: c.Name}
	if c.Args != nil {
		out.Args = map[string]interface{}{}
	}
	argKeys := make([]string, 0, len(c.Args))
	for k := range c.Args {
		argKeys = append(argKeys, k)
	}
	sort.Strings(argKeys) // deterministic use of the random source
	for _, k := range argKeys {
		v := c.Args[k]
		if cc, ok := v.(*Call); ok {
			v = g.translate(cc)
		}
		out.Args[k] = v
	}
	for _, ch := range c.Children {
		out.Children = append(out.Children, g.translate(ch))
	}
	tr := func(key string) {
		switch v := out.Args[key].(type) {
		case string:
			if v != "" {
				out.Args[key] = g.id()
			}
		case bool: // bool field: row false/true -> row id 0/1
			if v {
				out.Args[key] = uint64(1)
			} else {
				out.Args[key] = uint64(0)
			}
		}
	}
	if g.rng.Intn(3) != 0 { // keyed index / field
		switch c.Name {
		case "Set", "Clear", "Row", "Range", "SetColumnAttrs", "ClearRow":
			tr("_col")
			keys := make([]string, 0, len(c.Args))
			for k := range c.Args {
				if !IsReservedArg(k) {
					keys = append(keys, k)
				}
			}
			sort.Strings(keys)
			if len(keys) > 0 {
				tr(keys[0])
			}
		case "SetRowAttrs":
			tr("_row")
		case "Rows":
			tr("previous")
			tr("column")
		case "GroupBy":
			if prev, ok := out.Args["previous"].([]interface{}); ok {
				np := make([]interface{}, len(prev))
				for i := range prev {
					np[i] = prev[i]
					if s, ok := prev[i].(string); ok && s != "" {
						np[i] = g.id()
					}
				}
				out.Args["previous"] = np
			}
		default:
			tr("col")
			tr("row")
		}
	}
	// validateCallArgs / TopN refetch
	if l, ok := out.Args["ids"].([]interface{}); ok {
		allInt := true
		for _, x := range l {
			if _, ok := x.(int64); !ok {
				allInt = false
			}
		}
		if allInt {
			if g.rng.Intn(2) == 0 {
				b := make([]int64, len(l))
				for i := range l {
					b[i] = l[i].(int64)
				}
				out.Args["ids"] = b
			} else {
				b := make([]uint64, len(l))
				for i := range l {
					b[i] = uint64(l[i].(int64)) & math.MaxInt64
				}
				out.Args["ids"] = b
			}
		}
	}
	return out
}

func pfValueKind(v interface{}) string {
	switch v := v.(type) {
	case nil:
		return "null"
	case bool:
		return "bool"
	case int64, uint64:
		return "int"
	case float64:
		return "float"
	case string:
		if hasNonASCII(v) {
			return "string-nonascii"
		}
		return "string"
	case []int64, []uint64:
		return "intslice"
	case []interface{}:
		return "list"
	case *Condition:
		return "cond-" + pfValueKind(v.Value)
	case *Call:
		return "call"
	}
	return fmt.Sprintf("%T", v)
}

// pfForwardOne checks String()+re-parse of a single call; returns the text sent and "" or a description.
func pfForwardOne(c *Call) (text string, problem string) {
	defer func() {
		if r := recover(); r != nil {
			problem = fmt.Sprintf("panic: %v", r)
		}
	}()
	text = (&Query{Calls: []*Call{c}}).String()
	q, err, p := pfParse(text)
	if p != nil {
		return text, fmt.Sprintf("panic: re-parse panics: %v", p)
	}
	if err != nil {
		return text, "re-parse error: " + pfShort(err.Error())
	}
	if got, want := pfCanonCalls(q.Calls, false), pfCanonCall(c, false); got != want {
		return text, "re-parse yields " + pfShort(got) + ", forwarded call was " + pfShort(want)
	}
	return text, ""
}

func pfShort(s string) string {
	if len(s) > 300 {
		return s[:300] + "..."
	}
	return s
}

// pfForwardTriage attributes a forwarding failure of call c to the smallest
// argument value (or list element) that fails on its own.
func (r *pfResult) forwardTriage(c *Call) bool {
	found := false
	one := func(k string, v interface{}) (string, string) {
		r.Evaluations++
		return pfForwardOne(&Call{Name: "Zz", Args: map[string]interface{}{k: v}})
	}
	report := func(class, problem, text string) {
		found = true
		sig := "forward-" + class
		if strings.HasPrefix(problem, "panic") {
			sig += "-panic"
		}
		r.fail(sig, problem, "forwarded text: "+text)
	}
	keys := make([]string, 0, len(c.Args))
	for k := range c.Args {
		keys = append(keys, k)
	}
	sort.Strings(keys)
	for _, k := range keys {
		v := c.Args[k]
		if cc, ok := v.(*Call); ok {
			if r.forwardTriage(cc) {
				found = true
			}
			continue
		}
		text, problem := one(k, v)
		if problem == "" {
			continue
		}
		inner, cond := v, (*Condition)(nil)
		if cd, ok := v.(*Condition); ok {
			inner, cond = cd.Value, cd
		}
		if l, ok := inner.([]interface{}); ok {
			elemFound := false
			for _, e := range l {
				var ev interface{} = []interface{}{e}
				if _, isBool := e.(bool); isBool || e == nil {
					ev = []interface{}{e, int64(0)} // a keyword must not be written last in a list (separate parser finding)
				}
				if cond != nil {
					ev = &Condition{Op: cond.Op, Value: ev}
				}
				et, ep := one(k, ev)
				if ep == "" {
					continue
				}
				elemFound = true
				_, isInt := e.(int64)
				_, isFloat := e.(float64)
				if st, sp := one(k, e); sp != "" { // fails as a plain scalar too
					report(pfValueKind(e), sp, st)
				} else if cond != nil && !isInt && !isFloat {
					report("cond-list-nonnumeric", ep, et)
				} else {
					report("list-"+pfValueKind(e), ep, et)
				}
			}
			if !elemFound {
				report(pfValueKind(v), problem, text)
			}
			continue
		}
		if cond != nil {
			if st, sp := one(k, inner); sp != "" {
				report(pfValueKind(inner), sp, st)
				continue
			}
		}
		report(pfValueKind(v), problem, text)
	}
	for _, ch := range c.Children {
		if r.forwardTriage(ch) {
			found = true
		}
	}
	return found
}

// ---------------------------------------------------------------- checks

// pfCheckText parses text and compares with want; returns "", or kind ("error"/"mismatch"/"panic") and description.
func pfCheckText(text string, want []*Call, errOK bool) (kind, what string) {
	q, err, p := pfParse(text)
	if p != nil {
		return "panic", fmt.Sprintf("ParseString panics: %v", p)
	}
	if err != nil {
		if errOK {
			return "", ""
		}
		return "error", "ParseString returns error " + pfShort(err.Error()) + " for a query of the grammar; written: " + pfShort(pfCanonCalls(want, true))
	}
	if got, w := pfCanonCalls(q.Calls, true), pfCanonCalls(want, true); got != w {
		return "mismatch", "parsed " + pfShort(got) + ", written " + pfShort(w)
	}
	return "", ""
}

// classes naming a specific written feature; they keep their name even when the
// text also holds multi-byte runes (labelling priority only).
var pfSpecificClass = map[string]bool{"sq-escape": true, "pos-sq-escape": true, "pos-dq-escape": true, "dq-raw-newline": true,
	"list-tail-keyword": true, "cond-list-nonnumeric": true, "between-overflow": true, "pos-timestamp-quoted": true}

// parseTriage reports the smallest failing leaves below lf; returns whether lf itself fails.
func (r *pfResult) parseTriage(lf pfLeaf, checked bool, kind, what string) bool {
	if !checked {
		r.Evaluations++
		kind, what = pfCheckText(lf.text, lf.want, lf.errOK)
	}
	if kind == "" {
		return false
	}
	subFailed := false
	for _, s := range lf.sub {
		if r.parseTriage(s, false, "", "") {
			subFailed = true
		}
	}
	if !subFailed {
		class := lf.class
		if hasNonASCII(lf.text) && !pfSpecificClass[class] {
			// a plainly written value fails only in the presence of multi-byte runes
			class = "nonascii"
		}
		sig := "parse-" + class
		if kind == "panic" {
			sig += "-panic"
		}
		r.fail(sig, what, lf.text)
	}
	return true
}

func TestRcheckPqlfmt(t *testing.T) {
	seed := int64(1)
	if s := os.Getenv("VERIF_SEED"); s != "" {
		if v, err := strconv.ParseInt(s, 10, 64); err == nil {
			seed = v
		}
	}
	n := 10000
	if os.Getenv("VERIF_TIER") == "thorough" {
		n = 500000
	}
	defer debug.SetGCPercent(debug.SetGCPercent(400))
	res := &pfResult{Harness: "pqlfmt",
		Rule:  "a query is non-trivial when it has at least one argument; distinct by query text; evaluations = whole-query parse comparisons + per-call forward (String+re-parse) comparisons + isolated comparisons made while attributing a failure",
		Bound: fmt.Sprintf("%d random grammar-generated queries (1..3 calls, depth <= 3, <= 4 args/call, strings <= 8 runes over a %d-rune alphabet incl. quotes, backslash, tab, LF, 2/3/4-byte UTF-8; ints incl. int64 extremes; all float spellings); each exactly parsed call is key-translated and forwarded via Query.String(); seed %d", n, len(pfRunes), seed)}
	rng := rand.New(rand.NewSource(seed))
	seen := map[string]bool{}
	for i := 0; i < n; i++ {
		g := &pfGen{rng: rng}
		ncalls := []int{1, 1, 1, 2, 3}[rng.Intn(5)]
		text := g.ws()
		var want []*Call
		var leaves []pfLeaf
		errOK := false
		for j := 0; j < ncalls; j++ {
			ct, cc, cl, ce := g.call([]int{0, 1, 2, 3}[rng.Intn(4)])
			text += ct + g.ws()
			want = append(want, cc)
			leaves = append(leaves, cl...)
			errOK = errOK || ce
		}
		nontrivial := false
		for _, c := range want {
			if len(c.Args) > 0 {
				nontrivial = true
			}
		}
		if nontrivial && !seen[text] {
			seen[text] = true
			res.Distinct++
			if len(res.Samples) < 4 {
				res.Samples = append(res.Samples, text)
			}
		}

		// (a) parse fidelity
		res.Evaluations++
		q, perr, pp := pfParse(text)
		kind, what := "", ""
		switch {
		case pp != nil:
			kind, what = "panic", fmt.Sprintf("ParseString panics: %v", pp)
		case perr != nil && !errOK:
			kind, what = "error", "ParseString returns error "+pfShort(perr.Error())+" for a query of the grammar; written: "+pfShort(pfCanonCalls(want, true))
		case perr == nil:
			if got, w := pfCanonCalls(q.Calls, true), pfCanonCalls(want, true); got != w {
				kind, what = "mismatch", "parsed "+pfShort(got)+", written "+pfShort(w)
			}
		}
		if kind != "" {
			res.parseTriage(pfLeaf{text: text, want: want, class: "whole-query", errOK: errOK, sub: leaves}, true, kind, what)
			continue
		}
		if perr != nil {
			continue
		}

		// (b) forwarding of the parsed (and verified) calls after key translation
		for _, c := range q.Calls {
			tc := g.translate(c)
			res.Evaluations++
			ftext, problem := pfForwardOne(tc)
			if problem == "" {
				continue
			}
			if !res.forwardTriage(tc) {
				res.fail("forward-whole-call", problem, "forwarded text: "+ftext)
			}
		}
	}
	sort.Slice(res.Failures, func(i, j int) bool { return res.Failures[i].Sig < res.Failures[j].Sig })
	if out := os.Getenv("RCHECK_OUT"); out != "" {
		data, _ := json.MarshalIndent(res, "", " ")
		if err := os.WriteFile(out, data, 0o644); err != nil {
			t.Fatal(err)
		}
	}
	for _, f := range res.Failures {
		t.Logf("FAIL %v %s: %s  %q", f.Props, f.Sig, pfShort(f.What), f.Seq)
	}
	t.Logf("evaluations %d distinct %d failures %d", res.Evaluations, res.Distinct, len(res.Failures))
}
