package pilosa_test

// BOUNDED stand-in (never counted as proved): the real server (package test's
// in-process Command) is driven with scripted and random histories of schema
// changes and acknowledged writes; the schema and a battery of read queries are
// recorded, the data directory is closed and reopened (Command.Reopen) and the
// recording is compared with the answers after the restart.  Injected with
// `go test -overlay`; results go to $RCHECK_OUT.  Serves C08.
//
// Per case: phase A writes -> snapshot S1 -> Reopen -> S2 (must equal S1) ->
// phase B writes -> snapshot S3 (checked against a map model; a model mismatch
// is only reported when a replay of the same history on a server that never
// restarts does agree with the model) -> Reopen, Reopen -> S4 (must equal S3).

import (
	"bytes"
	"context"
	"encoding/json"
	"fmt"
	"math/rand"
	"os"
	"sort"
	"strconv"
	"strings"
	"testing"
	"time"

	"github.com/pilosa/pilosa"
	"github.com/pilosa/pilosa/roaring"
	"github.com/pilosa/pilosa/test"
)

type rsFailure struct {
	Props []string `json:"props"`
	What  string   `json:"what"`
	Sig   string   `json:"signature"`
	Seq   []string `json:"sequence"`
}

type rsResult struct {
	Harness     string        `json:"harness"`
	Bound       string        `json:"bound"`
	Evaluations int           `json:"evaluations"`
	Distinct    int           `json:"distinct_nontrivial"`
	Rule        string        `json:"rule"`
	Exhaustive  bool          `json:"exhaustive"`
	Samples     []interface{} `json:"samples"`
	Failures    []rsFailure   `json:"failures"`
	Notes       []string      `json:"notes,omitempty"`
}

const rsSW = pilosa.ShardWidth

var rsColIDs = []uint64{0, 1, 2, 65535, 65536, rsSW - 1, rsSW, rsSW + 1, 2 * rsSW, 3*rsSW + 7}
var rsColKeys = []string{"a", "b", "c1", "k-u", "col 5", "Z_9", "x.y", "0"}

// non-ASCII keys only enter through the import API (PQL text with non-ASCII
// strings is not parsed faithfully, which is not a restart matter)
var rsColKeysImport = []string{"k-ü", "日本"}
var rsRowKeysImport = []string{"rö", "行"}
var rsRowIDs = []uint64{0, 1, 2, 5, 10, 1000, 70000}
var rsRowKeys = []string{"r1", "r2", "r,3", "row x", "R", "1"}
var rsQuanta = []string{"Y", "YM", "YMD", "YMDH", "M", "MD", "MDH", "D", "DH", "H", ""}
var rsBounds = [][2]int64{{-10, 10}, {5, 100}, {-100, -5}, {7, 7}, {-3, -3}, {0, 0}, {0, 1000}, {-1000, 0}, {1, 1}, {-1, -1},
	{-(1 << 40), 1 << 40}, {-(1 << 62), 1 << 62}, {-1, 1}, {1, 1 << 33}, {-(1 << 33), -1}}
var rsTimes []time.Time

// ---------------------------------------------------------------- specs & model

type rsFieldSpec struct {
	Name      string
	Type      string
	CacheType string
	CacheSize uint32
	Min, Max  int64
	Quantum   string
	NoStd     bool
	Keys      bool
}

func (s *rsFieldSpec) String() string {
	switch s.Type {
	case "set", "mutex":
		return fmt.Sprintf("%s:%s(%s,%d,keys=%v)", s.Name, s.Type, s.CacheType, s.CacheSize, s.Keys)
	case "int":
		return fmt.Sprintf("%s:int(%d,%d)", s.Name, s.Min, s.Max)
	case "time":
		return fmt.Sprintf("%s:time(%q,noStd=%v,keys=%v)", s.Name, s.Quantum, s.NoStd, s.Keys)
	}
	return s.Name + ":" + s.Type
}

func (s *rsFieldSpec) opts() []pilosa.FieldOption {
	var o []pilosa.FieldOption
	switch s.Type {
	case "set":
		o = append(o, pilosa.OptFieldTypeSet(s.CacheType, s.CacheSize))
	case "mutex":
		o = append(o, pilosa.OptFieldTypeMutex(s.CacheType, s.CacheSize))
	case "int":
		o = append(o, pilosa.OptFieldTypeInt(s.Min, s.Max))
	case "time":
		o = append(o, pilosa.OptFieldTypeTime(pilosa.TimeQuantum(s.Quantum), s.NoStd))
	case "bool":
		o = append(o, pilosa.OptFieldTypeBool())
	}
	if s.Keys {
		o = append(o, pilosa.OptFieldKeys())
	}
	return o
}

func (s *rsFieldSpec) setLike() bool { return s.Type != "int" }

type rsFieldModel struct {
	spec     *rsFieldSpec
	bits     map[string]map[string]bool           // standard view: row -> col
	tbits    map[string]map[string]map[int64]bool // row -> col -> unix seconds
	vals     map[string]int64
	rowAttrs map[string]map[string]interface{}
}

func newRsFieldModel(s *rsFieldSpec) *rsFieldModel {
	return &rsFieldModel{spec: s, bits: map[string]map[string]bool{}, tbits: map[string]map[string]map[int64]bool{}, vals: map[string]int64{}, rowAttrs: map[string]map[string]interface{}{}}
}

type rsIndexModel struct {
	name     string
	keys     bool
	track    bool
	fields   map[string]*rsFieldModel
	order    []string
	colAttrs map[string]map[string]interface{}
}

type rsModel struct {
	idx    map[string]*rsIndexModel
	order  []string
	ghostI []string    // deleted index names
	ghostF [][2]string // deleted (index, field) names
	nameN  int
}

func newRsModel() *rsModel { return &rsModel{idx: map[string]*rsIndexModel{}} }

func (im *rsIndexModel) removeField(name string) {
	delete(im.fields, name)
	for i, n := range im.order {
		if n == name {
			im.order = append(im.order[:i:i], im.order[i+1:]...)
			break
		}
	}
}

// ---------------------------------------------------------------- operations

type rsBit struct {
	Row, Col string
	TS       int64 // unix seconds, 0 = none
	Val      int64
}

type rsOp struct {
	Kind  string // createIndex createField deleteIndex deleteField set clear setval clearrow store rowattrs colattrs import importvalue importroaring
	Idx   string
	Fld   string
	Col   string
	Row   string
	Row2  string
	TS    int64
	Val   int64
	Attrs map[string]interface{}
	Bits  []rsBit
	ISpec *rsIndexModel // createIndex: name/keys/track
	FSpec *rsFieldSpec
}

func rsAttrString(a map[string]interface{}) string {
	keys := make([]string, 0, len(a))
	for k := range a {
		keys = append(keys, k)
	}
	sort.Strings(keys)
	parts := []string{}
	for _, k := range keys {
		switch v := a[k].(type) {
		case nil:
			parts = append(parts, k+"=null")
		case string:
			parts = append(parts, fmt.Sprintf("%s=%q", k, v))
		default:
			parts = append(parts, fmt.Sprintf("%s=%v", k, v))
		}
	}
	return strings.Join(parts, ", ")
}

func (o *rsOp) String() string {
	switch o.Kind {
	case "createIndex":
		return fmt.Sprintf("CreateIndex(%s, keys=%v, trackExistence=%v)", o.Idx, o.ISpec.keys, o.ISpec.track)
	case "createField":
		return fmt.Sprintf("CreateField(%s, %s)", o.Idx, o.FSpec)
	case "deleteIndex":
		return fmt.Sprintf("DeleteIndex(%s)", o.Idx)
	case "deleteField":
		return fmt.Sprintf("DeleteField(%s, %s)", o.Idx, o.Fld)
	case "import", "importvalue", "importroaring":
		s := []string{}
		for i, b := range o.Bits {
			if i >= 6 {
				s = append(s, fmt.Sprintf("...%d more", len(o.Bits)-6))
				break
			}
			s = append(s, fmt.Sprintf("%+v", b))
		}
		return fmt.Sprintf("%s(%s, %s, %s)", o.Kind, o.Idx, o.Fld, strings.Join(s, " "))
	}
	return o.Idx + ": " + o.Kind
}

// ---------------------------------------------------------------- runner

type rsSnapEntry struct {
	kind    string
	label   string
	raw     string
	got     string // canonical form comparable with want
	want    string
	decided bool // model decides this query
}

type rsRun struct {
	t     *testing.T
	res   *rsResult
	cmd   *test.Command
	m     *rsModel
	seq   []string
	evals int
	quiet bool // control replay: no failure recording for C08
	noted map[string]bool
}

func (r *rsRun) fail(sig, what string, props ...string) {
	if r.quiet {
		return
	}
	if len(props) == 0 {
		props = []string{"C08"}
	}
	for _, f := range r.res.Failures {
		if f.Sig == sig {
			return
		}
	}
	seq := r.seq
	if len(seq) > 80 && os.Getenv("RCHECK_CASE") == "" {
		seq = append(append([]string{}, seq[:10]...), append([]string{"..."}, seq[len(seq)-69:]...)...)
	}
	r.res.Failures = append(r.res.Failures, rsFailure{Props: props, What: what, Sig: sig, Seq: append([]string{}, seq...)})
}

func (r *rsRun) note(key, s string) {
	if r.noted == nil {
		r.noted = map[string]bool{}
	}
	if r.noted[key] || len(r.res.Notes) >= 12 {
		return
	}
	r.noted[key] = true
	r.res.Notes = append(r.res.Notes, s)
}

// guard runs f and converts a panic of the real code into a failure.
func (r *rsRun) guard(where string, f func() error, detail ...string) (err error) {
	defer func() {
		if p := recover(); p != nil {
			err = fmt.Errorf("panic: %v", p)
			if where == "reopen" || where == "close" {
				r.fail("panic-"+where, fmt.Sprintf("%s %v panicked: %v", where, detail, p))
			} else {
				// a crash on a well-formed request, not a restart matter
				r.fail("panic-"+where, fmt.Sprintf("%s %v panicked: %v", where, detail, p), "C06")
			}
		}
	}()
	return f()
}

func (r *rsRun) colLit(im *rsIndexModel, col string) string {
	if im.keys {
		return strconv.Quote(col)
	}
	return col
}

func rsRowLit(s *rsFieldSpec, row string) string {
	if s.Type == "bool" {
		return row // "true"/"false"
	}
	if s.Keys {
		return strconv.Quote(row)
	}
	return row
}

func (r *rsRun) pql(idx, q string, shards ...uint64) (pilosa.QueryResponse, error) {
	var resp pilosa.QueryResponse
	err := r.guard("query", func() error {
		var e error
		resp, e = r.cmd.API.Query(context.Background(), &pilosa.QueryRequest{Index: idx, Query: q, Shards: shards})
		return e
	}, idx, q)
	return resp, err
}

// write executes a PQL write; returns true when it was acknowledged.
func (r *rsRun) write(idx, q string) bool {
	_, err := r.pql(idx, q)
	if err != nil {
		r.seq = append(r.seq, idx+": "+q+"  -> error "+rsShort(err.Error()))
		return false
	}
	r.seq = append(r.seq, idx+": "+q)
	return true
}

func rsShort(s string) string {
	if len(s) > 160 {
		return s[:160]
	}
	return s
}

func rsSetBit(fm *rsFieldModel, row, col string, ts int64) {
	s := fm.spec
	if s.Type == "mutex" || s.Type == "bool" {
		for r0, cs := range fm.bits {
			if r0 != row {
				delete(cs, col)
			}
		}
	}
	std := true
	if s.Type == "time" && s.NoStd {
		std = false
	}
	if std {
		if fm.bits[row] == nil {
			fm.bits[row] = map[string]bool{}
		}
		fm.bits[row][col] = true
	}
	if s.Type == "time" && ts != 0 && s.Quantum != "" {
		if fm.tbits[row] == nil {
			fm.tbits[row] = map[string]map[int64]bool{}
		}
		if fm.tbits[row][col] == nil {
			fm.tbits[row][col] = map[int64]bool{}
		}
		fm.tbits[row][col][ts] = true
	}
}

func rsClearBit(fm *rsFieldModel, row, col string) {
	if fm.bits[row] != nil {
		delete(fm.bits[row], col)
	}
	if fm.tbits[row] != nil {
		delete(fm.tbits[row], col)
	}
}

func rsMergeAttrs(dst map[string]map[string]interface{}, id string, a map[string]interface{}) {
	if dst[id] == nil {
		dst[id] = map[string]interface{}{}
	}
	for k, v := range a {
		if v == nil {
			delete(dst[id], k)
		} else {
			dst[id][k] = v
		}
	}
}

// apply executes op on the real server and, when acknowledged, on the model.
func (r *rsRun) apply(o *rsOp) {
	ctx := context.Background()
	m := r.m
	switch o.Kind {
	case "createIndex":
		err := r.guard("create-index", func() error {
			_, e := r.cmd.API.CreateIndex(ctx, o.Idx, pilosa.IndexOptions{Keys: o.ISpec.keys, TrackExistence: o.ISpec.track})
			return e
		})
		if err != nil {
			r.t.Fatalf("create index %s: %v", o.Idx, err)
		}
		r.seq = append(r.seq, o.String())
		m.idx[o.Idx] = &rsIndexModel{name: o.Idx, keys: o.ISpec.keys, track: o.ISpec.track, fields: map[string]*rsFieldModel{}, colAttrs: map[string]map[string]interface{}{}}
		m.order = append(m.order, o.Idx)
		return
	case "createField":
		err := r.guard("create-field", func() error {
			_, e := r.cmd.API.CreateField(ctx, o.Idx, o.FSpec.Name, o.FSpec.opts()...)
			return e
		})
		if err != nil {
			r.t.Fatalf("create field %s/%s: %v", o.Idx, o.FSpec, err)
		}
		r.seq = append(r.seq, o.String())
		im := m.idx[o.Idx]
		im.fields[o.FSpec.Name] = newRsFieldModel(o.FSpec)
		im.order = append(im.order, o.FSpec.Name)
		return
	case "deleteIndex":
		err := r.guard("delete-index", func() error { return r.cmd.API.DeleteIndex(ctx, o.Idx) })
		if err != nil {
			r.t.Fatalf("delete index: %v", err)
		}
		r.seq = append(r.seq, o.String())
		delete(m.idx, o.Idx)
		for i, n := range m.order {
			if n == o.Idx {
				m.order = append(m.order[:i:i], m.order[i+1:]...)
				break
			}
		}
		m.ghostI = append(m.ghostI, o.Idx)
		return
	case "deleteField":
		err := r.guard("delete-field", func() error { return r.cmd.API.DeleteField(ctx, o.Idx, o.Fld) })
		if err != nil {
			r.t.Fatalf("delete field: %v", err)
		}
		r.seq = append(r.seq, o.String())
		im := m.idx[o.Idx]
		if o.Fld == "_exists" {
			im.track = false
		} else {
			im.removeField(o.Fld)
			m.ghostF = append(m.ghostF, [2]string{o.Idx, o.Fld})
		}
		return
	}
	im := m.idx[o.Idx]
	if im == nil {
		return
	}
	switch o.Kind {
	case "colattrs":
		if r.write(o.Idx, fmt.Sprintf("SetColumnAttrs(%s, %s)", r.colLit(im, o.Col), rsAttrString(o.Attrs))) {
			rsMergeAttrs(im.colAttrs, o.Col, o.Attrs)
		}
		return
	}
	fm := im.fields[o.Fld]
	if fm == nil {
		return
	}
	s := fm.spec
	switch o.Kind {
	case "set":
		q := fmt.Sprintf("Set(%s, %s=%s)", r.colLit(im, o.Col), o.Fld, rsRowLit(s, o.Row))
		if o.TS != 0 {
			q = fmt.Sprintf("Set(%s, %s=%s, %s)", r.colLit(im, o.Col), o.Fld, rsRowLit(s, o.Row), time.Unix(o.TS, 0).UTC().Format("2006-01-02T15:04"))
		}
		if r.write(o.Idx, q) {
			rsSetBit(fm, o.Row, o.Col, o.TS)
		}
	case "clear":
		if r.write(o.Idx, fmt.Sprintf("Clear(%s, %s=%s)", r.colLit(im, o.Col), o.Fld, rsRowLit(s, o.Row))) {
			rsClearBit(fm, o.Row, o.Col)
		}
	case "setval":
		if r.write(o.Idx, fmt.Sprintf("Set(%s, %s=%d)", r.colLit(im, o.Col), o.Fld, o.Val)) {
			fm.vals[o.Col] = o.Val
		}
	case "clearrow":
		if r.write(o.Idx, fmt.Sprintf("ClearRow(%s=%s)", o.Fld, rsRowLit(s, o.Row))) {
			delete(fm.bits, o.Row)
			delete(fm.tbits, o.Row)
		}
	case "store":
		if r.write(o.Idx, fmt.Sprintf("Store(Row(%s=%s), %s=%s)", o.Fld, rsRowLit(s, o.Row), o.Fld, rsRowLit(s, o.Row2))) {
			cp := map[string]bool{}
			for c, ok := range fm.bits[o.Row] {
				if ok {
					cp[c] = true
				}
			}
			fm.bits[o.Row2] = cp
		}
	case "rowattrs":
		if r.write(o.Idx, fmt.Sprintf("SetRowAttrs(%s, %s, %s)", o.Fld, rsRowLit(s, o.Row), rsAttrString(o.Attrs))) {
			rsMergeAttrs(fm.rowAttrs, o.Row, o.Attrs)
		}
	case "import":
		if r.doImport(im, fm, o) {
			for _, b := range o.Bits {
				rsSetBit(fm, b.Row, b.Col, b.TS)
			}
		}
	case "importroaring":
		if r.doImportRoaring(im, fm, o) {
			for _, b := range o.Bits {
				rsSetBit(fm, b.Row, b.Col, 0)
			}
		}
	case "importvalue":
		if r.doImportValue(im, fm, o) {
			for _, b := range o.Bits {
				fm.vals[b.Col] = b.Val
			}
		}
	}
}

func rsU(s string) uint64 {
	v, _ := strconv.ParseUint(s, 10, 64)
	return v
}

func (r *rsRun) doImport(im *rsIndexModel, fm *rsFieldModel, o *rsOp) bool {
	ctx := context.Background()
	groups := map[uint64][]rsBit{}
	if im.keys || fm.spec.Keys {
		groups[0] = o.Bits
	} else {
		for _, b := range o.Bits {
			sh := rsU(b.Col) / rsSW
			groups[sh] = append(groups[sh], b)
		}
	}
	shards := []uint64{}
	for sh := range groups {
		shards = append(shards, sh)
	}
	sort.Slice(shards, func(i, j int) bool { return shards[i] < shards[j] })
	ok := true
	for _, sh := range shards {
		req := &pilosa.ImportRequest{Index: o.Idx, Field: o.Fld, Shard: sh}
		for _, b := range groups[sh] {
			if fm.spec.Keys {
				req.RowKeys = append(req.RowKeys, b.Row)
			} else {
				req.RowIDs = append(req.RowIDs, rsU(b.Row))
			}
			if im.keys {
				req.ColumnKeys = append(req.ColumnKeys, b.Col)
			} else {
				req.ColumnIDs = append(req.ColumnIDs, rsU(b.Col))
			}
			if b.TS != 0 {
				req.Timestamps = append(req.Timestamps, b.TS*int64(time.Second))
			} else {
				req.Timestamps = append(req.Timestamps, 0)
			}
		}
		if err := r.guard("import", func() error { return r.cmd.API.Import(ctx, req) }); err != nil {
			r.t.Fatalf("import %s: %v", o.String(), err)
			ok = false
		}
	}
	r.seq = append(r.seq, o.String())
	return ok
}

func (r *rsRun) doImportRoaring(im *rsIndexModel, fm *rsFieldModel, o *rsOp) bool {
	ctx := context.Background()
	groups := map[uint64]*roaring.Bitmap{}
	for _, b := range o.Bits {
		col := rsU(b.Col)
		sh := col / rsSW
		if groups[sh] == nil {
			groups[sh] = roaring.NewBitmap()
		}
		groups[sh].DirectAdd(rsU(b.Row)*rsSW + col%rsSW)
	}
	shards := []uint64{}
	for sh := range groups {
		shards = append(shards, sh)
	}
	sort.Slice(shards, func(i, j int) bool { return shards[i] < shards[j] })
	for _, sh := range shards {
		var buf bytes.Buffer
		if _, err := groups[sh].WriteTo(&buf); err != nil {
			r.t.Fatal(err)
		}
		req := &pilosa.ImportRoaringRequest{Views: map[string][]byte{"": buf.Bytes()}}
		if err := r.guard("import-roaring", func() error { return r.cmd.API.ImportRoaring(ctx, o.Idx, o.Fld, sh, false, req) }); err != nil {
			r.t.Fatalf("import roaring %s: %v", o.String(), err)
		}
	}
	r.seq = append(r.seq, o.String())
	return true
}

func (r *rsRun) doImportValue(im *rsIndexModel, fm *rsFieldModel, o *rsOp) bool {
	ctx := context.Background()
	groups := map[uint64][]rsBit{}
	if im.keys {
		groups[0] = o.Bits
	} else {
		for _, b := range o.Bits {
			sh := rsU(b.Col) / rsSW
			groups[sh] = append(groups[sh], b)
		}
	}
	shards := []uint64{}
	for sh := range groups {
		shards = append(shards, sh)
	}
	sort.Slice(shards, func(i, j int) bool { return shards[i] < shards[j] })
	for _, sh := range shards {
		req := &pilosa.ImportValueRequest{Index: o.Idx, Field: o.Fld, Shard: sh}
		for _, b := range groups[sh] {
			if im.keys {
				req.ColumnKeys = append(req.ColumnKeys, b.Col)
			} else {
				req.ColumnIDs = append(req.ColumnIDs, rsU(b.Col))
			}
			req.Values = append(req.Values, b.Val)
		}
		if err := r.guard("import-value", func() error { return r.cmd.API.ImportValue(ctx, req) }); err != nil {
			r.t.Fatalf("import value %s: %v", o.String(), err)
		}
	}
	r.seq = append(r.seq, o.String())
	return true
}

// ---------------------------------------------------------------- canonical forms

// rsTopN makes a TopN answer independent of the order / choice of equal-count
// entries at the cut: the counts, plus the identities strictly above the last count.
func rsTopN(ps []pilosa.Pair) string {
	counts := []uint64{}
	for _, p := range ps {
		counts = append(counts, p.Count)
	}
	sort.Slice(counts, func(i, j int) bool { return counts[i] > counts[j] })
	ids := []string{}
	if len(counts) > 0 {
		last := counts[len(counts)-1]
		for _, p := range ps {
			if p.Count > last {
				ids = append(ids, fmt.Sprintf("%d/%s=%d", p.ID, p.Key, p.Count))
			}
		}
	}
	sort.Strings(ids)
	return fmt.Sprintf("topn counts=%v above-cut=%v", counts, ids)
}

func rsRaw(resp pilosa.QueryResponse, err error) string {
	if err != nil {
		return "error: " + err.Error()
	}
	parts := []string{}
	for _, res := range resp.Results {
		switch x := res.(type) {
		case []pilosa.Pair:
			parts = append(parts, rsTopN(x))
		default:
			b, e := json.Marshal(res)
			if e != nil {
				parts = append(parts, fmt.Sprintf("%+v", res))
			} else {
				parts = append(parts, string(b))
			}
		}
	}
	if len(resp.ColumnAttrSets) > 0 {
		b, _ := json.Marshal(resp.ColumnAttrSets)
		parts = append(parts, "colattrs="+string(b))
	}
	return strings.Join(parts, " | ")
}

func rsSortedKeys(m map[string]bool) []string {
	out := []string{}
	for k, ok := range m {
		if ok {
			out = append(out, k)
		}
	}
	sort.Strings(out)
	return out
}

func rsRowCols(im *rsIndexModel, res interface{}) string {
	row, ok := res.(*pilosa.Row)
	if !ok {
		return fmt.Sprintf("not a row: %T", res)
	}
	out := []string{}
	if im.keys {
		out = append(out, row.Keys...)
	} else {
		for _, c := range row.Columns() {
			out = append(out, strconv.FormatUint(c, 10))
		}
	}
	sort.Strings(out)
	return fmt.Sprint(out)
}

func rsJSON(v interface{}) string {
	b, _ := json.Marshal(v)
	return string(b)
}

// ---------------------------------------------------------------- battery

type rsQuery struct {
	kind    string
	idx     string
	q       string
	shards  []uint64 // restrict the query to these shards (nil: all)
	extract func(pilosa.QueryResponse) string
	want    string
	decided bool
}

func (r *rsRun) rowPoolAll(fm *rsFieldModel) []string {
	if fm.spec.Type != "bool" && fm.spec.Keys {
		return append(append([]string{}, rsRowKeys...), rsRowKeysImport...)
	}
	return r.rowPool(fm)
}

func (r *rsRun) rowPool(fm *rsFieldModel) []string {
	s := fm.spec
	if s.Type == "bool" {
		return []string{"false", "true"}
	}
	if s.Keys {
		return rsRowKeys
	}
	out := []string{}
	for _, id := range rsRowIDs {
		out = append(out, strconv.FormatUint(id, 10))
	}
	return out
}

func (r *rsRun) colPool(im *rsIndexModel) []string {
	if im.keys {
		return rsColKeys
	}
	out := []string{}
	for _, id := range rsColIDs {
		out = append(out, strconv.FormatUint(id, 10))
	}
	return out
}

func rsIntPool(s *rsFieldSpec, fm *rsFieldModel) []int64 {
	cand := []int64{s.Min, s.Max, 0, 1, -1, s.Min + 1, s.Max - 1, s.Min/2 + s.Max/2, 7, -8, 255, 256, -255, -256}
	if fm != nil {
		vs := []int64{}
		for _, v := range fm.vals {
			vs = append(vs, v)
		}
		sort.Slice(vs, func(i, j int) bool { return vs[i] < vs[j] })
		if len(vs) > 4 {
			vs = append(vs[:2], vs[len(vs)-2:]...)
		}
		cand = append(cand, vs...)
	}
	seen := map[int64]bool{}
	out := []int64{}
	for _, v := range cand {
		if v >= s.Min && v <= s.Max && !seen[v] {
			seen[v] = true
			out = append(out, v)
		}
	}
	return out
}

// rowWant returns the model's columns of Row(f=row) (no time range).
func rsRowWant(fm *rsFieldModel, row string) map[string]bool {
	if fm.spec.Type == "time" && fm.spec.NoStd {
		out := map[string]bool{}
		for c, ts := range fm.tbits[row] {
			if len(ts) > 0 {
				out[c] = true
			}
		}
		return out
	}
	return fm.bits[row]
}

func (r *rsRun) battery(rng *rand.Rand) []rsQuery {
	qs := []rsQuery{}
	m := r.m
	for _, in := range m.order {
		im := m.idx[in]
		cols := r.colPool(im)
		var firstSet *rsFieldModel
		setLike := []*rsFieldModel{}
		for _, fn := range im.order {
			fm := im.fields[fn]
			if fm.spec.setLike() {
				setLike = append(setLike, fm)
				if firstSet == nil && fm.spec.Type == "set" {
					firstSet = fm
				}
			}
		}
		for _, fn := range im.order {
			fm := im.fields[fn]
			s := fm.spec
			if s.setLike() {
				rows := r.rowPool(fm)
				for _, row := range rows {
					row := row
					lit := rsRowLit(s, row)
					want := rsRowWant(fm, row)
					kind := "row"
					if s.Type == "time" {
						kind = "time-standard"
					}
					// without a standard view Row() reads a range derived from the existing time views: not modelled
					qs = append(qs, rsQuery{kind: kind, idx: in, q: fmt.Sprintf("Row(%s=%s)", fn, lit), decided: !(s.Type == "time" && s.NoStd), want: fmt.Sprint(rsSortedKeys(want)),
						extract: func(resp pilosa.QueryResponse) string { return rsRowCols(im, resp.Results[0]) }})
					wa := fm.rowAttrs[row]
					if wa == nil {
						wa = map[string]interface{}{}
					}
					qs = append(qs, rsQuery{kind: "row-attrs", idx: in, q: fmt.Sprintf("Options(Row(%s=%s), excludeColumns=true)", fn, lit), decided: true, want: rsJSON(wa),
						extract: func(resp pilosa.QueryResponse) string {
							if row, ok := resp.Results[0].(*pilosa.Row); ok {
								if row.Attrs == nil {
									return "{}"
								}
								return rsJSON(row.Attrs)
							}
							return "not a row"
						}})
				}
				for k := 0; k < 2; k++ {
					row := rows[rng.Intn(len(rows))]
					qs = append(qs, rsQuery{kind: "count", idx: in, q: fmt.Sprintf("Count(Row(%s=%s))", fn, rsRowLit(s, row)), decided: !(s.Type == "time" && s.NoStd), want: fmt.Sprint(len(rsSortedKeys(rsRowWant(fm, row)))),
						extract: func(resp pilosa.QueryResponse) string { return fmt.Sprint(resp.Results[0]) }})
					// column attributes of the columns of one row
					wantCA := []string{}
					for _, c := range rsSortedKeys(rsRowWant(fm, row)) {
						if a := im.colAttrs[c]; len(a) > 0 {
							wantCA = append(wantCA, c+"="+rsJSON(a))
						}
					}
					sort.Strings(wantCA)
					qs = append(qs, rsQuery{kind: "column-attrs", idx: in, q: fmt.Sprintf("Options(Row(%s=%s), columnAttrs=true)", fn, rsRowLit(s, row)), decided: !(s.Type == "time" && s.NoStd), want: fmt.Sprint(wantCA),
						extract: func(resp pilosa.QueryResponse) string {
							out := []string{}
							for _, cas := range resp.ColumnAttrSets {
								if len(cas.Attrs) == 0 {
									continue
								}
								id := strconv.FormatUint(cas.ID, 10)
								if im.keys {
									id = cas.Key
								}
								out = append(out, id+"="+rsJSON(cas.Attrs))
							}
							sort.Strings(out)
							return fmt.Sprint(out)
						}})
					if im.track {
						qs = append(qs, rsQuery{kind: "not", idx: in, q: fmt.Sprintf("Not(Row(%s=%s))", fn, rsRowLit(s, row))})
					}
				}
				qs = append(qs, rsQuery{kind: "topn", idx: in, q: fmt.Sprintf("TopN(%s)", fn)})
				// TopN(n) over several shards is approximate and depends on the order of
				// equal-count rows inside each shard's cache (differs from run to run even
				// without a restart): ask one shard at a time
				qs = append(qs, rsQuery{kind: "topn", idx: in, q: fmt.Sprintf("TopN(%s, n=2)", fn), shards: []uint64{0}})
				qs = append(qs, rsQuery{kind: "topn", idx: in, q: fmt.Sprintf("TopN(%s, n=2)", fn), shards: []uint64{1}})
				// Rows
				if !(s.Type == "time" && s.NoStd) && s.Type != "bool" { // Rows() refuses bool fields
					wantRows := []string{}
					for _, row := range r.rowPoolAll(fm) {
						if len(rsSortedKeys(fm.bits[row])) > 0 {
							if s.Type == "bool" {
								wantRows = append(wantRows, map[string]string{"false": "0", "true": "1"}[row])
							} else {
								wantRows = append(wantRows, row)
							}
						}
					}
					sort.Strings(wantRows)
					extractRows := func(resp pilosa.QueryResponse) string {
						ri, ok := resp.Results[0].(pilosa.RowIdentifiers)
						if !ok {
							return fmt.Sprintf("not row identifiers: %T", resp.Results[0])
						}
						out := []string{}
						if s.Keys {
							out = append(out, ri.Keys...)
						} else {
							for _, id := range ri.Rows {
								out = append(out, strconv.FormatUint(id, 10))
							}
						}
						sort.Strings(out)
						return fmt.Sprint(out)
					}
					qs = append(qs, rsQuery{kind: "rows", idx: in, q: fmt.Sprintf("Rows(%s)", fn), decided: true, want: fmt.Sprint(wantRows), extract: extractRows})
					c := cols[rng.Intn(len(cols))]
					wantRC := []string{}
					for _, row := range r.rowPoolAll(fm) {
						if fm.bits[row][c] {
							if s.Type == "bool" {
								wantRC = append(wantRC, map[string]string{"false": "0", "true": "1"}[row])
							} else {
								wantRC = append(wantRC, row)
							}
						}
					}
					sort.Strings(wantRC)
					qs = append(qs, rsQuery{kind: "rows-column", idx: in, q: fmt.Sprintf("Rows(%s, column=%s)", fn, r.colLit(im, c)), decided: true, want: fmt.Sprint(wantRC), extract: extractRows})
				} else {
					qs = append(qs, rsQuery{kind: "rows", idx: in, q: fmt.Sprintf("Rows(%s)", fn)})
				}
				if s.Type == "time" {
					rows3 := rows
					if len(rows3) > 3 {
						rows3 = rows3[:3]
					}
					for _, row := range rows3 {
						// whole-year ranges: exact for every quantum
						for _, yr := range [][2]int{{2017, 2018}, {2018, 2019}, {2016, 2020}} {
							a := time.Date(yr[0], 1, 1, 0, 0, 0, 0, time.UTC)
							b := time.Date(yr[1], 1, 1, 0, 0, 0, 0, time.UTC)
							want := map[string]bool{}
							for c, ts := range fm.tbits[row] {
								for t0 := range ts {
									if t0 >= a.Unix() && t0 < b.Unix() {
										want[c] = true
									}
								}
							}
							qs = append(qs, rsQuery{kind: "time-range", idx: in, q: fmt.Sprintf("Row(%s=%s, from=%s, to=%s)", fn, rsRowLit(s, row), a.Format("2006-01-02T15:04"), b.Format("2006-01-02T15:04")),
								decided: true, want: fmt.Sprint(rsSortedKeys(want)), extract: func(resp pilosa.QueryResponse) string { return rsRowCols(im, resp.Results[0]) }})
						}
						for k := 0; k < 2; k++ {
							a, b := rsTimes[rng.Intn(len(rsTimes))], rsTimes[rng.Intn(len(rsTimes))]
							if b.Before(a) {
								a, b = b, a
							}
							b = b.Add(time.Hour)
							qs = append(qs, rsQuery{kind: "time-range", idx: in, q: fmt.Sprintf("Row(%s=%s, from=%s, to=%s)", fn, rsRowLit(s, row), a.Format("2006-01-02T15:04"), b.Format("2006-01-02T15:04"))})
						}
					}
				}
				continue
			}
			// ---- int field
			notNull := map[string]bool{}
			var sum, mn, mx int64
			var cnt, nmin, nmax int64
			for c, v := range fm.vals {
				notNull[c] = true
				sum += v
				if cnt == 0 || v < mn {
					mn, nmin = v, 0
				}
				if cnt == 0 || v > mx {
					mx, nmax = v, 0
				}
				if v == mn {
					nmin++
				}
				if v == mx {
					nmax++
				}
				cnt++
			}
			vc := func(resp pilosa.QueryResponse) string { return fmt.Sprintf("%+v", resp.Results[0]) }
			qs = append(qs, rsQuery{kind: "int-sum", idx: in, q: fmt.Sprintf("Sum(field=%s)", fn), decided: true, want: fmt.Sprintf("%+v", pilosa.ValCount{Val: sum, Count: cnt}), extract: vc})
			qs = append(qs, rsQuery{kind: "int-min", idx: in, q: fmt.Sprintf("Min(field=%s)", fn), decided: cnt > 0, want: fmt.Sprintf("%+v", pilosa.ValCount{Val: mn, Count: nmin}), extract: vc})
			qs = append(qs, rsQuery{kind: "int-max", idx: in, q: fmt.Sprintf("Max(field=%s)", fn), decided: cnt > 0, want: fmt.Sprintf("%+v", pilosa.ValCount{Val: mx, Count: nmax}), extract: vc})
			if firstSet != nil {
				rows := r.rowPool(firstSet)
				row := rows[rng.Intn(len(rows))]
				var fs, fc int64
				for c, v := range fm.vals {
					if firstSet.bits[row][c] {
						fs += v
						fc++
					}
				}
				qs = append(qs, rsQuery{kind: "int-sum", idx: in, q: fmt.Sprintf("Sum(Row(%s=%s), field=%s)", firstSet.spec.Name, rsRowLit(firstSet.spec, row), fn), decided: true,
					want: fmt.Sprintf("%+v", pilosa.ValCount{Val: fs, Count: fc}), extract: vc})
			}
			rc := func(resp pilosa.QueryResponse) string { return rsRowCols(im, resp.Results[0]) }
			qs = append(qs, rsQuery{kind: "int-notnull", idx: in, q: fmt.Sprintf("Row(%s != null)", fn), decided: true, want: fmt.Sprint(rsSortedKeys(notNull)), extract: rc})
			pool := rsIntPool(s, fm)
			ops := []struct {
				op string
				f  func(v, p int64) bool
			}{{"==", func(v, p int64) bool { return v == p }}, {"!=", func(v, p int64) bool { return v != p }}, {"<", func(v, p int64) bool { return v < p }},
				{"<=", func(v, p int64) bool { return v <= p }}, {">", func(v, p int64) bool { return v > p }}, {">=", func(v, p int64) bool { return v >= p }}}
			for _, p := range pool {
				for _, o := range ops {
					want := map[string]bool{}
					for c, v := range fm.vals {
						if o.f(v, p) {
							want[c] = true
						}
					}
					qs = append(qs, rsQuery{kind: "int-cond", idx: in, q: fmt.Sprintf("Row(%s %s %d)", fn, o.op, p), decided: true, want: fmt.Sprint(rsSortedKeys(want)), extract: rc})
				}
			}
			for k := 0; k < 3 && len(pool) > 0; k++ {
				lo, hi := pool[rng.Intn(len(pool))], pool[rng.Intn(len(pool))]
				if lo > hi {
					lo, hi = hi, lo
				}
				want := map[string]bool{}
				for c, v := range fm.vals {
					if lo <= v && v <= hi {
						want[c] = true
					}
				}
				qs = append(qs, rsQuery{kind: "int-between", idx: in, q: fmt.Sprintf("Row(%s >< [%d,%d])", fn, lo, hi), decided: true, want: fmt.Sprint(rsSortedKeys(want)), extract: rc})
			}
			// predicates outside [min,max]: only before/after
			if s.Min > -(1<<62) && s.Max < 1<<62 {
				qs = append(qs, rsQuery{kind: "int-cond", idx: in, q: fmt.Sprintf("Row(%s > %d)", fn, s.Min-1)})
				qs = append(qs, rsQuery{kind: "int-cond", idx: in, q: fmt.Sprintf("Row(%s < %d)", fn, s.Max+1)})
			}
		}
		// GroupBy over the first pairs of set-like fields with a standard view
		gb := []*rsFieldModel{}
		for _, fm := range setLike {
			if !(fm.spec.Type == "time" && fm.spec.NoStd) {
				gb = append(gb, fm)
			}
		}
		for i := 0; i+1 < len(gb) && i < 3; i++ {
			qs = append(qs, rsQuery{kind: "groupby", idx: in, q: fmt.Sprintf("GroupBy(Rows(%s), Rows(%s))", gb[i].spec.Name, gb[i+1].spec.Name)})
		}
	}
	// deleted things must stay deleted
	for _, g := range m.ghostF {
		if im := m.idx[g[0]]; im != nil && im.fields[g[1]] == nil {
			qs = append(qs, rsQuery{kind: "deleted-field", idx: g[0], q: fmt.Sprintf("Row(%s=1)", g[1])})
			qs = append(qs, rsQuery{kind: "deleted-field", idx: g[0], q: fmt.Sprintf("Sum(field=%s)", g[1])})
		}
	}
	for _, g := range m.ghostI {
		if m.idx[g] == nil {
			qs = append(qs, rsQuery{kind: "deleted-index", idx: g, q: "Row(f=1)"})
		}
	}
	return qs
}

// snapshot records the schema, the shards with data and every battery answer.
func (r *rsRun) snapshot(qs []rsQuery) []rsSnapEntry {
	ctx := context.Background()
	out := []rsSnapEntry{}
	var schema []*pilosa.IndexInfo
	var shards map[string]*roaring.Bitmap
	_ = r.guard("schema", func() error {
		schema = r.cmd.API.Schema(ctx)
		shards = r.cmd.API.AvailableShardsByIndex(ctx)
		return nil
	})
	// creation options (everything but the internal base / bit depth of int fields)
	core := []string{}
	base := []string{}
	csize := []string{}
	for _, ii := range schema {
		core = append(core, fmt.Sprintf("index %s %+v shardWidth=%d", ii.Name, ii.Options, ii.ShardWidth))
		for _, f := range ii.Fields {
			o := f.Options
			if o.Type == pilosa.FieldTypeInt {
				base = append(base, fmt.Sprintf("%s/%s base=%d", ii.Name, f.Name, o.Base))
			}
			csize = append(csize, fmt.Sprintf("%s/%s cacheType=%s cacheSize=%d", ii.Name, f.Name, o.CacheType, o.CacheSize))
			o.Base, o.BitDepth, o.CacheSize = 0, 0, 0
			core = append(core, fmt.Sprintf("field %s/%s %+v", ii.Name, f.Name, o))
		}
	}
	out = append(out, rsSnapEntry{kind: "schema", label: "API.Schema (creation options)", raw: strings.Join(core, "; ")})
	out = append(out, rsSnapEntry{kind: "schema-cache-size", label: "API.Schema (cache size)", raw: strings.Join(csize, "; ")})
	out = append(out, rsSnapEntry{kind: "schema-int-base", label: "API.Schema (base of int fields)", raw: strings.Join(base, "; ")})
	names := []string{}
	for n := range shards {
		names = append(names, n)
	}
	sort.Strings(names)
	sh := []string{}
	for _, n := range names {
		sh = append(sh, fmt.Sprintf("%s=%v", n, shards[n].Slice()))
	}
	out = append(out, rsSnapEntry{kind: "shards", label: "API.AvailableShardsByIndex", raw: strings.Join(sh, "; ")})
	for _, q := range qs {
		resp, err := r.pql(q.idx, q.q, q.shards...)
		lbl := q.idx + ": " + q.q
		if q.shards != nil {
			lbl += fmt.Sprintf(" shards=%v", q.shards)
		}
		e := rsSnapEntry{kind: q.kind, label: lbl, raw: rsRaw(resp, err), decided: q.decided, want: q.want}
		if q.decided {
			if err != nil {
				e.got = "error: " + err.Error()
			} else if len(resp.Results) == 0 {
				e.got = "no result"
			} else {
				q := q
				_ = r.guard("extract", func() error { e.got = q.extract(resp); return nil })
			}
		}
		out = append(out, e)
	}
	return out
}

func (r *rsRun) compare(when string, before, after []rsSnapEntry) {
	if len(before) != len(after) {
		r.t.Fatalf("snapshot length mismatch %d vs %d", len(before), len(after))
	}
	for i := range before {
		r.evals++
		if before[i].raw != after[i].raw {
			b, a := before[i].raw, after[i].raw
			if bp, ap := strings.Split(b, "; "), strings.Split(a, "; "); len(bp) == len(ap) && len(bp) > 1 {
				// show only the differing elements of a list answer
				bd, ad := []string{}, []string{}
				for k := range bp {
					if bp[k] != ap[k] {
						bd, ad = append(bd, bp[k]), append(ad, ap[k])
					}
				}
				b, a = strings.Join(bd, "; "), strings.Join(ad, "; ")
			}
			r.fail("restart:"+before[i].kind, fmt.Sprintf("%s: %s answered %s before and %s after", when, before[i].label, rsShort(b), rsShort(a)))
		}
	}
}

// ---------------------------------------------------------------- random generation

func (m *rsModel) newName(prefix string) string {
	m.nameN++
	return fmt.Sprintf("%s%d", prefix, m.nameN)
}

func rsRandFieldSpec(rng *rand.Rand, name string, typ string) *rsFieldSpec {
	s := &rsFieldSpec{Name: name, Type: typ}
	cacheTypes := []string{pilosa.CacheTypeRanked, pilosa.CacheTypeLRU, pilosa.CacheTypeNone}
	cacheSizes := []uint32{0, 1, 3, 8, 100, 50000}
	switch typ {
	case "set", "mutex":
		s.CacheType = cacheTypes[rng.Intn(3)]
		s.CacheSize = cacheSizes[rng.Intn(len(cacheSizes))]
		s.Keys = rng.Intn(3) == 0
	case "int":
		b := rsBounds[rng.Intn(len(rsBounds))]
		s.Min, s.Max = b[0], b[1]
	case "time":
		s.Quantum = rsQuanta[rng.Intn(len(rsQuanta))]
		s.NoStd = rng.Intn(3) == 0
		s.Keys = rng.Intn(4) == 0
	}
	return s
}

var rsTypes = []string{"set", "int", "time", "mutex", "bool", "int", "set", "time"}

func (r *rsRun) genSchema(rng *rand.Rand) []*rsOp {
	ops := []*rsOp{}
	n := 1 + rng.Intn(2)
	for i := 0; i < n; i++ {
		in := r.m.newName("i")
		ops = append(ops, &rsOp{Kind: "createIndex", Idx: in, ISpec: &rsIndexModel{keys: rng.Intn(3) == 0, track: rng.Intn(2) == 0}})
		perm := rng.Perm(len(rsTypes))
		nf := 4 + rng.Intn(4)
		for k := 0; k < nf; k++ {
			ops = append(ops, &rsOp{Kind: "createField", Idx: in, FSpec: rsRandFieldSpec(rng, r.m.newName("f"), rsTypes[perm[k]])})
		}
	}
	return ops
}

func rsRandAttrs(rng *rand.Rand) map[string]interface{} {
	a := map[string]interface{}{}
	n := 1 + rng.Intn(2)
	for i := 0; i < n; i++ {
		k := []string{"x", "y", "z"}[rng.Intn(3)]
		switch rng.Intn(6) {
		case 0:
			a[k] = int64(rng.Intn(5) - 2)
		case 1:
			a[k] = []string{"", "s", "hello, world"}[rng.Intn(3)]
		case 2:
			a[k] = rng.Intn(2) == 0
		case 3:
			a[k] = 1.5
		case 4:
			a[k] = nil
		default:
			a[k] = int64(1) << 40
		}
	}
	return a
}

// rsRandAttrsOver is rsRandAttrs, except that one time in three an id that has
// attributes loses all of them (every present key set to null).
func rsRandAttrsOver(rng *rand.Rand, have map[string]interface{}) map[string]interface{} {
	if len(have) > 0 && rng.Intn(3) == 0 {
		a := map[string]interface{}{}
		for k := range have {
			a[k] = nil
		}
		return a
	}
	return rsRandAttrs(rng)
}

func rsRandVal(rng *rand.Rand, s *rsFieldSpec) int64 {
	pool := rsIntPool(s, nil)
	switch rng.Intn(8) {
	case 0:
		if s.Max < 1<<62 {
			return s.Max + 1 // refused
		}
	case 1:
		if s.Max-s.Min > 0 && s.Max-s.Min < 1<<40 {
			return s.Min + rng.Int63n(s.Max-s.Min+1)
		}
	case 2:
		if s.Min <= 0 && s.Max >= 0 {
			return 0
		}
	}
	return pool[rng.Intn(len(pool))]
}

// genOp produces one random operation valid for the current model (nil: retry).
func (r *rsRun) genOp(rng *rand.Rand) *rsOp {
	m := r.m
	if len(m.order) == 0 {
		in := m.newName("i")
		return &rsOp{Kind: "createIndex", Idx: in, ISpec: &rsIndexModel{keys: rng.Intn(2) == 0, track: rng.Intn(2) == 0}}
	}
	in := m.order[rng.Intn(len(m.order))]
	im := m.idx[in]
	cols := r.colPool(im)
	col := cols[rng.Intn(len(cols))]
	pick := func(pred func(*rsFieldSpec) bool) *rsFieldModel {
		c := []*rsFieldModel{}
		for _, fn := range im.order {
			if pred(im.fields[fn].spec) {
				c = append(c, im.fields[fn])
			}
		}
		if len(c) == 0 {
			return nil
		}
		return c[rng.Intn(len(c))]
	}
	randRow := func(fm *rsFieldModel) string {
		p := r.rowPool(fm)
		return p[rng.Intn(len(p))]
	}
	x := rng.Intn(100)
	switch {
	case x < 28:
		fm := pick(func(s *rsFieldSpec) bool { return s.setLike() })
		if fm == nil {
			return nil
		}
		return &rsOp{Kind: "set", Idx: in, Fld: fm.spec.Name, Col: col, Row: randRow(fm)}
	case x < 36:
		fm := pick(func(s *rsFieldSpec) bool { return s.setLike() })
		if fm == nil {
			return nil
		}
		return &rsOp{Kind: "clear", Idx: in, Fld: fm.spec.Name, Col: col, Row: randRow(fm)}
	case x < 48:
		fm := pick(func(s *rsFieldSpec) bool { return s.Type == "time" && s.Quantum != "" })
		if fm == nil {
			return nil
		}
		return &rsOp{Kind: "set", Idx: in, Fld: fm.spec.Name, Col: col, Row: randRow(fm), TS: rsTimes[rng.Intn(len(rsTimes))].Unix()}
	case x < 64:
		fm := pick(func(s *rsFieldSpec) bool { return s.Type == "int" })
		if fm == nil {
			return nil
		}
		return &rsOp{Kind: "setval", Idx: in, Fld: fm.spec.Name, Col: col, Val: rsRandVal(rng, fm.spec)}
	case x < 67:
		fm := pick(func(s *rsFieldSpec) bool { return s.Type == "set" || s.Type == "mutex" || s.Type == "bool" })
		if fm == nil {
			return nil
		}
		return &rsOp{Kind: "clearrow", Idx: in, Fld: fm.spec.Name, Row: randRow(fm)}
	case x < 70:
		// Store() with a row key panics the executor (not a restart matter): ids only
		fm := pick(func(s *rsFieldSpec) bool { return s.Type == "set" && !s.Keys })
		if fm == nil {
			return nil
		}
		return &rsOp{Kind: "store", Idx: in, Fld: fm.spec.Name, Row: randRow(fm), Row2: randRow(fm)}
	case x < 75:
		fm := pick(func(s *rsFieldSpec) bool { return s.setLike() && s.Type != "bool" })
		if fm == nil {
			return nil
		}
		row := randRow(fm)
		return &rsOp{Kind: "rowattrs", Idx: in, Fld: fm.spec.Name, Row: row, Attrs: rsRandAttrsOver(rng, fm.rowAttrs[row])}
	case x < 80:
		return &rsOp{Kind: "colattrs", Idx: in, Col: col, Attrs: rsRandAttrsOver(rng, m.idx[in].colAttrs[col])}
	case x < 85:
		fm := pick(func(s *rsFieldSpec) bool { return s.Type == "set" || (s.Type == "time" && s.Quantum != "") })
		if fm == nil {
			return nil
		}
		o := &rsOp{Kind: "import", Idx: in, Fld: fm.spec.Name}
		n := 1 + rng.Intn(12)
		for i := 0; i < n; i++ {
			b := rsBit{Row: randRow(fm), Col: cols[rng.Intn(len(cols))]}
			if im.keys && rng.Intn(4) == 0 {
				b.Col = rsColKeysImport[rng.Intn(len(rsColKeysImport))]
			}
			if fm.spec.Keys && rng.Intn(4) == 0 {
				b.Row = rsRowKeysImport[rng.Intn(len(rsRowKeysImport))]
			}
			if fm.spec.Type == "time" && rng.Intn(3) > 0 {
				b.TS = rsTimes[rng.Intn(len(rsTimes))].Unix()
			}
			o.Bits = append(o.Bits, b)
		}
		return o
	case x < 89:
		fm := pick(func(s *rsFieldSpec) bool { return s.Type == "int" })
		if fm == nil {
			return nil
		}
		o := &rsOp{Kind: "importvalue", Idx: in, Fld: fm.spec.Name}
		n := 1 + rng.Intn(8)
		pool := rsIntPool(fm.spec, nil)
		seen := map[string]bool{}
		for i := 0; i < n; i++ {
			c := cols[rng.Intn(len(cols))]
			if im.keys && rng.Intn(4) == 0 {
				c = rsColKeysImport[rng.Intn(len(rsColKeysImport))]
			}
			if seen[c] {
				continue
			}
			seen[c] = true
			o.Bits = append(o.Bits, rsBit{Col: c, Val: pool[rng.Intn(len(pool))]})
		}
		return o
	case x < 92:
		if im.keys {
			return nil
		}
		fm := pick(func(s *rsFieldSpec) bool { return s.Type == "set" && !s.Keys })
		if fm == nil {
			return nil
		}
		o := &rsOp{Kind: "importroaring", Idx: in, Fld: fm.spec.Name}
		n := 1 + rng.Intn(12)
		for i := 0; i < n; i++ {
			o.Bits = append(o.Bits, rsBit{Row: randRow(fm), Col: cols[rng.Intn(len(cols))]})
		}
		return o
	case x < 95:
		// delete a field; the next op often re-creates it with other options
		if len(im.order) == 0 {
			return nil
		}
		return &rsOp{Kind: "deleteField", Idx: in, Fld: im.order[rng.Intn(len(im.order))]}
	case x < 97:
		// (re-)create a field, preferably under a deleted name
		name := m.newName("f")
		for _, g := range m.ghostF {
			if g[0] == in && im.fields[g[1]] == nil && rng.Intn(2) == 0 {
				name = g[1]
			}
		}
		return &rsOp{Kind: "createField", Idx: in, FSpec: rsRandFieldSpec(rng, name, rsTypes[rng.Intn(len(rsTypes))])}
	case x < 98:
		if im.track && rng.Intn(2) == 0 {
			return &rsOp{Kind: "deleteField", Idx: in, Fld: "_exists"}
		}
		return nil
	case x < 99:
		return &rsOp{Kind: "deleteIndex", Idx: in}
	default:
		// (re-)create an index, preferably under a deleted name, with other options
		name := m.newName("i")
		for _, g := range m.ghostI {
			if m.idx[g] == nil {
				name = g
			}
		}
		return &rsOp{Kind: "createIndex", Idx: name, ISpec: &rsIndexModel{keys: rng.Intn(2) == 0, track: rng.Intn(2) == 0}}
	}
}

// ---------------------------------------------------------------- cases

type rsCase struct {
	name   string
	phaseA []*rsOp // scripted when non-nil
	phaseB []*rsOp
	nA, nB int // random op counts
	seed   int64
}

// runCase executes the case; restart=false is the control replay (no Reopen).
// It returns the S3 snapshot (after phase B) for the control comparison.
func (r *rsRun) runCase(c *rsCase, restart bool) []rsSnapEntry {
	r.cmd = test.MustRunCommand()
	defer func() {
		_ = r.guard("close", func() error { return r.cmd.Close() })
	}()
	r.m = newRsModel()
	r.seq = []string{"case " + c.name}
	rng := rand.New(rand.NewSource(c.seed))
	qrng := rand.New(rand.NewSource(c.seed + 7))
	ctx := context.Background()
	reopen := func(what string) bool {
		if !restart {
			return true
		}
		r.seq = append(r.seq, what)
		if err := r.guard("reopen", func() error { return r.cmd.Reopen() }); err != nil {
			r.fail("reopen-error", fmt.Sprintf("%s failed: %v", what, err))
			return false
		}
		return true
	}
	phase := func(scripted []*rsOp, n int) {
		if scripted != nil {
			for _, o := range scripted {
				cp := *o
				r.apply(&cp)
			}
			return
		}
		for i := 0; i < n; {
			o := r.genOp(rng)
			if o == nil {
				continue
			}
			if o.Kind == "createField" && r.m.idx[o.Idx].fields[o.FSpec.Name] != nil {
				continue
			}
			r.apply(o)
			i++
		}
	}
	// ---- phase A
	if c.phaseA == nil {
		for _, o := range r.genSchema(rng) {
			r.apply(o)
		}
	}
	phase(c.phaseA, c.nA)
	_ = r.guard("recalculate", func() error { return r.cmd.API.RecalculateCaches(ctx) })
	qs := r.battery(qrng)
	s1 := r.snapshot(qs)
	if restart {
		for _, e := range s1 {
			if e.decided && e.got != e.want {
				r.note(e.kind, fmt.Sprintf("before any restart the model and the server disagree on %s [%s, %s] (not a C08 matter): got %s, model %s", e.kind, c.name, e.label, rsShort(e.got), rsShort(e.want)))
			}
		}
		if !reopen("Reopen()") {
			return nil
		}
		s2 := r.snapshot(qs)
		r.compare("first restart", s1, s2)
	}
	// ---- phase B: writes after the restart
	phase(c.phaseB, c.nB)
	_ = r.guard("recalculate", func() error { return r.cmd.API.RecalculateCaches(ctx) })
	qs3 := r.battery(qrng)
	s3 := r.snapshot(qs3)
	if !restart {
		return s3
	}
	// model check of S3; a mismatch counts only if a never-restarted replay agrees with the model
	var control []rsSnapEntry
	for i, e := range s3 {
		if !e.decided {
			continue
		}
		r.evals++
		if e.got == e.want {
			continue
		}
		if control == nil {
			cr := &rsRun{t: r.t, res: r.res, quiet: true, noted: r.noted}
			control = cr.runCase(c, false)
			if len(control) != len(s3) {
				r.t.Fatalf("control replay produced %d answers, want %d", len(control), len(s3))
			}
		}
		if control[i].got == control[i].want {
			r.fail("write-after-restart:"+e.kind, fmt.Sprintf("%s = %s after restart + later writes, model (and a never-restarted replay) %s", e.label, rsShort(e.got), rsShort(e.want)))
		} else {
			r.note(e.kind, fmt.Sprintf("model and server disagree on %s [%s, %s] even without a restart (not a C08 matter): got %s, model %s", e.kind, c.name, e.label, rsShort(control[i].got), rsShort(e.want)))
		}
	}
	// ---- two restarts in a row
	if !reopen("Reopen()") || !reopen("Reopen() again") {
		return s3
	}
	s4 := r.snapshot(qs3)
	r.compare("two restarts in a row", s3, s4)
	return s3
}

func rsScripted() []*rsCase {
	ix := func(name string, keys, track bool) *rsOp {
		return &rsOp{Kind: "createIndex", Idx: name, ISpec: &rsIndexModel{keys: keys, track: track}}
	}
	intf := func(idx, name string, min, max int64) *rsOp {
		return &rsOp{Kind: "createField", Idx: idx, FSpec: &rsFieldSpec{Name: name, Type: "int", Min: min, Max: max}}
	}
	setv := func(idx, f, col string, v int64) *rsOp {
		return &rsOp{Kind: "setval", Idx: idx, Fld: f, Col: col, Val: v}
	}
	cases := []*rsCase{}
	// int fields around zero, set through PQL
	a := []*rsOp{ix("i", false, true),
		&rsOp{Kind: "createField", Idx: "i", FSpec: &rsFieldSpec{Name: "s", Type: "set", CacheType: "ranked", CacheSize: 100}},
		&rsOp{Kind: "createField", Idx: "i", FSpec: &rsFieldSpec{Name: "nocache", Type: "set", CacheType: "none", CacheSize: 0}},
		&rsOp{Kind: "createField", Idx: "i", FSpec: &rsFieldSpec{Name: "mnocache", Type: "mutex", CacheType: "none", CacheSize: 0}},
		intf("i", "zero", -10, 10), intf("i", "neg", -20, -10), intf("i", "pos", 5, 100), intf("i", "one", 7, 7), intf("i", "empty", -100, -5), intf("i", "z", 0, 0), intf("i", "late", -10, 10),
		intf("i", "gone", -5, 5), setv("i", "gone", "1", 0), setv("i", "gone", "2", -5),
		&rsOp{Kind: "set", Idx: "i", Fld: "s", Col: "1", Row: "1"}, &rsOp{Kind: "set", Idx: "i", Fld: "s", Col: strconv.Itoa(rsSW + 1), Row: "1"},
		setv("i", "zero", "1", 0), setv("i", "zero", strconv.Itoa(rsSW+1), 0),
		setv("i", "neg", "1", -15), setv("i", "neg", "2", -20), setv("i", "neg", "3", -10),
		setv("i", "one", "3", 7), setv("i", "z", "1", 0),
		&rsOp{Kind: "deleteField", Idx: "i", Fld: "gone"},
	}
	b := []*rsOp{setv("i", "zero", "2", 5), setv("i", "zero", "3", -10), setv("i", "zero", "4", 10), setv("i", "pos", "2", 5), setv("i", "pos", "4", 100), setv("i", "pos", "5", 37),
		setv("i", "empty", "2", -5), setv("i", "empty", "3", -100), setv("i", "neg", "5", -11), setv("i", "late", "6", 0), setv("i", "late", "7", -3), setv("i", "one", "4", 7)}
	cases = append(cases, &rsCase{name: "scripted int fields around zero (PQL Set)", phaseA: a, phaseB: b})
	// the same through ImportValue on a keyed index
	iv := func(f string, cv ...interface{}) *rsOp {
		o := &rsOp{Kind: "importvalue", Idx: "k", Fld: f}
		for i := 0; i+1 < len(cv); i += 2 {
			o.Bits = append(o.Bits, rsBit{Col: cv[i].(string), Val: int64(cv[i+1].(int))})
		}
		return o
	}
	a2 := []*rsOp{ix("k", true, false), intf("k", "zero", -10, 10), intf("k", "neg", -1000, -1), intf("k", "pos", 1, 1<<33), intf("k", "wide", -(1 << 40), 1<<40),
		iv("zero", "a", 0, "b", 0, "c1", 0), iv("neg", "a", -1, "b", -1000), iv("wide", "a", 0)}
	b2 := []*rsOp{iv("zero", "k-ü", 10, "a", -10), iv("pos", "a", 1, "b", 2), iv("wide", "b", 1<<40, "c1", -(1 << 40)), iv("neg", "c1", -500)}
	cases = append(cases, &rsCase{name: "scripted int fields around zero (ImportValue, keyed index)", phaseA: a2, phaseB: b2})
	// a value import large enough for the bulk path (columns x (bit depth+1) >= MaxOpN),
	// sent twice (a client retry changes nothing), then ordinary writes to the same fragment
	bulk := &rsOp{Kind: "importvalue", Idx: "b", Fld: "bulk"}
	for c := 0; c < 520; c++ {
		bulk.Bits = append(bulk.Bits, rsBit{Col: strconv.Itoa(c), Val: int64(c*7919%200001 - 100000)})
	}
	a3 := []*rsOp{ix("b", false, true), intf("b", "bulk", -(1 << 20), 1<<20), bulk, bulk,
		setv("b", "bulk", "3", 777), setv("b", "bulk", "600", -5), setv("b", "bulk", "4", 0)}
	b3 := []*rsOp{setv("b", "bulk", "5", 12345), bulk, setv("b", "bulk", "6", -1), setv("b", "bulk", "601", 1<<20)}
	cases = append(cases, &rsCase{name: "scripted bulk ImportValue repeated, then ordinary writes", phaseA: a3, phaseB: b3})
	return cases
}

func TestRcheckRestart(t *testing.T) {
	seed := int64(1)
	if s := os.Getenv("VERIF_SEED"); s != "" {
		if v, err := strconv.ParseInt(s, 10, 64); err == nil {
			seed = v
		}
	}
	nCases, nA, nB := 6, 40, 20
	budget := 18 * time.Second
	if os.Getenv("VERIF_TIER") == "thorough" {
		nCases, nA, nB = 400, 70, 35
		budget = 8 * time.Minute
	}
	for _, y := range []int{2017, 2018} {
		for _, mo := range []time.Month{time.January, time.March} {
			for _, d := range []int{1, 31} {
				for _, h := range []int{0, 13} {
					rsTimes = append(rsTimes, time.Date(y, mo, d, h, 0, 0, 0, time.UTC))
				}
			}
		}
	}
	res := &rsResult{Harness: "restart", Failures: []rsFailure{}, Samples: []interface{}{},
		Rule: "a case = one history (schema ops + acknowledged writes, restart, more writes, two restarts) on a fresh data directory; every schema / shard / query answer recorded before a restart is compared with the answer after it, answers after post-restart writes are compared with a map model; a case is non-trivial when it contains at least one acknowledged write; distinct by operation sequence"}
	r := &rsRun{t: t, res: res, noted: map[string]bool{}}
	cases := rsScripted()
	for i := 0; i < nCases; i++ {
		cases = append(cases, &rsCase{name: fmt.Sprintf("random %d", i), nA: nA/2 + int((seed*31+int64(i)*17)%int64(nA)), nB: nB/2 + int((seed*13+int64(i)*7)%int64(nB)), seed: seed*1000003 + int64(i)})
	}
	start := time.Now()
	seen := map[string]bool{}
	ran := 0
	for _, c := range cases {
		if time.Since(start) > budget {
			break
		}
		if only := os.Getenv("RCHECK_CASE"); only != "" && only != c.name { // triage aid: run one case, full sequence
			continue
		}
		r.runCase(c, true)
		ran++
		key := strings.Join(r.seq, ";")
		if !seen[key] {
			seen[key] = true
			res.Distinct++
			if len(res.Samples) < 3 {
				s := r.seq
				if len(s) > 14 && os.Getenv("RCHECK_CASE") == "" {
					s = s[:14]
				}
				res.Samples = append(res.Samples, append([]string{}, s...))
			}
		}
	}
	res.Evaluations = r.evals
	res.Bound = fmt.Sprintf("%d cases run (3 scripted int-field cases + random): 1-2 indexes (keys on/off, trackExistence on/off), 4-7 fields per index of types set/mutex (cache ranked|lru|none, sizes 0,1,3,8,100,50000, keys on/off), int (bounds %v), time (quanta %q, noStandardView on/off, keys on/off), bool; columns %v or keys %q; rows %v or keys %q; %d time stamps; random phases of about %d and %d ops (Set/Clear/Set with time/int Set incl. refused values/ClearRow/Store/SetRowAttrs/SetColumnAttrs/Import/ImportValue/ImportRoaring/DeleteField/CreateField/DeleteIndex/CreateIndex/delete _exists); restarts via test.Command.Reopen; seed %d",
		ran, rsBounds, rsQuanta, rsColIDs, rsColKeys, rsRowIDs, rsRowKeys, len(rsTimes), nA, nB, seed)
	if out := os.Getenv("RCHECK_OUT"); out != "" {
		data, _ := json.MarshalIndent(res, "", " ")
		if err := os.WriteFile(out, data, 0o644); err != nil {
			t.Fatal(err)
		}
	}
	for _, f := range res.Failures {
		t.Logf("FAIL %v %s: %s", f.Props, f.Sig, f.What)
	}
	for _, n := range res.Notes {
		t.Logf("NOTE %s", n)
	}
}
