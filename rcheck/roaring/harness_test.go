package roaring

// BOUNDED stand-in (never counted as proved): model-based execution of the real
// roaring bitmap engine against a sorted-slice model of a set of uint64.
// Injected into package roaring with `go test -overlay`; results are written as
// JSON to $RCHECK_OUT.  Serves C01, C02, C03, C04, C05.
//
// Bound (the exact numbers are in the "bound" field of the result): sets of 1..3
// containers (1..6 for official-format inputs, 600..2100 in phase W) with keys
// from {0,1,2,3,0xFFFE,0xFFFF,0x10000,2^32,2^48-2,2^48-1}; container contents
// from 9 shape families (sparse edge values 0/1/63/64/4095/4096/65535, random
// medium arrays, strides around 4096 values and 2048 runs, ranges, full, full
// minus <= 3, "2 on 1 off" pairs around 2048 runs, long ranges around 4096,
// {0,65535}); 16 construction flavours (slice / B-tree, optimized, decoded from
// Pilosa bytes and left mapped, remapped, frozen, cloned, imported, decoded from
// hand-encoded official bytes, trimmed after optimize, result of a union).
//
//   phase A  every read path on every flavour, WriteTo/UnmarshalBinary round trip   (C01, C04)
//   phase B  24 set operations on (A,B,C) for all 9 encoding pairs, then isolation of
//            the derived values under source / derived mutation, remap and close     (C01, C03)
//   phase C  random mutation histories, all reads after every step, frozen / cloned
//            views, operation log with replay, snapshot and reopen                   (C02, C03, C05)
//   phase D  hand-encoded official-format bytes: decode (3x), unmodified input,
//            import set / clear with changed count and rowSet                        (C04)
//   specials array of exactly 4096 values, full containers, run cookie with 3/4/5
//            containers, 2^16 containers, value 2^64-1, Shift carry matrix, Flip up
//            to 2^64-1
//   phase W  histories on bitmaps wide enough to split B-tree nodes                  (C02)
//
// Oracle notes: Shift drops 2^64-1 (no successor); Min on an empty set only has to
// report "none"; rowSet entries equal to zero are ignored; the empty set is not fed
// to the official decoder (roaring_internal_test.go pins an error for a header with
// zero containers); official inputs live in front of 512 KiB of slack so that a
// decoder running past the end cannot corrupt the heap of the test process.

import (
	"bytes"
	"encoding/binary"
	"encoding/json"
	"fmt"
	"io/ioutil"
	"math/rand"
	"os"
	"runtime/debug"
	"sort"
	"strconv"
	"strings"
	"testing"
	"time"
)

type rkFailure struct {
	Props []string `json:"props"`
	What  string   `json:"what"`
	Sig   string   `json:"signature"`
	Seq   []string `json:"sequence"`
}

type rkResult struct {
	Harness     string        `json:"harness"`
	Bound       string        `json:"bound"`
	Evaluations int           `json:"evaluations"`
	Distinct    int           `json:"distinct_nontrivial"`
	Rule        string        `json:"rule"`
	Exhaustive  bool          `json:"exhaustive"`
	Samples     []interface{} `json:"samples"`
	Failures    []rkFailure   `json:"failures"`
}

type rkRun struct {
	t        *testing.T
	res      *rkResult
	rng      *rand.Rand
	seq      []string
	cover    map[string]bool
	coverOrd []string
	thorough bool
}

const rkMaxU = ^uint64(0)

func (r *rkRun) fail(props []string, sig, what string) {
	if len(what) > 600 {
		what = what[:600] + "..."
	}
	seq := append([]string{}, r.seq...)
	if len(seq) > 40 {
		seq = append(append([]string{}, seq[:4]...), append([]string{fmt.Sprintf("... (%d ops omitted) ...", len(seq)-34)}, seq[len(seq)-30:]...)...)
	}
	for i, f := range r.res.Failures {
		if f.Sig == sig {
			if len(r.seq) < len(f.Seq) { // keep the shortest reproduction
				r.res.Failures[i] = rkFailure{Props: props, What: what, Sig: sig, Seq: seq}
			}
			return
		}
	}
	r.res.Failures = append(r.res.Failures, rkFailure{Props: props, What: what, Sig: sig, Seq: seq})
}

// cmp counts one oracle comparison and records a failure when it does not hold.
func (r *rkRun) cmp(ok bool, props []string, sig string, what func() string) bool {
	r.res.Evaluations++
	if !ok {
		r.fail(props, sig, what())
	}
	return ok
}

// guard runs real code and turns a panic into a recorded failure.
func (r *rkRun) guard(props []string, where string, fn func()) (ok bool) {
	defer func() {
		if e := recover(); e != nil {
			r.fail(props, "panic-"+where, fmt.Sprintf("panic in %s: %v", where, e))
			ok = false
		}
	}()
	fn()
	return true
}

func (r *rkRun) hit(key string) {
	if !r.cover[key] {
		r.cover[key] = true
		r.coverOrd = append(r.coverOrd, key)
	}
}

func (r *rkRun) op(format string, a ...interface{}) { r.seq = append(r.seq, fmt.Sprintf(format, a...)) }

// ---------------------------------------------------------------- model

func rkLB(s []uint64, v uint64) int {
	return sort.Search(len(s), func(i int) bool { return s[i] >= v })
}
func rkHas(s []uint64, v uint64) bool {
	i := rkLB(s, v)
	return i < len(s) && s[i] == v
}
func rkNorm(vs []uint64) []uint64 {
	out := append([]uint64{}, vs...)
	sort.Slice(out, func(i, j int) bool { return out[i] < out[j] })
	n := 0
	for i, v := range out {
		if i == 0 || v != out[i-1] {
			out[n] = v
			n++
		}
	}
	return out[:n]
}
func rkCopy(s []uint64) []uint64 { return append([]uint64{}, s...) }
func rkEq(a, b []uint64) bool {
	if len(a) != len(b) {
		return false
	}
	for i := range a {
		if a[i] != b[i] {
			return false
		}
	}
	return true
}
func rkMerge(a, b []uint64, inA, inB, inBoth bool) []uint64 {
	out := make([]uint64, 0, len(a)+len(b))
	i, j := 0, 0
	for i < len(a) || j < len(b) {
		switch {
		case j >= len(b) || (i < len(a) && a[i] < b[j]):
			if inA {
				out = append(out, a[i])
			}
			i++
		case i >= len(a) || b[j] < a[i]:
			if inB {
				out = append(out, b[j])
			}
			j++
		default:
			if inBoth {
				out = append(out, a[i])
			}
			i++
			j++
		}
	}
	return out
}
func rkUnion(a, b []uint64) []uint64 { return rkMerge(a, b, true, true, true) }
func rkInter(a, b []uint64) []uint64 { return rkMerge(a, b, false, false, true) }
func rkDiff(a, b []uint64) []uint64  { return rkMerge(a, b, true, false, false) }
func rkXor(a, b []uint64) []uint64   { return rkMerge(a, b, true, true, false) }
func rkCountRange(s []uint64, a, b uint64) uint64 {
	if a >= b {
		return 0
	}
	return uint64(rkLB(s, b) - rkLB(s, a))
}
func rkSliceRange(s []uint64, a, b uint64) []uint64 {
	if a >= b {
		return nil
	}
	return s[rkLB(s, a):rkLB(s, b)]
}
func rkShift(s []uint64) []uint64 {
	out := make([]uint64, 0, len(s))
	for _, v := range s {
		if v != rkMaxU {
			out = append(out, v+1)
		}
	}
	return out
}

// rkFlip: complement inside the closed range [a,b] (b-a small), identity outside.
func rkFlip(s []uint64, a, b uint64) []uint64 {
	if a > b {
		return rkCopy(s)
	}
	var rng []uint64
	for v := a; ; v++ {
		rng = append(rng, v)
		if v == b {
			break
		}
	}
	return rkXor(s, rng)
}
func rkOffsetRange(s []uint64, off, start, end uint64) []uint64 {
	var out []uint64
	for _, v := range rkSliceRange(s, start, end) {
		out = append(out, off+(v-start))
	}
	return out
}
func rkShow(s []uint64) string {
	if len(s) <= 10 {
		return fmt.Sprintf("%v", s)
	}
	return fmt.Sprintf("[%d values: %v ... %v]", len(s), s[:5], s[len(s)-3:])
}

// rkFirstDiff describes the first position where got and want differ.
func rkFirstDiff(got, want []uint64) string {
	n := len(got)
	if len(want) < n {
		n = len(want)
	}
	for i := 0; i < n; i++ {
		if got[i] != want[i] {
			return fmt.Sprintf("first difference at index %d: got %d (key %d low %d), want %d (key %d low %d); got %s want %s", i, got[i], got[i]>>16, got[i]&0xFFFF, want[i], want[i]>>16, want[i]&0xFFFF, rkShow(got), rkShow(want))
		}
	}
	return fmt.Sprintf("lengths differ: got %s want %s", rkShow(got), rkShow(want))
}

// ---------------------------------------------------------------- generators

var rkEdgeLows = []uint16{0, 1, 2, 63, 64, 65, 4095, 4096, 4097, 32767, 32768, 65534, 65535}
var rkKeysAll = []uint64{0, 1, 2, 3, 0xFFFE, 0xFFFF, 0x10000, 1 << 32, maxContainerKey - 1, maxContainerKey}
var rkKeysOfficial = []uint64{0, 1, 2, 3, 0xFFFE, 0xFFFF}

const rkKinds = 9 // shape families of genLows

// genLows returns a sorted set of low 16-bit values of the given shape family.
func (r *rkRun) genLows(kind int) ([]uint16, string) {
	rng := r.rng
	var mark [65536]bool
	desc := ""
	pick := func() uint16 {
		if rng.Intn(2) == 0 {
			return rkEdgeLows[rng.Intn(len(rkEdgeLows))]
		}
		return uint16(rng.Intn(65536))
	}
	setRange := func(a, b int) {
		for v := a; v <= b && v < 65536; v++ {
			mark[v] = true
		}
	}
	switch kind {
	case 0: // sparse
		n := 1 + rng.Intn(6)
		for i := 0; i < n; i++ {
			mark[pick()] = true
		}
		desc = "sparse"
	case 1: // medium random array
		n := 50 + rng.Intn(400)
		for i := 0; i < n; i++ {
			mark[rng.Intn(65536)] = true
		}
		desc = fmt.Sprintf("random(%d)", n)
	case 2: // stride
		step := 2 + rng.Intn(2)
		counts := []int{4094, 4095, 4096, 4097, 4098, 5000, 2047, 2048, 2049}
		count := counts[rng.Intn(len(counts))]
		start := []int{0, 1, 65535 - step*(count-1)}[rng.Intn(3)]
		for i := 0; i < count; i++ {
			mark[start+i*step] = true
		}
		desc = fmt.Sprintf("stride(start=%d,step=%d,n=%d)", start, step, count)
	case 3: // ranges
		m := 1 + rng.Intn(4)
		pts := []int{}
		for i := 0; i < 2*m; i++ {
			pts = append(pts, int(pick()))
		}
		sort.Ints(pts)
		desc = "ranges"
		for i := 0; i < m; i++ {
			setRange(pts[2*i], pts[2*i+1])
			desc += fmt.Sprintf("[%d,%d]", pts[2*i], pts[2*i+1])
		}
	case 4: // full
		setRange(0, 65535)
		desc = "full"
	case 5: // full minus a few
		setRange(0, 65535)
		desc = "full-minus"
		k := 1 + rng.Intn(3)
		for i := 0; i < k; i++ {
			v := pick()
			mark[v] = false
			desc += fmt.Sprintf("{%d}", v)
		}
	case 6: // pairs: 2 on, 1 off, around the run threshold
		c := 2046 + rng.Intn(5)
		s := []int{0, 1, 7}[rng.Intn(3)]
		for i := 0; i < c; i++ {
			mark[s+3*i] = true
			mark[s+3*i+1] = true
		}
		desc = fmt.Sprintf("pairs(start=%d,runs=%d)", s, c)
	case 7: // long range around the array threshold
		ln := []int{4094, 4095, 4096, 4097, 9999, 30000}[rng.Intn(6)]
		s := []int{0, 1, 100, 65535 - ln}[rng.Intn(4)]
		setRange(s, s+ln)
		desc = fmt.Sprintf("range[%d,%d]", s, s+ln)
	default: // container edges
		mark[0] = true
		mark[65535] = true
		desc = "edges{0,65535}"
	}
	out := []uint16{}
	for v := 0; v < 65536; v++ {
		if mark[v] {
			out = append(out, uint16(v))
		}
	}
	if kind == 0 {
		desc = fmt.Sprintf("sparse%v", out)
	}
	return out, desc
}

type rkSet struct {
	vals []uint64
	desc string
}

// genSet builds a set over the given keys with the given shape kinds (-1 = random).
func (r *rkRun) genSet(keys []uint64, kinds []int) rkSet {
	var s rkSet
	parts := []string{}
	for i, k := range keys {
		kind := kinds[i]
		if kind < 0 {
			// weighted: sparse and ranges are cheap and boundary rich
			if r.thorough {
				kind = []int{0, 0, 1, 2, 3, 3, 4, 5, 6, 7, 8}[r.rng.Intn(11)]
			} else { // quick tier: the 65536-value shapes are expensive to read back
				kind = []int{0, 0, 0, 1, 1, 2, 2, 3, 3, 3, 4, 5, 6, 6, 7, 7, 8, 8}[r.rng.Intn(18)]
			}
		}
		lows, d := r.genLows(kind)
		for _, l := range lows {
			s.vals = append(s.vals, k<<16|uint64(l))
		}
		parts = append(parts, fmt.Sprintf("key %d: %s", k, d))
	}
	s.vals = rkNorm(s.vals)
	s.desc = "{" + strings.Join(parts, "; ") + "}"
	return s
}

func (r *rkRun) pickKeys(pool []uint64, n int) []uint64 {
	idx := r.rng.Perm(len(pool))[:n]
	sort.Ints(idx)
	out := []uint64{}
	for _, i := range idx {
		out = append(out, pool[i])
	}
	return out
}

// ---------------------------------------------------------------- official format encoder (RoaringFormatSpec)

// rkRunsOf returns the maximal runs (start,last) of a sorted set of low values.
func rkRunsOf(lows []uint16) [][2]uint16 {
	var out [][2]uint16
	for i, v := range lows {
		if i > 0 && lows[i-1]+1 == v && lows[i-1] != 65535 {
			out[len(out)-1][1] = v
		} else {
			out = append(out, [2]uint16{v, v})
		}
	}
	return out
}

// rkEncodeOfficial hand-encodes the set (keys < 2^16) in the official Roaring
// format. asRun[i] selects a run container for the i-th container; containers
// that are not runs are arrays when cardinality <= 4096 and bitsets otherwise,
// as the specification prescribes. Cookie 12347 (with the is-run bitset and, for
// >= 4 containers, the offset header) is used iff some container is a run.
func rkEncodeOfficial(vals []uint64, asRun func(i int, key uint16, lows []uint16) bool) (data []byte, desc string) {
	var keys []uint16
	var lows [][]uint16
	for _, v := range vals {
		k := uint16(v >> 16)
		if v>>32 != 0 {
			panic("rkEncodeOfficial: value does not fit the 32-bit official format")
		}
		if len(keys) == 0 || keys[len(keys)-1] != k {
			keys = append(keys, k)
			lows = append(lows, nil)
		}
		lows[len(lows)-1] = append(lows[len(lows)-1], uint16(v))
	}
	n := len(keys)
	isRun := make([]bool, n)
	anyRun := false
	for i := range keys {
		if asRun != nil && asRun(i, keys[i], lows[i]) {
			isRun[i] = true
			anyRun = true
		}
	}
	le := binary.LittleEndian
	var hdr []byte
	u16 := func(b []byte, v uint16) []byte { return append(b, byte(v), byte(v>>8)) }
	u32 := func(b []byte, v uint32) []byte { return append(b, byte(v), byte(v>>8), byte(v>>16), byte(v>>24)) }
	if n == 0 {
		return u32(u32(nil, 12346), 0), "official(no containers)"
	}
	if anyRun {
		hdr = u32(hdr, 12347|uint32(n-1)<<16)
		bs := make([]byte, (n+7)/8)
		for i := range keys {
			if isRun[i] {
				bs[i/8] |= 1 << uint(i%8)
			}
		}
		hdr = append(hdr, bs...)
	} else {
		hdr = u32(u32(hdr, 12346), uint32(n))
	}
	for i := range keys {
		hdr = u16(u16(hdr, keys[i]), uint16(len(lows[i])-1))
	}
	var bodies [][]byte
	kinds := []string{}
	for i := range keys {
		var b []byte
		switch {
		case isRun[i]:
			runs := rkRunsOf(lows[i])
			b = u16(b, uint16(len(runs)))
			for _, rn := range runs {
				b = u16(u16(b, rn[0]), rn[1]-rn[0])
			}
			kinds = append(kinds, fmt.Sprintf("%d:run(%d runs,card %d)", keys[i], len(runs), len(lows[i])))
		case len(lows[i]) <= 4096:
			for _, l := range lows[i] {
				b = u16(b, l)
			}
			kinds = append(kinds, fmt.Sprintf("%d:array(card %d)", keys[i], len(lows[i])))
		default:
			b = make([]byte, 8192)
			for _, l := range lows[i] {
				w := int(l/64) * 8
				le.PutUint64(b[w:], le.Uint64(b[w:])|1<<uint(l%64))
			}
			kinds = append(kinds, fmt.Sprintf("%d:bitset(card %d)", keys[i], len(lows[i])))
		}
		bodies = append(bodies, b)
	}
	withOffsets := !anyRun || n >= 4
	pos := len(hdr)
	if withOffsets {
		pos += 4 * n
		for i := range keys {
			hdr = u32(hdr, uint32(pos))
			pos += len(bodies[i])
		}
	}
	data = hdr
	for _, b := range bodies {
		data = append(data, b...)
	}
	ck := "12346"
	if anyRun {
		ck = "12347"
	}
	if len(kinds) > 8 {
		kinds = append(kinds[:8], fmt.Sprintf("... %d containers", n))
	}
	return data, fmt.Sprintf("official(cookie %s, offsets %v, %s)", ck, withOffsets, strings.Join(kinds, ","))
}

func rkEncodePilosa(vals []uint64, unopt bool, flags byte) []byte {
	b := NewBitmap(rkCopy(vals)...)
	b.Flags = flags
	var buf bytes.Buffer
	var err error
	if unopt {
		_, err = b.writeToUnoptimized(&buf)
	} else {
		_, err = b.WriteTo(&buf)
	}
	if err != nil {
		panic(err)
	}
	return buf.Bytes()
}

// ---------------------------------------------------------------- construction flavours

type rkBM struct {
	b    *Bitmap
	flv  string
	cls  string    // flavour class, used in signatures: mem, mapped, official, derived
	buf  []byte    // bytes the bitmap may be mapped onto (must never be written)
	orig []byte    // pristine copy of buf
	keep []*Bitmap // sources kept alive
}

var rkFlavours = []string{
	"slice", "file", "slice+opt", "file+opt", "slice<-pilosa", "file<-pilosa", "file<-pilosa-unopt",
	"file-remapped", "frozen-of-slice", "clone-of-mapped", "imported-slice", "imported-file",
	"slice<-official", "trimmed-after-opt", "union-result", "intersect-result",
}

func rkTypes(b *Bitmap) string {
	var parts []string
	it, _ := b.Containers.Iterator(0)
	for it.Next() {
		_, c := it.Value()
		if c == nil {
			parts = append(parts, "nil")
			continue
		}
		f := ""
		if c.Mapped() {
			f += "m"
		}
		if c.frozen() {
			f += "f"
		}
		parts = append(parts, containerTypeNames[c.typ()]+f)
		if len(parts) >= 6 {
			break
		}
	}
	return strings.Join(parts, ",")
}

// rkOfficialOK: the set fits the 32-bit official format. The empty set is left out:
// roaring_internal_test.go pins UnmarshalBinary's error for a zero-container official header.
func rkOfficialOK(vals []uint64) bool {
	return len(vals) > 0 && vals[len(vals)-1]>>32 == 0
}

// build constructs a real bitmap holding vals in the requested flavour; nil when the real code panicked.
func (r *rkRun) build(flv string, vals []uint64) (x *rkBM) {
	x = &rkBM{flv: flv, cls: "mem"}
	ok := r.guard([]string{"C01"}, "build:"+flv, func() {
		switch flv {
		case "slice":
			x.b = NewBitmap(rkCopy(vals)...)
		case "file":
			x.b = NewFileBitmap(rkCopy(vals)...)
		case "slice+opt":
			x.b = NewSliceBitmap(rkCopy(vals)...)
			x.b.Optimize()
		case "file+opt":
			x.b = NewBTreeBitmap(rkCopy(vals)...)
			x.b.Optimize()
		case "slice<-pilosa", "file<-pilosa", "file<-pilosa-unopt", "clone-of-mapped":
			x.cls = "mapped"
			x.buf = rkEncodePilosa(vals, flv == "file<-pilosa-unopt", 0)
			x.orig = append([]byte{}, x.buf...)
			if flv == "slice<-pilosa" {
				x.b = NewBitmap()
			} else {
				x.b = NewFileBitmap()
			}
			if err := x.b.UnmarshalBinary(x.buf); err != nil {
				r.fail([]string{"C04"}, "roundtrip-decode-error", "UnmarshalBinary(WriteTo(b)) fails: "+err.Error())
				x.b = nil
				return
			}
			if flv == "clone-of-mapped" {
				x.keep = append(x.keep, x.b)
				x.b = x.b.Clone()
				x.cls = "derived"
			}
		case "file-remapped":
			x.cls = "mapped"
			x.b = NewFileBitmap(rkCopy(vals)...)
			var buf bytes.Buffer
			if _, err := x.b.WriteTo(&buf); err != nil {
				panic(err)
			}
			x.buf = buf.Bytes()
			x.orig = append([]byte{}, x.buf...)
			if _, err := x.b.RemapRoaringStorage(x.buf); err != nil {
				r.fail([]string{"C03"}, "remap-error", "RemapRoaringStorage(WriteTo(b)) fails: "+err.Error())
			}
		case "frozen-of-slice":
			x.cls = "derived"
			src := NewBitmap(rkCopy(vals)...)
			if r.rng.Intn(2) == 0 {
				src.Optimize()
			}
			x.keep = append(x.keep, src)
			x.b = src.Freeze()
		case "imported-slice", "imported-file":
			if flv == "imported-slice" {
				x.b = NewBitmap()
			} else {
				x.b = NewFileBitmap()
			}
			data := rkEncodePilosa(vals, r.rng.Intn(2) == 0, 0)
			if _, _, err := x.b.ImportRoaringBits(data, false, false, 0); err != nil {
				r.fail([]string{"C04"}, "import-error", "ImportRoaringBits of valid Pilosa bytes fails: "+err.Error())
			}
		case "slice<-official":
			x.cls = "official"
			rn := r.rng.Intn(3)
			x.buf, _ = rkEncodeOfficial(vals, func(i int, k uint16, lows []uint16) bool {
				nr := len(rkRunsOf(lows))
				return rn > 0 && nr*4+2 < 2*len(lows) && nr*4+2 < 8192
			})
			x.orig = append([]byte{}, x.buf...)
			x.b = NewBitmap()
			if err := x.b.UnmarshalBinary(x.buf); err != nil {
				r.fail([]string{"C04"}, "official-decode-error", "UnmarshalBinary of valid official bytes fails: "+err.Error())
				x.b = nil
			}
		case "trimmed-after-opt":
			// superset, optimize, then remove the extras: run containers with holes
			extra := []uint64{}
			for i := 0; i+1 < len(vals) && len(extra) < 200; i += 1 + r.rng.Intn(40) {
				if vals[i]+1 < vals[i+1] {
					extra = append(extra, vals[i]+1)
				}
			}
			x.b = NewBitmap(rkCopy(rkUnion(vals, extra))...)
			x.b.Optimize()
			x.b.DirectRemoveN(extra...)
		case "intersect-result":
			// the operands differ only in containers next to those of vals: the result
			// holds vals plus empty containers (Intersect keeps a container it emptied)
			x.cls = "derived"
			keys := map[uint64]bool{}
			for _, v := range vals {
				keys[v>>16] = true
			}
			var ea, eb []uint64
			for k := range keys {
				if !keys[k+1] && k < maxContainerKey {
					ea = append(ea, (k+1)<<16|1)
					eb = append(eb, (k+1)<<16|2)
				}
			}
			a, b := NewBitmap(rkCopy(rkNorm(append(ea, vals...)))...), NewBitmap(rkCopy(rkNorm(append(eb, vals...)))...)
			x.keep = append(x.keep, a, b)
			x.b = a.Intersect(b)
		default: // union-result
			x.cls = "derived"
			h := len(vals) / 2
			a, b := NewBitmap(rkCopy(vals[:h])...), NewFileBitmap(rkCopy(vals[h:])...)
			a.Optimize()
			x.keep = append(x.keep, a, b)
			x.b = a.Union(b)
		}
	})
	if !ok || x.b == nil {
		return nil
	}
	// A flavour that does not even hold the intended set is reported once, here, and
	// the case is skipped so that the defect does not resurface under unrelated signatures.
	props := []string{"C01"}
	if x.cls == "official" || x.cls == "mapped" || strings.HasPrefix(flv, "imported") {
		props = []string{"C04"}
	}
	if !r.checkLight(props, "construct:"+flv, "constructing flavour "+flv, x.b, vals) {
		return nil
	}
	return x
}

// checkBuf verifies that the storage a bitmap is (or was) mapped onto has not been written.
func (r *rkRun) checkBuf(x *rkBM, after string) {
	if x == nil || x.buf == nil {
		return
	}
	props, sig := []string{"C02", "C03"}, "mapped-storage-written"
	if x.cls == "official" {
		props, sig = []string{"C04"}, "official-decode-modifies-input"
	}
	r.cmp(bytes.Equal(x.buf, x.orig), props, sig, func() string {
		i := 0
		for i < len(x.buf) && x.buf[i] == x.orig[i] {
			i++
		}
		return fmt.Sprintf("flavour %s: after %s the bytes the bitmap was decoded from / mapped onto differ at offset %d (was %#x now %#x)", x.flv, after, i, x.orig[i], x.buf[i])
	})
	if !bytes.Equal(x.buf, x.orig) {
		copy(x.orig, x.buf) // report once per case
	}
}

// ---------------------------------------------------------------- read paths

func (r *rkRun) probes(want []uint64) []uint64 {
	p := []uint64{0, 1, 65535, 65536, 65537, 131071, 131072, 1<<32 - 1, 1 << 32, rkMaxU - 1, rkMaxU}
	add := func(v uint64) {
		p = append(p, v)
		if v > 0 {
			p = append(p, v-1)
		}
		if v < rkMaxU {
			p = append(p, v+1)
		}
	}
	if len(want) > 0 {
		add(want[0])
		add(want[len(want)-1])
		for i := 0; i < 5; i++ {
			add(want[r.rng.Intn(len(want))])
		}
		lastKey := rkMaxU
		nk := 0
		for i := 0; i < len(want) && nk < 4; {
			k := want[i] >> 16
			if k != lastKey {
				lastKey = k
				nk++
				p = append(p, k<<16, k<<16|65535)
				if k < maxContainerKey {
					p = append(p, (k+1)<<16)
				}
			}
			i = rkLB(want, k<<16|65535)
			if i < len(want) && want[i] == k<<16|65535 {
				i++
			}
		}
	}
	return rkNorm(p)
}

// checkLight compares the set content and the per-container counters only.
func (r *rkRun) checkLight(props []string, sig string, ctx string, b *Bitmap, want []uint64) bool {
	good := true
	r.guard(props, sig, func() {
		got := b.Slice()
		good = r.cmp(rkEq(got, want), props, sig, func() string { return ctx + ": " + rkFirstDiff(got, want) }) && good
		cnt := b.Count()
		good = r.cmp(cnt == uint64(len(want)), props, sig+"/count", func() string {
			return fmt.Sprintf("%s: Count() = %d, set has %d values (Slice agrees with the set: %v)", ctx, cnt, len(want), rkEq(got, want))
		}) && good
	})
	return good
}

// checkCheap: Count plus membership of the values a mutation touched (and a few others).
func (r *rkRun) checkCheap(props []string, sig, ctx string, b *Bitmap, want, touched []uint64) bool {
	good := true
	r.guard(props, sig, func() {
		cnt := b.Count()
		good = r.cmp(cnt == uint64(len(want)), props, sig+"/count", func() string { return fmt.Sprintf("%s: Count() = %d, set has %d values", ctx, cnt, len(want)) })
		probe := append([]uint64{}, touched...)
		if len(probe) > 48 { // first, last and a sample of a long list
			probe = append(probe[:16:16], probe[len(probe)-16:]...)
			for i := 0; i < 16; i++ {
				probe = append(probe, touched[r.rng.Intn(len(touched))])
			}
		}
		for i := 0; i < 6 && len(want) > 0; i++ {
			probe = append(probe, want[r.rng.Intn(len(want))])
		}
		for _, v := range probe {
			got := b.Contains(v)
			good = r.cmp(got == rkHas(want, v), props, sig, func() string { return fmt.Sprintf("%s: Contains(%d) = %v, set says %v", ctx, v, got, !got) }) && good
		}
	})
	return good
}

// checkReads compares every read path of b with the model.
func (r *rkRun) checkReads(props []string, cls, ctx string, b *Bitmap, want []uint64) {
	sig := func(s string) string { return s + "@" + cls }
	P := props
	g := func(where string, fn func()) { r.guard(P, sig(where), fn) }

	g("Count", func() {
		got := b.Count()
		r.cmp(got == uint64(len(want)), P, sig("Count"), func() string { return fmt.Sprintf("%s: Count() = %d, model %d", ctx, got, len(want)) })
	})
	g("Any", func() {
		got := b.Any()
		r.cmp(got == (len(want) > 0), P, sig("Any"), func() string { return fmt.Sprintf("%s: Any() = %v, model has %d values", ctx, got, len(want)) })
	})
	g("Max", func() {
		got, w := b.Max(), uint64(0)
		if len(want) > 0 {
			w = want[len(want)-1]
		}
		r.cmp(got == w, P, sig("Max"), func() string { return fmt.Sprintf("%s: Max() = %d, model %d", ctx, got, w) })
	})
	g("Min", func() {
		got, ok := b.Min()
		if len(want) == 0 {
			r.cmp(!ok, P, sig("Min"), func() string { return fmt.Sprintf("%s: Min() = (%d,%v) on an empty set", ctx, got, ok) })
		} else {
			r.cmp(ok && got == want[0], P, sig("Min"), func() string { return fmt.Sprintf("%s: Min() = (%d,%v), model %d", ctx, got, ok, want[0]) })
		}
	})
	g("Slice", func() {
		got := b.Slice()
		r.cmp(rkEq(got, want), P, sig("Slice"), func() string { return ctx + ": Slice(): " + rkFirstDiff(got, want) })
	})
	g("ForEach", func() {
		got := make([]uint64, 0, len(want))
		b.ForEach(func(v uint64) { got = append(got, v) })
		r.cmp(rkEq(got, want), P, sig("ForEach"), func() string { return ctx + ": ForEach(): " + rkFirstDiff(got, want) })
	})
	g("Iterator", func() {
		got := make([]uint64, 0, len(want))
		it := b.Iterator()
		for v, eof := it.Next(); !eof && len(got) <= len(want)+4; v, eof = it.Next() {
			got = append(got, v)
		}
		r.cmp(rkEq(got, want), P, sig("Iterator"), func() string { return ctx + ": Iterator().Next() sequence: " + rkFirstDiff(got, want) })
	})
	pr := r.probes(want)
	g("Contains", func() {
		for _, v := range pr {
			got := b.Contains(v)
			r.cmp(got == rkHas(want, v), P, sig("Contains"), func() string { return fmt.Sprintf("%s: Contains(%d) = %v, model %v", ctx, v, got, !got) })
		}
		if len(want) <= 64 {
			for _, v := range want {
				r.cmp(b.Contains(v), P, sig("Contains"), func() string { return fmt.Sprintf("%s: Contains(%d) = false for a member", ctx, v) })
			}
		}
	})
	g("Seek", func() {
		for _, v := range pr {
			it := b.Iterator()
			it.Seek(v)
			i := rkLB(want, v)
			for n := 0; n < 4; n++ {
				got, eof := it.Next()
				if i+n >= len(want) {
					r.cmp(eof, P, sig("Seek"), func() string {
						return fmt.Sprintf("%s: Seek(%d) then Next #%d = (%d,eof=%v), model: end of set", ctx, v, n+1, got, eof)
					})
					break
				}
				w := want[i+n]
				if !r.cmp(!eof && got == w, P, sig("Seek"), func() string {
					return fmt.Sprintf("%s: Seek(%d) then Next #%d = (%d,eof=%v), model %d", ctx, v, n+1, got, eof, w)
				}) {
					break
				}
			}
		}
	})
	g("ReSeek", func() {
		// one iterator, repositioned again and again (forwards and backwards, out of
		// the middle of whatever it was reading): after each Seek the following
		// Next calls yield the members >= the seek value in order
		it := b.Iterator()
		order := append([]uint64{}, pr...)
		for i := len(pr) - 1; i >= 0; i-- {
			order = append(order, pr[i])
		}
		for k, v := range order {
			it.Seek(v)
			i := rkLB(want, v)
			steps := 1 + k%3
			for n := 0; n < steps; n++ {
				got, eof := it.Next()
				if i+n >= len(want) {
					r.cmp(eof, P, sig("ReSeek"), func() string {
						return fmt.Sprintf("%s: reused iterator, Seek(%d) then Next #%d = (%d,eof=%v), model: end of set", ctx, v, n+1, got, eof)
					})
					break
				}
				w := want[i+n]
				if !r.cmp(!eof && got == w, P, sig("ReSeek"), func() string {
					return fmt.Sprintf("%s: reused iterator, Seek(%d) then Next #%d = (%d,eof=%v), model %d", ctx, v, n+1, got, eof, w)
				}) {
					break
				}
			}
		}
	})
	g("CountRange", func() {
		for i, a := range pr {
			for j, e := range pr {
				if j < i {
					continue
				}
				got, w := b.CountRange(a, e), rkCountRange(want, a, e)
				r.cmp(got == w, P, sig("CountRange"), func() string {
					return fmt.Sprintf("%s: CountRange(%d,%d) = %d, model %d (start key %d low %d, end key %d low %d)", ctx, a, e, got, w, a>>16, a&0xFFFF, e>>16, e&0xFFFF)
				})
			}
		}
	})
	g("CountRange-inverted", func() {
		for n := 0; n < 12 && len(pr) > 1; n++ {
			i := 1 + r.rng.Intn(len(pr)-1)
			j := r.rng.Intn(i)
			got := b.CountRange(pr[i], pr[j])
			r.cmp(got == 0, P, "CountRange-inverted", func() string {
				return fmt.Sprintf("%s: CountRange(%d,%d) with start > end = %d, the range [start,end) is empty", ctx, pr[i], pr[j], got)
			})
		}
	})
	g("SliceRange", func() {
		for n := 0; n < 14; n++ {
			a, e := pr[r.rng.Intn(len(pr))], pr[r.rng.Intn(len(pr))]
			if n%5 != 4 && a > e {
				a, e = e, a
			}
			w := rkSliceRange(want, a, e)
			if len(w) > 6000 && n > 1 {
				continue
			}
			got := b.SliceRange(a, e)
			r.cmp(rkEq(got, w), P, sig("SliceRange"), func() string { return fmt.Sprintf("%s: SliceRange(%d,%d): %s", ctx, a, e, rkFirstDiff(got, w)) })
			var got2 []uint64
			b.ForEachRange(a, e, func(v uint64) { got2 = append(got2, v) })
			r.cmp(rkEq(got2, w), P, sig("ForEachRange"), func() string { return fmt.Sprintf("%s: ForEachRange(%d,%d): %s", ctx, a, e, rkFirstDiff(got2, w)) })
		}
	})
	g("OffsetRange", func() {
		starts := []uint64{0}
		for _, v := range pr {
			starts = append(starts, v&^0xFFFF)
		}
		for n := 0; n < 6; n++ {
			start := starts[r.rng.Intn(len(starts))]
			end := start + []uint64{1, 2, 3, 70000}[r.rng.Intn(4)]<<16
			if end < start {
				end = maxContainerKey << 16
			}
			if n == 5 && len(want) > 0 {
				start, end = 0, want[len(want)-1]&^0xFFFF
			}
			off := []uint64{0, 1 << 16, 5 << 16, 1 << 20, 1 << 40}[r.rng.Intn(5)]
			if rkCountRange(want, start, end) > 20000 && n != 5 {
				continue
			}
			if (end-start)+off < off || ((end-start)+off)>>16 > maxContainerKey {
				off = 0 // keep the shifted keys inside the key space
			}
			w := rkOffsetRange(want, off, start, end)
			got := b.OffsetRange(off, start, end).Slice()
			r.cmp(rkEq(got, w), P, sig("OffsetRange"), func() string {
				return fmt.Sprintf("%s: OffsetRange(%d,%d,%d): %s", ctx, off, start, end, rkFirstDiff(got, w))
			})
		}
	})
	g("Containers", func() {
		it, _ := b.Containers.Iterator(0)
		var sum uint64
		first := true
		var prev uint64
		for it.Next() {
			k, c := it.Value()
			r.cmp(first || k > prev, P, sig("Containers-order"), func() string { return fmt.Sprintf("%s: container iterator yields key %d after %d", ctx, k, prev) })
			first, prev = false, k
			if c == nil {
				continue
			}
			w := rkCountRange(want, k<<16, k<<16|0xFFFF)
			if rkHas(want, k<<16|0xFFFF) {
				w++
			}
			n, cnt := c.N(), c.count()
			sum += uint64(n)
			r.cmp(uint64(n) == w && cnt == n, P, sig("Containers-N"), func() string {
				return fmt.Sprintf("%s: container key %d (%s): N() = %d, recount of its contents = %d, model holds %d values under that key", ctx, k, containerTypeNames[c.typ()], n, cnt, w)
			})
		}
		total := b.Count()
		r.cmp(sum == total, P, sig("Containers-sum"), func() string { return fmt.Sprintf("%s: sum of container N = %d, Count() = %d", ctx, sum, total) })
		err := b.Check()
		r.cmp(err == nil, P, sig("Check"), func() string { return fmt.Sprintf("%s: Check() = %v", ctx, err) })
		var isum uint64
		for _, ci := range b.Info().Containers {
			isum += uint64(ci.N)
		}
		r.cmp(isum == uint64(len(want)), P, sig("Info"), func() string { return fmt.Sprintf("%s: Info() container N sum = %d, model %d", ctx, isum, len(want)) })
	})
}

// roundTrip: WriteTo -> UnmarshalBinary yields the same set and flags (C04).
func (r *rkRun) roundTrip(ctx string, b *Bitmap, want []uint64) {
	r.guard([]string{"C04"}, "roundtrip", func() {
		flags := byte(r.rng.Intn(256))
		old := b.Flags
		b.Flags = flags
		var buf bytes.Buffer
		_, err := b.WriteTo(&buf)
		b.Flags = old
		if !r.cmp(err == nil, []string{"C04"}, "roundtrip-write-error", func() string { return ctx + ": WriteTo: " + err.Error() }) {
			return
		}
		data := buf.Bytes()
		orig := append([]byte{}, data...)
		for i, mk := range []func(...uint64) *Bitmap{NewBitmap, NewFileBitmap} {
			if i != r.rng.Intn(2) {
				continue
			}
			d := mk()
			err := d.UnmarshalBinary(data)
			if !r.cmp(err == nil, []string{"C04"}, "roundtrip-decode-error", func() string { return ctx + ": UnmarshalBinary(WriteTo(b)): " + err.Error() }) {
				return
			}
			got := d.Slice()
			r.cmp(rkEq(got, want), []string{"C04"}, "roundtrip-set", func() string { return ctx + ": decode(encode(b)): " + rkFirstDiff(got, want) })
			r.cmp(d.Count() == uint64(len(want)), []string{"C04"}, "roundtrip-count", func() string {
				return fmt.Sprintf("%s: decode(encode(b)).Count() = %d, model %d", ctx, d.Count(), len(want))
			})
			r.cmp(d.Flags == flags, []string{"C04"}, "roundtrip-flags", func() string { return fmt.Sprintf("%s: flags %d decoded as %d", ctx, flags, d.Flags) })
			r.cmp(bytes.Equal(data, orig), []string{"C04"}, "roundtrip-decode-modifies-input", func() string { return ctx + ": UnmarshalBinary modified the encoded bytes" })
		}
		// the source still holds the same set after being encoded (WriteTo optimizes in place)
		r.checkLight([]string{"C04", "C02"}, "set-after-WriteTo", ctx+" after WriteTo", b, want)
	})
}

// ---------------------------------------------------------------- phase A: reads per flavour, round trip

func (r *rkRun) phaseReads(n int) {
	for i := 0; i < n; i++ {
		pool := rkKeysAll
		if i%3 == 0 {
			pool = rkKeysOfficial
		}
		nk := 1 + r.rng.Intn(3)
		keys := r.pickKeys(pool, nk)
		kinds := make([]int, nk)
		for j := range kinds {
			kinds[j] = -1
		}
		if i < rkKinds { // every shape family at least once, alone
			keys, kinds = keys[:1], []int{i}
		}
		set := r.genSet(keys, kinds)
		if i == rkKinds {
			set = rkSet{desc: "{}"}
		}
		// 5 flavours per set, rotating so that all are visited
		for j := 0; j < 5; j++ {
			flv := rkFlavours[(i*5+j)%len(rkFlavours)]
			if flv == "slice<-official" && !rkOfficialOK(set.vals) {
				flv = "file<-pilosa"
			}
			r.seq = []string{fmt.Sprintf("b := %s %s", flv, set.desc)}
			x := r.build(flv, set.vals)
			if x == nil {
				continue
			}
			r.hit("reads:" + flv + ":" + rkTypes(x.b))
			ctx := fmt.Sprintf("flavour %s [%s]", flv, rkTypes(x.b))
			props := []string{"C01"}
			if x.cls == "official" {
				props = []string{"C01", "C04"}
			}
			r.checkReads(props, x.cls, ctx, x.b, set.vals)
			r.checkBuf(x, "reads")
			r.op("WriteTo -> UnmarshalBinary")
			r.roundTrip(ctx, x.b, set.vals)
			r.checkBuf(x, "WriteTo")
		}
	}
}

// ---------------------------------------------------------------- phase B: set operations and isolation

// typed set generation: the container under the shared key gets the intended encoding.
func (r *rkRun) genTyped(typ byte, keys []uint64, shared int) (rkSet, string) {
	kinds := make([]int, len(keys))
	for i := range kinds {
		kinds[i] = -1
	}
	var flvs []string
	switch typ {
	case containerArray:
		kinds[shared] = []int{0, 1, 8, 0}[r.rng.Intn(4)]
		flvs = []string{"slice", "file", "file<-pilosa-unopt", "frozen-of-slice"}
	case containerBitmap:
		kinds[shared] = 2
		flvs = []string{"slice", "file", "file+opt", "slice<-pilosa", "file<-pilosa", "file-remapped", "imported-file", "clone-of-mapped"}
	default:
		kinds[shared] = []int{3, 4, 5, 7}[r.rng.Intn(4)]
		flvs = []string{"slice+opt", "file+opt", "slice<-pilosa", "file<-pilosa", "file-remapped", "trimmed-after-opt"}
	}
	set := r.genSet(keys, kinds)
	if typ == containerBitmap { // make sure the stride really exceeds the array limit
		for rkCountRange(set.vals, keys[shared]<<16, keys[shared]<<16|0xFFFF) < 4097 {
			set = r.genSet(keys, kinds)
		}
	}
	return set, flvs[r.rng.Intn(len(flvs))]
}

type rkDerived struct {
	name string
	b    *Bitmap
	want []uint64
}

func (r *rkRun) pairTypes(opName string, a, b *Bitmap) {
	ia, _ := a.Containers.Iterator(0)
	for ia.Next() {
		k, ca := ia.Value()
		if cb := b.Containers.Get(k); ca != nil && cb != nil {
			r.hit(fmt.Sprintf("%s:%sx%s", opName, containerTypeNames[ca.typ()], containerTypeNames[cb.typ()]))
		}
	}
}

// binops runs every set operation on (A,B,C) and returns the derived values (for the isolation checks).
func (r *rkRun) binops(A, B, C *rkBM, wa, wb, wc []uint64) []rkDerived {
	var ds []rkDerived
	P := []string{"C01"}
	ctx := fmt.Sprintf("A=%s[%s] B=%s[%s]", A.flv, rkTypes(A.b), B.flv, rkTypes(B.b))
	res := func(name string, want []uint64, fn func() *Bitmap, isolate bool) {
		r.seq = append(r.seq, name)
		var out *Bitmap
		if r.guard(P, name, func() { out = fn() }) && out != nil {
			r.checkReads(P, "derived:"+strings.SplitN(name, "(", 2)[0], ctx+" "+name, out, want)
			if r.rng.Intn(3) == 0 {
				r.roundTrip(ctx+" "+name, out, want)
			}
			if isolate {
				ds = append(ds, rkDerived{name, out, rkCopy(want)})
			}
		}
		// operands are unchanged by the operation (cheap probe here, full comparison after the block)
		for _, o := range []struct {
			x *rkBM
			w []uint64
			n string
		}{{A, wa, "A"}, {B, wb, "B"}} {
			o := o
			r.guard([]string{"C01", "C03"}, "operand-read", func() {
				cnt := o.x.b.Count()
				okc := true
				for i := 0; i < 8 && len(o.w) > 0; i++ {
					v := o.w[r.rng.Intn(len(o.w))]
					okc = okc && o.x.b.Contains(v) && o.x.b.Contains(v+1) == rkHas(o.w, v+1)
				}
				r.cmp(cnt == uint64(len(o.w)) && okc, []string{"C01", "C03"}, "operand-changed-by:"+strings.SplitN(name, "(", 2)[0], func() string {
					return fmt.Sprintf("%s: operand %s after %s: Count() = %d (model %d), sampled membership agrees: %v", ctx, o.n, name, cnt, len(o.w), okc)
				})
			})
		}
		r.checkBuf(A, name)
		r.checkBuf(B, name)
		r.seq = r.seq[:len(r.seq)-1]
	}
	for _, n := range []string{"Union", "Intersect", "Difference", "Xor", "IntersectionCount"} {
		r.pairTypes(n, A.b, B.b)
	}
	res("A.Union(B)", rkUnion(wa, wb), func() *Bitmap { return A.b.Union(B.b) }, true)
	res("B.Union(A)", rkUnion(wa, wb), func() *Bitmap { return B.b.Union(A.b) }, false)
	res("A.Union()", wa, func() *Bitmap { return A.b.Union() }, true)
	res("A.Union(B,C)", rkUnion(rkUnion(wa, wb), wc), func() *Bitmap { return A.b.Union(B.b, C.b) }, true)
	res("A.Intersect(B)", rkInter(wa, wb), func() *Bitmap { return A.b.Intersect(B.b) }, true)
	res("B.Intersect(A)", rkInter(wa, wb), func() *Bitmap { return B.b.Intersect(A.b) }, false)
	res("A.Difference(B)", rkDiff(wa, wb), func() *Bitmap { return A.b.Difference(B.b) }, true)
	res("B.Difference(A)", rkDiff(wb, wa), func() *Bitmap { return B.b.Difference(A.b) }, false)
	res("A.Xor(B)", rkXor(wa, wb), func() *Bitmap { return A.b.Xor(B.b) }, true)
	res("A.Clone()", wa, func() *Bitmap { return A.b.Clone() }, true)
	res("A.Shift(1)", rkShift(wa), func() *Bitmap {
		o, err := A.b.Shift(1)
		if err != nil {
			panic(err)
		}
		return o
	}, false)
	r.guard(P, "IntersectionCount", func() {
		got, w := A.b.IntersectionCount(B.b), uint64(len(rkInter(wa, wb)))
		r.cmp(got == w, P, "IntersectionCount", func() string { return fmt.Sprintf("%s: A.IntersectionCount(B) = %d, model %d", ctx, got, w) })
		got = B.b.IntersectionCount(A.b)
		r.cmp(got == w, P, "IntersectionCount", func() string { return fmt.Sprintf("%s: B.IntersectionCount(A) = %d, model %d", ctx, got, w) })
	})
	// flip over small closed ranges around boundaries of A
	for n := 0; n < 3; n++ {
		var s uint64
		if len(wa) > 0 {
			s = wa[r.rng.Intn(len(wa))]
		}
		if n == 1 {
			s = s | 0xFFFF // container edge
		}
		if s >= 40 {
			s -= uint64(r.rng.Intn(40))
		}
		e := s + uint64(r.rng.Intn(200))
		if e < s || e == rkMaxU {
			e = rkMaxU - 1
			if s > e {
				s = e
			}
		}
		ss, ee := s, e
		res(fmt.Sprintf("A.Flip(%d,%d)", ss, ee), rkFlip(wa, ss, ee), func() *Bitmap { return A.b.Flip(ss, ee) }, false)
	}
	// offset range as a derived value
	if len(wa) > 0 {
		start := wa[r.rng.Intn(len(wa))] &^ 0xFFFF
		end := start + uint64(1+r.rng.Intn(3))<<16
		if end < start {
			end = maxContainerKey << 16
		}
		off := uint64(r.rng.Intn(3)) << 16
		res(fmt.Sprintf("A.OffsetRange(%d,%d,%d)", off, start, end), rkOffsetRange(wa, off, start, end), func() *Bitmap { return A.b.OffsetRange(off, start, end) }, true)
	}
	res("A.Freeze()", wa, func() *Bitmap { return A.b.Freeze() }, true)
	// in-place unions on private copies of A
	for _, v := range []struct {
		name string
		mk   func() *Bitmap
	}{
		{"A.Clone().UnionInPlace", func() *Bitmap { return A.b.Clone() }},
		{"A.Freeze().UnionInPlace", func() *Bitmap { return A.b.Freeze() }},
	} {
		v := v
		r.pairTypes("UnionInPlace", A.b, B.b)
		res(v.name+"(B)", rkUnion(wa, wb), func() *Bitmap { t := v.mk(); t.UnionInPlace(B.b); return t }, true)
		res(v.name+"(B,C)", rkUnion(rkUnion(wa, wb), wc), func() *Bitmap { t := v.mk(); t.UnionInPlace(B.b, C.b); return t }, false)
		res(v.name+"(C,B,A)", rkUnion(rkUnion(wa, wb), wc), func() *Bitmap { t := v.mk(); t.UnionInPlace(C.b, B.b, A.b); return t }, false)
	}
	r.checkLight([]string{"C01", "C03"}, "operand-changed-by-set-operations", ctx+" operand A after the set operations", A.b, wa)
	r.checkLight([]string{"C01", "C03"}, "operand-changed-by-set-operations", ctx+" operand B after the set operations", B.b, wb)
	return ds
}

// mutateBitmap applies one random mutation through the real API and returns the new model and a description.
func (r *rkRun) mutateBitmap(b *Bitmap, want []uint64, other []uint64) (nw []uint64, desc string, touched []uint64) {
	pickIn := func(n int) []uint64 {
		var out []uint64
		for i := 0; i < n && len(want) > 0; i++ {
			out = append(out, want[r.rng.Intn(len(want))])
		}
		return out
	}
	pickNew := func(n int) []uint64 {
		var out []uint64
		for i := 0; i < n; i++ {
			var base uint64
			if len(want) > 0 && r.rng.Intn(4) > 0 {
				base = want[r.rng.Intn(len(want))] &^ 0xFFFF
			} else if len(other) > 0 {
				base = other[r.rng.Intn(len(other))] &^ 0xFFFF
			}
			out = append(out, base|uint64(rkEdgeLows[r.rng.Intn(len(rkEdgeLows))])+uint64(r.rng.Intn(3)))
		}
		return out
	}
	switch r.rng.Intn(10) {
	case 9:
		vs := rkNorm(append(pickNew(6), pickIn(3)...))
		o := NewBitmap(rkCopy(vs)...)
		if r.rng.Intn(2) == 0 {
			o.Optimize()
		}
		b.UnionInPlace(o)
		return rkUnion(want, vs), fmt.Sprintf("UnionInPlace(NewBitmap(%v))", vs), vs
	case 0:
		vs := pickNew(3)
		_, _ = b.Add(rkCopy(vs)...)
		return rkUnion(want, rkNorm(vs)), fmt.Sprintf("Add(%v)", vs), vs
	case 1:
		vs := pickIn(3)
		_, _ = b.Remove(rkCopy(vs)...)
		return rkDiff(want, rkNorm(vs)), fmt.Sprintf("Remove(%v)", vs), vs
	case 2:
		vs := append(pickNew(4), pickIn(2)...)
		b.DirectAddN(rkCopy(vs)...)
		return rkUnion(want, rkNorm(vs)), fmt.Sprintf("DirectAddN(%v)", vs), vs
	case 3:
		vs := append(pickIn(4), pickNew(1)...)
		b.DirectRemoveN(rkCopy(vs)...)
		return rkDiff(want, rkNorm(vs)), fmt.Sprintf("DirectRemoveN(%v)", vs), vs
	case 4:
		vs := rkNorm(append(pickNew(5), pickIn(2)...))
		data := rkEncodePilosa(vs, r.rng.Intn(2) == 0, 0)
		_, _, _ = b.ImportRoaringBits(data, false, false, 0)
		return rkUnion(want, vs), fmt.Sprintf("ImportRoaringBits(set %v)", vs), vs
	case 5:
		vs := rkNorm(append(pickIn(5), pickNew(1)...))
		data := rkEncodePilosa(vs, r.rng.Intn(2) == 0, 0)
		_, _, _ = b.ImportRoaringBits(data, true, false, 0)
		return rkDiff(want, vs), fmt.Sprintf("ImportRoaringBits(clear %v)", vs), vs
	case 6:
		b.Optimize()
		return want, "Optimize()", nil
	case 7:
		_, _ = b.WriteTo(ioutil.Discard)
		return want, "WriteTo(discard)", nil
	default:
		// remove a whole stretch: every value of one container range
		if len(want) == 0 {
			return want, "noop", nil
		}
		base := want[r.rng.Intn(len(want))] &^ 0xFFFF
		vs := rkCopy(rkSliceRange(want, base, base|0x7FFF))
		_, _ = b.RemoveN(rkCopy(vs)...)
		return rkDiff(want, vs), fmt.Sprintf("RemoveN(all %d values in [%d,%d))", len(vs), base, base|0x7FFF), vs
	}
}

func (r *rkRun) isolation(A, B *rkBM, wa, wb []uint64, ds []rkDerived) {
	P := []string{"C03"}
	// cheap check (count + membership of the touched values) after every single mutation,
	// full comparison at the end of every stage
	checkDs := func(after string, skip int, touched []uint64, full bool) {
		for i, d := range ds {
			if i == skip {
				continue
			}
			nm := strings.SplitN(d.name, "(", 2)[0]
			ctx := fmt.Sprintf("derived value %s (taken from A=%s, B=%s) after %s", d.name, A.flv, B.flv, after)
			var ok bool
			if full {
				ok = r.checkLight(P, "derived-changed:"+nm, ctx, d.b, d.want)
			} else {
				ok = r.checkCheap(P, "derived-changed:"+nm, ctx, d.b, d.want, touched)
			}
			if !ok {
				ds[i].want = d.b.Slice() // report once
			}
		}
	}
	base := len(r.seq)
	// 1. mutate the sources
	for n := 0; n < 4; n++ {
		src, w, o, nm := A, &wa, wb, "A"
		if n%2 == 1 {
			src, w, o, nm = B, &wb, wa, "B"
		}
		var d string
		var touched []uint64
		if !r.guard([]string{"C02"}, "source-mutation", func() { *w, d, touched = r.mutateBitmap(src.b, *w, o) }) {
			return
		}
		r.op("%s.%s", nm, d)
		checkDs("source mutation "+nm+"."+d, -1, touched, n == 3)
		r.checkLight([]string{"C02"}, "source-after-mutation", "source "+nm+" ("+src.flv+") after "+d, src.b, *w)
		r.checkBuf(src, d)
	}
	// 2. snapshot + remap A onto new storage, then invalidate the old storage
	r.guard(P, "remap", func() {
		var buf bytes.Buffer
		if _, err := A.b.WriteTo(&buf); err != nil {
			panic(err)
		}
		nb := buf.Bytes()
		_, err := A.b.RemapRoaringStorage(nb)
		r.op("A.WriteTo(new); A.RemapRoaringStorage(new); scribble(old storage)")
		r.cmp(err == nil, P, "remap-error", func() string { return "RemapRoaringStorage(WriteTo(A)): " + err.Error() })
		for i := range A.buf {
			A.buf[i] = 0x5A // the old mapping is gone
		}
		A.buf, A.orig = nb, append([]byte{}, nb...)
		r.checkLight([]string{"C02", "C03"}, "source-after-remap", "source A ("+A.flv+") after snapshot+remap", A.b, wa)
		checkDs("A snapshot+remap, old storage invalidated", -1, nil, true)
	})
	// 3. mutate each derived value; sources and the other derived values stay
	for i := range ds {
		var d string
		var touched []uint64
		r.seq = r.seq[:base]
		if !r.guard([]string{"C02"}, "derived-mutation", func() { ds[i].want, d, touched = r.mutateBitmap(ds[i].b, ds[i].want, wa) }) {
			continue
		}
		r.op("(%s).%s", ds[i].name, d)
		nm := strings.SplitN(ds[i].name, "(", 2)[0]
		last := i == len(ds)-1
		r.checkLight([]string{"C02"}, "derived-after-own-mutation:"+nm, "derived "+ds[i].name+" after its own "+d, ds[i].b, ds[i].want)
		for _, s := range []struct {
			x *rkBM
			w []uint64
			n string
		}{{A, wa, "A"}, {B, wb, "B"}} {
			ctx := fmt.Sprintf("source %s (%s) after mutating derived %s with %s", s.n, s.x.flv, ds[i].name, d)
			if last {
				r.checkLight(P, "source-changed-by-derived:"+nm, ctx, s.x.b, s.w)
			} else {
				r.checkCheap(P, "source-changed-by-derived:"+nm, ctx, s.x.b, s.w, touched)
			}
		}
		checkDs("mutation "+d+" of derived "+ds[i].name, i, touched, last)
		r.checkBuf(A, "mutating derived "+ds[i].name)
		r.checkBuf(B, "mutating derived "+ds[i].name)
	}
	r.seq = r.seq[:base]
	// 4. close the sources: their storage goes away, derived values must survive
	r.op("close A and B (storage invalidated)")
	for _, s := range []*rkBM{A, B} {
		for i := range s.buf {
			s.buf[i] = 0xC3
		}
		s.buf, s.orig = nil, nil
	}
	checkDs("closing the sources (mapped storage invalidated)", -1, nil, true)
	for i := range ds {
		r.guard(P, "derived-reads-after-close", func() {
			r.checkReads(P, "derived-after-close", "derived "+ds[i].name+" after sources closed", ds[i].b, ds[i].want)
		})
		if i >= 2 {
			break
		}
	}
}

func (r *rkRun) phaseBinops(variants, random int) {
	run := func(sa, sb, sc rkSet, fa, fb, fc string) {
		r.seq = []string{fmt.Sprintf("A := %s %s", fa, sa.desc), fmt.Sprintf("B := %s %s", fb, sb.desc), fmt.Sprintf("C := %s %s", fc, sc.desc)}
		A, B, C := r.build(fa, sa.vals), r.build(fb, sb.vals), r.build(fc, sc.vals)
		if A == nil || B == nil || C == nil {
			return
		}
		ds := r.binops(A, B, C, sa.vals, sb.vals, sc.vals)
		r.isolation(A, B, sa.vals, sb.vals, ds)
	}
	types := []byte{containerArray, containerBitmap, containerRun}
	for v := 0; v < variants; v++ {
		for _, ta := range types {
			for _, tb := range types {
				k := rkKeysAll[r.rng.Intn(len(rkKeysAll)-1)]
				ka, kb := []uint64{k}, []uint64{k}
				sha, shb := 0, 0
				if r.rng.Intn(2) == 0 {
					ka = append(ka, k+1)
				}
				if r.rng.Intn(2) == 0 && k > 0 {
					kb, shb = []uint64{k - 1, k}, 1
				}
				sa, fa := r.genTyped(ta, ka, sha)
				sb, fb := r.genTyped(tb, kb, shb)
				sc := r.genSet([]uint64{k}, []int{-1})
				run(sa, sb, sc, fa, fb, rkFlavours[r.rng.Intn(4)])
			}
		}
	}
	for i := 0; i < random; i++ {
		keys := r.pickKeys(rkKeysAll, 3)
		sa := r.genSet(keys[:1+r.rng.Intn(2)], []int{-1, -1})
		sb := r.genSet(keys[r.rng.Intn(2):2+r.rng.Intn(2)], []int{-1, -1, -1})
		sc := r.genSet(keys[1:], []int{-1, -1})
		pick := func(s rkSet) string {
			f := rkFlavours[r.rng.Intn(len(rkFlavours))]
			if f == "slice<-official" && !rkOfficialOK(s.vals) {
				f = "file<-pilosa"
			}
			return f
		}
		run(sa, sb, sc, pick(sa), pick(sb), pick(sc))
	}
}

// ---------------------------------------------------------------- phase C: mutation histories (C02) with operation log replay (C05)

type rkHist struct {
	b       *Bitmap
	x       *rkBM
	want    []uint64
	cls     string
	univ    []uint64 // values the history concentrates on
	keys    []uint64
	logging bool
	snap    []byte
	log     *bytes.Buffer
	views   []rkDerived
	offOK   bool
}

func (r *rkRun) histValues(h *rkHist, n int, dups bool) []uint64 {
	var out []uint64
	for i := 0; i < n; i++ {
		switch {
		case dups && len(out) > 0 && r.rng.Intn(4) == 0:
			out = append(out, out[r.rng.Intn(len(out))])
		case len(h.want) > 0 && r.rng.Intn(3) == 0:
			out = append(out, h.want[r.rng.Intn(len(h.want))])
		default:
			out = append(out, h.univ[r.rng.Intn(len(h.univ))])
		}
	}
	return out
}

func (r *rkRun) replay(h *rkHist, when string) {
	if !h.logging {
		return
	}
	P := []string{"C05"}
	r.guard(P, "replay", func() {
		data := append(append([]byte{}, h.snap...), h.log.Bytes()...)
		orig := append([]byte{}, data...)
		var d *Bitmap
		if r.rng.Intn(2) == 0 {
			d = NewFileBitmap()
		} else {
			d = NewBitmap()
		}
		err := d.UnmarshalBinary(data)
		if !r.cmp(err == nil, P, "replay-decode-error", func() string { return when + ": UnmarshalBinary(snapshot+log): " + err.Error() }) {
			return
		}
		got := d.Slice()
		r.cmp(rkEq(got, h.want), P, "replay-set", func() string { return when + ": decode(snapshot+log) vs in-memory set: " + rkFirstDiff(got, h.want) })
		mem := h.b.Slice()
		r.cmp(rkEq(got, mem), P, "replay-set-vs-live", func() string { return when + ": decode(snapshot+log) vs live bitmap: " + rkFirstDiff(got, mem) })
		ops, opN := d.Ops()
		lops, lopN := h.b.Ops()
		r.cmp(ops == lops && opN == lopN, P, "replay-counters", func() string {
			return fmt.Sprintf("%s: decoded (ops,opN) = (%d,%d), live bitmap reports (%d,%d)", when, ops, opN, lops, lopN)
		})
		di, li := d.Info(), h.b.Info()
		r.cmp(di.Ops == li.Ops && di.OpN == li.OpN, P, "replay-counters-info", func() string {
			return fmt.Sprintf("%s: decoded Info (Ops,OpN) = (%d,%d), live (%d,%d)", when, di.Ops, di.OpN, li.Ops, li.OpN)
		})
		r.cmp(bytes.Equal(data, orig), P, "replay-modifies-file-bytes", func() string {
			return when + ": UnmarshalBinary(snapshot+log) wrote into the (read-only mapped) file bytes"
		})
		r.checkReads(P, "replayed", when+" decoded snapshot+log", d, h.want)
		r.cmp(bytes.Equal(data, orig), P, "replay-modifies-file-bytes", func() string { return when + ": reading the decoded bitmap wrote into the file bytes" })
		// the same file decoded again into the same bitmap (a fragment re-reads its
		// file into the storage bitmap it already has): same set, same counters
		if err := d.UnmarshalBinary(data); err == nil {
			got2 := d.Slice()
			r.cmp(rkEq(got2, h.want), P, "redecode-set", func() string { return when + ": second decode of snapshot+log into the same bitmap: " + rkFirstDiff(got2, h.want) })
			ops2, opN2 := d.Ops()
			r.cmp(ops2 == lops && opN2 == lopN, P, "redecode-counters", func() string {
				return fmt.Sprintf("%s: second decode into the same bitmap gives (ops,opN) = (%d,%d), first decode and live bitmap (%d,%d)", when, ops2, opN2, lops, lopN)
			})
		} else {
			r.cmp(false, P, "redecode-error", func() string { return when + ": second UnmarshalBinary(snapshot+log) into the same bitmap: " + err.Error() })
		}
	})
}

func (r *rkRun) rowSetWant(old, nw []uint64, rowSize uint64) map[uint64]int {
	out := map[uint64]int{}
	row := func(v uint64) uint64 {
		if rowSize == 0 {
			return 0
		}
		return (v >> 16) / rowSize
	}
	for _, v := range rkDiff(nw, old) {
		out[row(v)]++
	}
	for _, v := range rkDiff(old, nw) {
		out[row(v)]--
	}
	return out
}

func rkRowSetEq(got, want map[uint64]int) bool {
	for k, v := range got {
		if v != want[k] {
			return false
		}
	}
	for k, v := range want {
		if v != got[k] {
			return false
		}
	}
	return true
}

// importInto performs ImportRoaringBits on b and checks the reported counts; returns the new model.
func (r *rkRun) importInto(P []string, b *Bitmap, want, payload []uint64, clear, log bool, format int, rowSize uint64) ([]uint64, string) {
	var data []byte
	fd := ""
	switch format {
	case 0:
		data, fd = rkEncodePilosa(payload, false, 0), "pilosa"
	case 1:
		data, fd = rkEncodePilosa(payload, true, 0), "pilosa-unoptimized"
	default:
		rn := r.rng.Intn(2)
		data, fd = rkEncodeOfficial(payload, func(i int, k uint16, lows []uint16) bool {
			return rn == 1 && len(rkRunsOf(lows))*2 <= len(lows)
		})
	}
	// signatures carry the features of an official encoding that select the decoding path
	tag := ""
	if strings.Contains(fd, "cookie 12347, offsets true") {
		tag += "[run-cookie,>=4-containers]"
	}
	if strings.Contains(fd, "array(card 4096)") {
		tag += "[array-card-4096]"
	}
	orig := append([]byte{}, data...)
	desc := fmt.Sprintf("ImportRoaringBits(%s of %s, clear=%v, log=%v, rowSize=%d)", fd, rkShow(payload), clear, log, rowSize)
	r.op("%s", desc)
	var nw []uint64
	if clear {
		nw = rkDiff(want, payload)
	} else {
		nw = rkUnion(want, payload)
	}
	changed, rowSet, err := b.ImportRoaringBits(data, clear, log, rowSize)
	r.cmp(err == nil, P, "import-error"+tag, func() string { return desc + ": " + err.Error() })
	wch := len(nw) - len(want)
	if clear {
		wch = len(want) - len(nw)
	}
	r.cmp(bytes.Equal(data, orig), P, "import-modifies-payload"+tag, func() string { return desc + " modified the payload bytes" })
	if got := b.Slice(); !r.cmp(rkEq(got, nw), P, "import-set"+tag, func() string { return desc + ": " + rkFirstDiff(got, nw) }) {
		nw = got // follow the real bitmap so that one wrong import is not reported again by every later step
	} else {
		r.cmp(changed == wch, P, "import-changed-count"+tag, func() string { return fmt.Sprintf("%s reports %d changed bits, model %d", desc, changed, wch) })
		wrs := r.rowSetWant(want, nw, rowSize)
		r.cmp(rkRowSetEq(rowSet, wrs), P, "import-rowset"+tag, func() string { return fmt.Sprintf("%s reports rowSet %v, model %v", desc, rowSet, wrs) })
	}
	return nw, desc
}

func (r *rkRun) histStep(h *rkHist) string {
	P := []string{"C02"}
	b := h.b
	pickOps := []string{"Add", "Add", "Remove", "Remove", "AddN", "AddN", "RemoveN", "RemoveN", "Import", "Import", "ImportClear", "Optimize", "Freeze", "Clone", "BulkAddN", "BulkRemoveN", "Snapshot"}
	if h.logging {
		pickOps = append(pickOps, "Reopen")
	}
	if !h.logging {
		pickOps = append(pickOps, "DirectAdd", "DirectAddN", "DirectRemoveN", "DirectAdd", "UnionInPlace")
	}
	name := pickOps[r.rng.Intn(len(pickOps))]
	switch name {
	case "Add":
		vs := r.histValues(h, 1+r.rng.Intn(3), true)
		nw := rkUnion(h.want, rkNorm(vs))
		r.op("Add(%v)", vs)
		got, err := b.Add(rkCopy(vs)...)
		r.cmp(err == nil && got == (len(nw) != len(h.want)), P, "Add-changed", func() string {
			return fmt.Sprintf("Add(%v) = (%v,%v), model changed=%v", vs, got, err, len(nw) != len(h.want))
		})
		h.want = nw
	case "Remove":
		vs := r.histValues(h, 1+r.rng.Intn(3), true)
		nw := rkDiff(h.want, rkNorm(vs))
		r.op("Remove(%v)", vs)
		got, err := b.Remove(rkCopy(vs)...)
		r.cmp(err == nil && got == (len(nw) != len(h.want)), P, "Remove-changed", func() string {
			return fmt.Sprintf("Remove(%v) = (%v,%v), model changed=%v", vs, got, err, len(nw) != len(h.want))
		})
		h.want = nw
	case "AddN", "DirectAddN", "BulkAddN":
		vs := r.histValues(h, 1+r.rng.Intn(8), true)
		if name == "BulkAddN" { // cross the array/bitmap and run thresholds
			base := h.keys[r.rng.Intn(len(h.keys))] << 16
			step := uint64(1 + r.rng.Intn(2))
			n := []int{4090, 4096, 4100, 6000}[r.rng.Intn(4)]
			vs = vs[:0]
			for i := 0; i < n; i++ {
				vs = append(vs, base+200+uint64(i)*step)
			}
			if r.rng.Intn(2) == 0 {
				r.rng.Shuffle(len(vs), func(i, j int) { vs[i], vs[j] = vs[j], vs[i] })
			}
		}
		nw := rkUnion(h.want, rkNorm(vs))
		arg := rkCopy(vs)
		var got int
		var err error
		if name == "DirectAddN" {
			r.op("DirectAddN(%s)", rkShow(vs))
			got = b.DirectAddN(arg...)
		} else {
			r.op("AddN(%s)", rkShow(vs))
			got, err = b.AddN(arg...)
		}
		w := len(nw) - len(h.want)
		r.cmp(err == nil && got == w, P, name+"-changed", func() string { return fmt.Sprintf("%s(%s) = (%d,%v), model %d", name, rkShow(vs), got, err, w) })
		if got >= 0 && got <= len(arg) {
			ch := rkNorm(arg[:got])
			r.cmp(len(ch) == got && rkEq(ch, rkDiff(nw, h.want)), P, name+"-changed-list", func() string {
				return fmt.Sprintf("%s(%s): a[:changed] = %s, values that changed: %s", name, rkShow(vs), rkShow(arg[:got]), rkShow(rkDiff(nw, h.want)))
			})
		}
		h.want = nw
	case "RemoveN", "DirectRemoveN", "BulkRemoveN":
		vs := r.histValues(h, 1+r.rng.Intn(8), true)
		if name == "BulkRemoveN" && len(h.want) > 0 {
			base := h.want[r.rng.Intn(len(h.want))] &^ 0xFFFF
			in := rkSliceRange(h.want, base, base|0xFFFF)
			vs = vs[:0]
			keep := r.rng.Intn(6)
			for i, v := range in {
				if i >= keep {
					vs = append(vs, v)
				}
			}
			if len(vs) > 4200 && r.rng.Intn(2) == 0 {
				vs = vs[:len(vs)-4096] // land exactly around the bitmap->array limit
			}
		}
		nw := rkDiff(h.want, rkNorm(vs))
		arg := rkCopy(vs)
		var got int
		var err error
		if name == "DirectRemoveN" {
			r.op("DirectRemoveN(%s)", rkShow(vs))
			got = b.DirectRemoveN(arg...)
		} else {
			r.op("RemoveN(%s)", rkShow(vs))
			got, err = b.RemoveN(arg...)
		}
		w := len(h.want) - len(nw)
		r.cmp(err == nil && got == w, P, name+"-changed", func() string { return fmt.Sprintf("%s(%s) = (%d,%v), model %d", name, rkShow(vs), got, err, w) })
		h.want = nw
	case "DirectAdd":
		v := r.histValues(h, 1, false)[0]
		r.op("DirectAdd(%d)", v)
		got := b.DirectAdd(v)
		r.cmp(got == !rkHas(h.want, v), P, "DirectAdd-changed", func() string { return fmt.Sprintf("DirectAdd(%d) = %v, model %v", v, got, !got) })
		h.want = rkUnion(h.want, []uint64{v})
	case "Import", "ImportClear":
		payload := rkNorm(r.histValues(h, 1+r.rng.Intn(10), false))
		if r.rng.Intn(5) == 0 { // whole ranges: run and bitmap payload containers
			base := h.keys[r.rng.Intn(len(h.keys))] << 16
			n := []int{300, 4096, 5000, 65536}[r.rng.Intn(4)]
			st := uint64(1 + r.rng.Intn(2))
			for i := 0; i < n && uint64(i)*st < 65536; i++ {
				payload = append(payload, base+uint64(i)*st)
			}
			payload = rkNorm(payload)
		}
		format := r.rng.Intn(3)
		if format == 2 && !rkOfficialOK(payload) {
			format = 0
		}
		rowSize := []uint64{0, 1, 2, 16}[r.rng.Intn(4)]
		h.want, _ = r.importInto(P, b, h.want, payload, name == "ImportClear", h.logging, format, rowSize)
	case "UnionInPlace":
		vs := rkNorm(r.histValues(h, 1+r.rng.Intn(10), false))
		o := NewBitmap(rkCopy(vs)...)
		o2 := NewFileBitmap(rkCopy(h.want)...) // everything already there: nothing may change
		r.op("UnionInPlace(NewBitmap(%v), copy of b)", vs)
		b.UnionInPlace(o, o2)
		h.want = rkUnion(h.want, vs)
	case "Reopen":
		// what reopening a fragment does: decode snapshot+log from the file into a new
		// bitmap, keep appending to the same file; the old bitmap and its mapping go away
		data := append(append([]byte{}, h.snap...), h.log.Bytes()...)
		var nb *Bitmap
		if r.rng.Intn(4) > 0 {
			nb = NewFileBitmap()
		} else {
			nb = NewBitmap()
		}
		r.op("Reopen(b = decode(snapshot+log); keep appending)")
		err := nb.UnmarshalBinary(data)
		if !r.cmp(err == nil, []string{"C05"}, "replay-decode-error", func() string { return "reopen: UnmarshalBinary(snapshot+log): " + err.Error() }) {
			return name
		}
		lops, lopN := b.Ops()
		ops, opN := nb.Ops()
		r.cmp(ops == lops && opN == lopN, []string{"C05"}, "replay-counters", func() string {
			return fmt.Sprintf("reopen: decoded (ops,opN) = (%d,%d), live bitmap reported (%d,%d)", ops, opN, lops, lopN)
		})
		if h.x.buf != nil {
			for i := range h.x.buf {
				h.x.buf[i] = 0x69
			}
		}
		h.snap = append([]byte{}, data...)
		h.log = &bytes.Buffer{}
		nb.OpWriter = h.log
		h.b = nb
		h.x = &rkBM{b: nb, flv: h.x.flv, cls: "mapped", buf: data, orig: append([]byte{}, data...)}
	case "Optimize":
		r.op("Optimize()")
		b.Optimize()
	case "Freeze", "Clone":
		var v *Bitmap
		if name == "Freeze" {
			v = b.Freeze()
		} else {
			v = b.Clone()
		}
		r.op("view := %s()", name)
		if len(h.views) >= 3 {
			h.views = h.views[1:]
		}
		h.views = append(h.views, rkDerived{name, v, rkCopy(h.want)})
	case "Snapshot":
		// what the fragment does: write a new file, remap the containers onto it, reset the counters and the log
		var buf bytes.Buffer
		_, err := b.WriteTo(&buf)
		if err != nil {
			panic(err)
		}
		nb := buf.Bytes()
		remap := r.rng.Intn(3) > 0
		r.op("Snapshot(WriteTo, remap=%v, SetOps(0,0))", remap)
		if remap {
			_, err = b.RemapRoaringStorage(nb)
		} else {
			_, err = b.RemapRoaringStorage(nil)
		}
		r.cmp(err == nil, []string{"C03"}, "remap-error", func() string { return "RemapRoaringStorage: " + err.Error() })
		if h.x.buf != nil {
			for i := range h.x.buf {
				h.x.buf[i] = 0x3C // old mapping is unmapped
			}
		}
		if remap {
			h.x.buf, h.x.orig = nb, append([]byte{}, nb...)
		} else {
			h.x.buf, h.x.orig = nil, nil
		}
		if h.logging {
			h.snap = append([]byte{}, nb...)
			h.log.Reset()
			b.SetOps(0, 0)
		}
	}
	return name
}

func (r *rkRun) phaseHistories(nSeq, steps int) {
	flvs := []string{"slice", "file", "file", "slice<-pilosa", "file<-pilosa", "file<-pilosa-unopt", "file-remapped", "slice<-official", "file+opt", "frozen-of-slice", "trimmed-after-opt"}
	for s := 0; s < nSeq; s++ {
		h := &rkHist{}
		nk := 1 + r.rng.Intn(2)
		pool := rkKeysAll
		flv := flvs[s%len(flvs)]
		if s%2 == 0 || flv == "slice<-official" {
			pool = rkKeysOfficial
		}
		h.keys = r.pickKeys(pool, nk)
		for _, k := range h.keys {
			for _, l := range rkEdgeLows {
				h.univ = append(h.univ, k<<16|uint64(l))
			}
			for l := uint64(100); l < 130; l++ {
				h.univ = append(h.univ, k<<16|l)
			}
		}
		var init rkSet
		switch r.rng.Intn(4) {
		case 0:
			init = rkSet{desc: "{}"}
		case 1:
			init = rkSet{vals: rkNorm(r.histValues(h, 12, false)), desc: "few"}
			init.desc = rkShow(init.vals)
		default:
			kinds := make([]int, nk)
			for i := range kinds {
				kinds[i] = -1
			}
			init = r.genSet(h.keys, kinds)
		}
		if flv == "slice<-official" && !rkOfficialOK(init.vals) {
			flv = "slice"
		}
		r.seq = []string{fmt.Sprintf("b := %s %s", flv, init.desc)}
		h.x = r.build(flv, init.vals)
		if h.x == nil {
			continue
		}
		h.b, h.want, h.cls = h.x.b, rkCopy(init.vals), "hist-"+h.x.cls
		h.logging = s%3 != 0
		if h.logging {
			// the file is the snapshot; operations are appended to it
			ok := r.guard([]string{"C05"}, "snapshot", func() {
				if h.x.buf != nil && h.x.cls == "mapped" {
					h.snap = append([]byte{}, h.x.orig...)
				} else {
					var buf bytes.Buffer
					if _, err := h.b.WriteTo(&buf); err != nil {
						panic(err)
					}
					h.snap = buf.Bytes()
				}
			})
			if !ok {
				continue
			}
			h.log = &bytes.Buffer{}
			h.b.OpWriter = h.log
			r.op("snapshot := bytes of b; b.OpWriter = log")
			h.cls += "-logged"
		}
		for st := 0; st < steps; st++ {
			var name string
			if !r.guard([]string{"C02"}, "mutation", func() { name = r.histStep(h) }) {
				break
			}
			r.hit("hist:" + flv + ":" + name + ":" + rkTypes(h.b))
			ctx := fmt.Sprintf("%s bitmap after %s [%s]", flv, r.seq[len(r.seq)-1], rkTypes(h.b))
			r.checkReads([]string{"C02"}, h.cls, ctx, h.b, h.want)
			r.checkBuf(h.x, name)
			for _, v := range h.views {
				r.checkLight([]string{"C03"}, "view-changed:"+v.name, fmt.Sprintf("%s() view taken earlier, after %s on the source", v.name, r.seq[len(r.seq)-1]), v.b, v.want)
			}
			if h.logging && (r.rng.Intn(4) == 0 || st == steps-1) {
				r.replay(h, fmt.Sprintf("after %d logged steps", st+1))
			}
		}
	}
}

// ---------------------------------------------------------------- phase D: official format decoding and imports (C04)

func (r *rkRun) officialCase(set rkSet, asRun func(i int, k uint16, lows []uint16) bool, target rkSet, tflv string) {
	P := []string{"C04"}
	enc, desc := rkEncodeOfficial(set.vals, asRun)
	// signatures carry the features of the encoding that select the decoding path
	tag := ""
	if strings.Contains(desc, "cookie 12347, offsets true") {
		tag += "[run-cookie,>=4-containers]"
	}
	if strings.Contains(desc, "array(card 4096)") {
		tag += "[array-card-4096]"
	}
	if strings.Contains(desc, "... 65536 containers") {
		tag += "[65536-containers]"
	}
	// The bytes live in front of 512 KiB of slack so that a decoder that runs past
	// the end of the input cannot corrupt the heap of the test process.
	const slack = 512 << 10
	whole := make([]byte, len(enc)+slack)
	copy(whole, enc)
	data := whole[:len(enc):len(enc)]
	slackClean := func() bool {
		for _, c := range whole[len(enc):] {
			if c != 0 {
				return false
			}
		}
		return true
	}
	orig := append([]byte{}, data...)
	r.seq = []string{fmt.Sprintf("data := %s of %s", desc, set.desc)}
	r.hit("official:" + strings.SplitN(desc, ",", 3)[0] + fmt.Sprintf(":n>=4=%v", strings.Contains(desc, "offsets true")))
	firstOK := false
	for pass, mk := range []func(...uint64) *Bitmap{NewBitmap, NewFileBitmap, NewBitmap} {
		var d *Bitmap
		which := []string{"NewBitmap", "NewFileBitmap", "NewBitmap (second decode of the same bytes)"}[pass]
		r.op("%s().UnmarshalBinary(data)", which)
		ok := r.guard(P, "official-decode"+tag, func() {
			d = mk()
			err := d.UnmarshalBinary(data)
			if !r.cmp(err == nil, P, "official-decode-error"+tag, func() string { return desc + ": UnmarshalBinary: " + err.Error() }) {
				d = nil
			}
		})
		if ok && d != nil {
			sig := "official-decode-set" + tag
			if pass == 2 {
				sig = "official-decode-twice" + tag
			}
			got := d.Slice()
			if pass == 2 && !firstOK {
				// the first decode was already wrong: a second one adds nothing
			} else if r.cmp(rkEq(got, set.vals), P, sig, func() string { return fmt.Sprintf("%s decoded into %s: %s", desc, which, rkFirstDiff(got, set.vals)) }) && pass < 2 {
				firstOK = firstOK || pass == 0
				r.checkReads([]string{"C01", "C04"}, "official", desc+" decoded into "+which, d, set.vals)
				// mutate the decoded bitmap: reads follow, input bytes stay
				before := append([]byte{}, data...)
				w := rkCopy(set.vals)
				for n := 0; n < 3; n++ {
					var md string
					if !r.guard([]string{"C02"}, "official-decoded-mutation"+tag, func() { w, md, _ = r.mutateBitmap(d, w, nil) }) {
						break
					}
					r.op("decoded.%s", md)
					r.checkLight([]string{"C02"}, "official-decoded-after-mutation"+tag, desc+" decoded, then "+md, d, w)
				}
				r.cmp(bytes.Equal(data, before), []string{"C02", "C04"}, "official-decoded-mutation-writes-input"+tag, func() string {
					return desc + ": mutating the decoded bitmap wrote into the input bytes"
				})
				r.seq = r.seq[:2]
			}
		}
		r.cmp(bytes.Equal(data, orig), P, "official-decode-modifies-input"+tag, func() string {
			i := 0
			for i < len(data) && data[i] == orig[i] {
				i++
			}
			return fmt.Sprintf("%s: UnmarshalBinary into %s modified the input at offset %d (%#x -> %#x)", desc, which, i, orig[i], data[i])
		})
		if !r.cmp(slackClean(), P, "official-decode-writes-past-input"+tag, func() string {
			return fmt.Sprintf("%s: UnmarshalBinary into %s wrote to memory behind the end of the %d input bytes", desc, which, len(data))
		}) {
			for i := range whole[len(enc):] {
				whole[len(enc)+i] = 0
			}
		}
		copy(data, orig)
		r.seq = r.seq[:1]
	}
	// import set / clear into a target
	for _, clear := range []bool{false, true} {
		r.seq = []string{fmt.Sprintf("data := %s of %s", desc, set.desc), fmt.Sprintf("t := %s %s", tflv, target.desc)}
		T := r.build(tflv, target.vals)
		if T == nil {
			continue
		}
		rowSize := []uint64{0, 1, 2, 16}[r.rng.Intn(4)]
		r.op("t.ImportRoaringBits(data, clear=%v, log=false, rowSize=%d)", clear, rowSize)
		r.guard(P, "official-import"+tag, func() {
			var nw []uint64
			if clear {
				nw = rkDiff(target.vals, set.vals)
			} else {
				nw = rkUnion(target.vals, set.vals)
			}
			changed, rowSet, err := T.b.ImportRoaringBits(data, clear, false, rowSize)
			r.cmp(err == nil, P, "official-import-error"+tag, func() string { return desc + ": ImportRoaringBits: " + err.Error() })
			wch := len(nw) - len(target.vals)
			if clear {
				wch = -wch
			}
			got := T.b.Slice()
			if !r.cmp(rkEq(got, nw), P, "official-import-set"+tag, func() string {
				return fmt.Sprintf("%s imported (clear=%v) into %s [%s]: %s", desc, clear, tflv, rkTypes(T.b), rkFirstDiff(got, nw))
			}) {
				copy(data, orig)
				return // the counts of a wrong import say nothing more
			}
			r.cmp(changed == wch, P, "official-import-changed-count"+tag, func() string {
				return fmt.Sprintf("%s imported (clear=%v) into %s: reports %d changed, model %d", desc, clear, tflv, changed, wch)
			})
			wrs := r.rowSetWant(target.vals, nw, rowSize)
			r.cmp(rkRowSetEq(rowSet, wrs), P, "official-import-rowset"+tag, func() string {
				return fmt.Sprintf("%s imported (clear=%v, rowSize=%d) into %s: rowSet %v, model %v", desc, clear, rowSize, tflv, rowSet, wrs)
			})
			r.cmp(bytes.Equal(data, orig), P, "official-import-modifies-input"+tag, func() string { return desc + ": ImportRoaringBits modified the payload" })
			if rkEq(got, nw) {
				r.checkReads([]string{"C02", "C04"}, "import-target", fmt.Sprintf("%s after import(clear=%v) of %s", tflv, clear, desc), T.b, nw)
			}
			r.checkBuf(T, "import")
			copy(data, orig)
		})
	}
}

func (r *rkRun) phaseOfficial(n int) {
	for i := 0; i < n; i++ {
		nk := 1 + r.rng.Intn(6)
		keys := r.pickKeys(rkKeysOfficial, nk)
		kinds := make([]int, nk)
		for j := range kinds {
			kinds[j] = -1
			if nk > 3 && r.rng.Intn(2) == 0 {
				kinds[j] = []int{0, 3, 8}[r.rng.Intn(3)] // keep big cases cheap
			}
		}
		set := r.genSet(keys, kinds)
		mode := i % 4 // 0: no runs, 1: runs where smaller, 2: random, 3: all runs
		md := r.rng.Int63()
		asRun := func(j int, k uint16, lows []uint16) bool {
			switch mode {
			case 0:
				return false
			case 1:
				nr := len(rkRunsOf(lows))
				return nr*4+2 < 2*len(lows) && nr*4+2 < 8192
			case 2:
				return (md>>uint(j))&1 == 1
			}
			return true
		}
		tk := r.pickKeys(rkKeysOfficial, 1+r.rng.Intn(2))
		if r.rng.Intn(2) == 0 {
			tk = keys[:1+r.rng.Intn(len(keys))]
			if len(tk) > 2 {
				tk = tk[:2]
			}
		}
		target := r.genSet(tk, []int{-1, -1})
		r.officialCase(set, asRun, target, rkFlavours[r.rng.Intn(8)])
	}
}

// specials: fixed adversarial inputs named in the property quantifiers.
func (r *rkRun) phaseSpecials() {
	noRun := func(int, uint16, []uint16) bool { return false }
	allRun := func(int, uint16, []uint16) bool { return true }
	firstRun := func(i int, _ uint16, _ []uint16) bool { return i == 0 }
	rng := func(k uint64, a, b, step uint64) []uint64 {
		var out []uint64
		for v := a; v <= b; v += step {
			out = append(out, k<<16|v)
		}
		return out
	}
	empty := rkSet{desc: "{}"}
	// array container of exactly 4096 values (the official limit is <= 4096)
	r.officialCase(rkSet{rng(0, 0, 8190, 2), "{key 0: 4096 even values}"}, noRun, empty, "slice")
	r.officialCase(rkSet{rng(1, 0, 8191, 2), "{key 1: 4096 even values}"}, noRun, rkSet{rng(1, 0, 9, 1), "{key 1: 0..9}"}, "file")
	r.officialCase(rkSet{rng(0, 0, 8192, 2), "{key 0: 4097 even values}"}, noRun, empty, "slice")
	// full containers, as bitset and as run
	r.officialCase(rkSet{rng(0, 0, 65535, 1), "{key 0: full}"}, noRun, rkSet{rng(0, 5, 9, 1), "{key 0: 5..9}"}, "slice")
	r.officialCase(rkSet{rng(65535, 0, 65535, 1), "{key 65535: full}"}, allRun, rkSet{rng(65535, 0, 65535, 1), "{key 65535: full}"}, "file+opt")
	// run cookie with fewer than / at least 4 containers (offset header appears at 4)
	for n := uint64(3); n <= 5; n++ {
		var vs []uint64
		for k := uint64(0); k < n; k++ {
			vs = append(vs, rng(k, 10*k, 10*k+20, 1)...)
		}
		r.officialCase(rkSet{vs, fmt.Sprintf("{%d containers, each a range of 21 values}", n)}, allRun, empty, "slice")
		r.officialCase(rkSet{vs, fmt.Sprintf("{%d containers, each a range of 21 values}", n)}, firstRun, empty, "file")
	}
	// 2^16 containers
	var vs []uint64
	for k := uint64(0); k < 65536; k++ {
		vs = append(vs, k<<16|(k%7))
	}
	vs = rkNorm(append(vs, rng(0, 0, 9, 1)...))
	r.officialCase(rkSet{vs, "{65536 containers, one value each, key 0 holds 0..9}"}, noRun, empty, "slice")
	r.officialCase(rkSet{vs, "{65536 containers, one value each, key 0 holds 0..9}"}, firstRun, empty, "slice")
	// Pilosa format with the highest key and value 2^64-1
	hi := rkSet{[]uint64{0, 65535, 65536, rkMaxU - 65536, rkMaxU - 1, rkMaxU}, "{0,65535,65536,2^64-65537,2^64-2,2^64-1}"}
	for _, f := range rkFlavours {
		if f == "slice<-official" {
			continue
		}
		r.seq = []string{fmt.Sprintf("b := %s %s", f, hi.desc)}
		if x := r.build(f, hi.vals); x != nil {
			r.checkReads([]string{"C01"}, x.cls, "flavour "+f, x.b, hi.vals)
			r.roundTrip("flavour "+f, x.b, hi.vals)
		}
	}
}

// shiftSpecials: the carry out of a container into every kind of next container.
func (r *rkRun) shiftSpecials() {
	rng := func(k, a, b, step uint64) []uint64 {
		var out []uint64
		for v := a; v <= b; v += step {
			out = append(out, k<<16|v)
		}
		return out
	}
	lows := map[string][]uint64{
		"{65535}":            {65535},
		"{0,65535}":          {0, 65535},
		"range[65000,65535]": rng(0, 65000, 65535, 1),
		"full":               rng(0, 0, 65535, 1),
		"stride2 to 65535":   rng(0, 65535-2*4999, 65535, 2),
	}
	nexts := map[string][]uint64{
		"absent":                     nil,
		"{0}":                        {0},
		"{1}":                        {1},
		"{65535}":                    {65535},
		"4096 values from 1, step 2": rng(0, 1, 8191, 2),
		"4096 values from 2, step 2": rng(0, 2, 8192, 2),
		"4095 values from 1, step 2": rng(0, 1, 8189, 2),
		"5000 values from 1, step 2": rng(0, 1, 9999, 2),
		"range[1,65535]":             rng(0, 1, 65535, 1),
		"range[1,65534]":             rng(0, 1, 65534, 1),
		"full":                       rng(0, 0, 65535, 1),
		"range[0,9]":                 rng(0, 0, 9, 1),
	}
	ln, nn := []string{}, []string{}
	for k := range lows {
		ln = append(ln, k)
	}
	for k := range nexts {
		nn = append(nn, k)
	}
	sort.Strings(ln)
	sort.Strings(nn)
	combo := 0
	for _, base := range []uint64{0, 7, maxContainerKey - 1} {
		for _, l := range ln {
			for _, n := range nn {
				for gap := uint64(1); gap <= 2; gap++ {
					if base+gap > maxContainerKey || (base != 0 && (len(lows[l]) > 5000 || len(nexts[n]) > 5000)) {
						continue
					}
					var vals []uint64
					for _, v := range lows[l] {
						vals = append(vals, base<<16|v)
					}
					for _, v := range nexts[n] {
						vals = append(vals, (base+gap)<<16|v)
					}
					vals = rkNorm(vals)
					for fi, flv := range []string{"slice", "file+opt", "slice<-pilosa", "intersect-result"} {
						combo++
						if !r.thorough && combo%4 != fi && !(fi == 3 && gap == 2) {
							continue // quick tier: one flavour per combination, rotating
						}
						r.seq = []string{fmt.Sprintf("b := %s {key %d: %s; key %d: %s}", flv, base, l, base+gap, n), "b.Shift(1)"}
						x := r.build(flv, vals)
						if x == nil {
							continue
						}
						r.hit("shift:" + rkTypes(x.b))
						r.guard([]string{"C01"}, "Shift", func() {
							o, err := x.b.Shift(1)
							if err != nil {
								panic(err)
							}
							r.checkLight([]string{"C01"}, "Shift-carry", fmt.Sprintf("%s [%s] Shift(1)", flv, rkTypes(x.b)), o, rkShift(vals))
							r.checkLight([]string{"C01", "C03"}, "operand-changed-by:A.Shift", "operand after Shift(1)", x.b, vals)
						})
						r.checkBuf(x, "Shift")
					}
				}
			}
		}
	}
}

// phaseWide: file-backed (B-tree) and slice bitmaps with enough containers to split tree
// nodes; containers come and go (C02: tree.Put / enumerator.Every, delete while enumerating).
func (r *rkRun) phaseWide(nSeq, steps int) {
	P := []string{"C02"}
	for s := 0; s < nSeq; s++ {
		nKeys := []int{600, 1300, 2100}[s%3]
		var vals []uint64
		for k := 0; k < nKeys; k++ {
			if r.rng.Intn(10) == 0 {
				continue
			}
			n := 1 + r.rng.Intn(3)
			for i := 0; i < n; i++ {
				vals = append(vals, uint64(k)<<16|uint64(rkEdgeLows[r.rng.Intn(len(rkEdgeLows))]))
			}
		}
		vals = rkNorm(vals)
		flv := []string{"file", "file<-pilosa", "slice", "file-remapped"}[s%4]
		r.seq = []string{fmt.Sprintf("b := %s {%d values spread over keys 0..%d, 1-3 edge values per key}", flv, len(vals), nKeys-1)}
		x := r.build(flv, vals)
		if x == nil {
			continue
		}
		want := rkCopy(vals)
		for st := 0; st < steps; st++ {
			k0 := uint64(r.rng.Intn(nKeys))
			span := uint64(1 + r.rng.Intn(300))
			inRange := rkCopy(rkSliceRange(want, k0<<16, (k0+span)<<16))
			var fresh []uint64
			for k := k0; k < k0+span; k += 1 + uint64(r.rng.Intn(3)) {
				fresh = append(fresh, k<<16|uint64(rkEdgeLows[r.rng.Intn(len(rkEdgeLows))]))
			}
			name := ""
			ok := r.guard(P, "wide-mutation", func() {
				switch r.rng.Intn(7) {
				case 0:
					name = fmt.Sprintf("RemoveN(all %d values of keys [%d,%d))", len(inRange), k0, k0+span)
					r.op("%s", name)
					got, err := x.b.RemoveN(rkCopy(inRange)...)
					r.cmp(err == nil && got == len(inRange), P, "RemoveN-changed", func() string { return fmt.Sprintf("%s = (%d,%v), model %d", name, got, err, len(inRange)) })
					want = rkDiff(want, inRange)
				case 1:
					name = fmt.Sprintf("Remove(each of the %d values of keys [%d,%d))", len(inRange), k0, k0+span)
					r.op("%s", name)
					for _, v := range inRange {
						got, _ := x.b.Remove(v)
						r.cmp(got, P, "Remove-changed", func() string { return fmt.Sprintf("Remove(%d) = false for a member", v) })
					}
					want = rkDiff(want, inRange)
				case 2:
					name = fmt.Sprintf("AddN(%d values over keys [%d,%d))", len(fresh), k0, k0+span)
					r.op("%s", name)
					nw := rkUnion(want, fresh)
					got, err := x.b.AddN(rkCopy(fresh)...)
					r.cmp(err == nil && got == len(nw)-len(want), P, "AddN-changed", func() string { return fmt.Sprintf("%s = (%d,%v), model %d", name, got, err, len(nw)-len(want)) })
					want = nw
				case 3:
					clear := r.rng.Intn(3) > 0
					payload := inRange
					if !clear {
						payload = rkNorm(fresh)
					}
					r.op("keys [%d,%d):", k0, k0+span)
					want, name = r.importInto(P, x.b, want, payload, clear, false, r.rng.Intn(2), uint64(r.rng.Intn(3)))
				case 4:
					name = "Optimize()"
					r.op("%s", name)
					x.b.Optimize()
				case 5:
					name = fmt.Sprintf("DirectRemoveN(%d values of keys [%d,%d)) then DirectAddN(%d values)", len(inRange), k0, k0+span, len(fresh))
					r.op("%s", name)
					got := x.b.DirectRemoveN(rkCopy(inRange)...)
					r.cmp(got == len(inRange), P, "DirectRemoveN-changed", func() string { return fmt.Sprintf("%s: removed %d, model %d", name, got, len(inRange)) })
					want = rkDiff(want, inRange)
					nw := rkUnion(want, fresh)
					got = x.b.DirectAddN(rkCopy(fresh)...)
					r.cmp(got == len(nw)-len(want), P, "DirectAddN-changed", func() string { return fmt.Sprintf("%s: added %d, model %d", name, got, len(nw)-len(want)) })
					want = nw
				default:
					o := NewBitmap(rkCopy(fresh)...)
					name = fmt.Sprintf("UnionInPlace(NewBitmap(%d values over keys [%d,%d)))", len(fresh), k0, k0+span)
					r.op("%s", name)
					x.b.UnionInPlace(o)
					want = rkUnion(want, fresh)
				}
			})
			if !ok {
				break
			}
			r.hit(fmt.Sprintf("wide:%s:%d:%s", flv, nKeys, strings.SplitN(name, "(", 2)[0]))
			r.checkReads(P, "wide-"+x.cls, fmt.Sprintf("%s bitmap with about %d containers after %s", flv, nKeys, name), x.b, want)
			r.checkBuf(x, name)
		}
		r.roundTrip("wide "+flv, x.b, want)
	}
}

// flipMax: Flip over a closed range that ends at 2^64-1. Runs last: if the call does not
// return, the goroutine is abandoned when the test process exits.
func (r *rkRun) flipMax() {
	r.seq = []string{"b := NewBitmap(5, 2^64-2)", "b.Flip(2^64-3, 2^64-1)"}
	done := make(chan []uint64, 1)
	go func() {
		defer func() {
			if e := recover(); e != nil {
				done <- []uint64{0xdead}
			}
		}()
		done <- NewBitmap(5, rkMaxU-1).Flip(rkMaxU-2, rkMaxU).Slice()
	}()
	want := []uint64{5, rkMaxU - 2, rkMaxU}
	select {
	case got := <-done:
		r.cmp(rkEq(got, want), []string{"C01"}, "Flip-end-2^64-1", func() string { return "Flip(2^64-3, 2^64-1): " + rkFirstDiff(got, want) })
	case <-time.After(1500 * time.Millisecond):
		r.cmp(false, []string{"C01"}, "Flip-end-2^64-1-never-returns", func() string {
			return "Flip(start, 2^64-1) does not return within 1.5 s on a 2-value bitmap (the loop counter wraps around)"
		})
	}
}

func TestRcheckRoaring(t *testing.T) {
	seed := int64(1)
	if s := os.Getenv("VERIF_SEED"); s != "" {
		if v, err := strconv.ParseInt(s, 10, 64); err == nil {
			seed = v
		}
	}
	thorough := os.Getenv("VERIF_TIER") == "thorough"
	nReads, nVar, nRand, nSeq, steps, nOff, nWide, stepsWide := 26, 1, 6, 55, 10, 18, 4, 10
	if thorough {
		nReads, nVar, nRand, nSeq, steps, nOff, nWide, stepsWide = 600, 20, 300, 2000, 24, 800, 100, 40
	}
	res := &rkResult{Harness: "roaring", Failures: []rkFailure{}, Samples: []interface{}{},
		Rule:  "an evaluation is one comparison of a value returned by the real code with the model; a case is distinct and non-trivial when it is the first to reach a combination (operation or read phase, construction flavour, container encodings of the operands / of the bitmap after the step); counted by that combination key",
		Bound: fmt.Sprintf("seed %d; container keys %v; 9 shape families per container (edge values 0/1/63/64/4095/4096/65535, strides and pairs around 4096 values and 2048 runs, ranges, full, full minus <=3); flavours %v; phase A %d sets x 5 flavours (all reads + WriteTo/UnmarshalBinary round trip); phase B %d x 9 encoding pairs + %d random triples (24 set operations each, then isolation under source/derived mutation, remap, close); phase C %d histories x %d mutations (2/3 with operation log and replay); phase D %d random official-format encodings + 14 fixed ones, each decoded 3 times and imported set/clear; Shift carry matrix (5 x 12 container shapes x gap 1..2 x 4 flavours); phase W %d histories x %d mutations on bitmaps with 600..2100 containers", seed, rkKeysAll, rkFlavours, nReads, nVar, nRand, nSeq, steps, nOff, nWide, stepsWide)}
	r := &rkRun{t: t, res: res, rng: rand.New(rand.NewSource(seed)), cover: map[string]bool{}, thorough: thorough}
	defer debug.SetGCPercent(debug.SetGCPercent(400))
	start := time.Now()
	lap := func(name string) {
		t.Logf("%s done at %.1fs, evaluations %d, distinct %d, failures %d", name, time.Since(start).Seconds(), res.Evaluations, len(r.cover), len(res.Failures))
	}
	r.phaseReads(nReads)
	lap("phase A")
	r.phaseBinops(nVar, nRand)
	lap("phase B")
	r.phaseHistories(nSeq, steps)
	lap("phase C")
	r.phaseOfficial(nOff)
	lap("phase D")
	r.phaseSpecials()
	r.rejectedImports()
	r.truncatedOfficial()
	r.shiftSpecials()
	lap("specials")
	r.phaseWide(nWide, stepsWide)
	lap("phase W")
	r.flipMax()
	res.Distinct = len(r.cover)
	for i, k := range r.coverOrd {
		if i%(len(r.coverOrd)/4+1) == 0 && len(res.Samples) < 4 {
			res.Samples = append(res.Samples, k)
		}
	}
	if os.Getenv("RCHECK_COVER") != "" {
		ops := map[string]int{}
		for k := range r.cover {
			if !strings.HasPrefix(k, "hist:") && !strings.HasPrefix(k, "reads:") {
				ops[k]++
			}
		}
		keys := []string{}
		for k := range ops {
			keys = append(keys, k)
		}
		sort.Strings(keys)
		t.Logf("coverage: %v", keys)
	}
	if out := os.Getenv("RCHECK_OUT"); out != "" {
		data, _ := json.MarshalIndent(res, "", " ")
		if err := ioutil.WriteFile(out, data, 0o644); err != nil {
			t.Fatal(err)
		}
	}
	for _, f := range res.Failures {
		t.Logf("FAIL %v %s: %s\n   seq: %s", f.Props, f.Sig, f.What, strings.Join(f.Seq, " ; "))
	}
}

// rejectedImports (C06 / C04): an import payload whose LAST container is malformed is
// rejected by the iterator only after the earlier containers have been visited; the
// rejection must leave the bitmap exactly as it was (set, counts, op counters).
func (r *rkRun) rejectedImports() {
	payloadSets := [][]uint64{
		{1, 2, 3, 65536 + 7},
		{5, 70000, 140000},
		{0, 65535, 65536, 131071, 196608},
	}
	for pi, vals := range payloadSets {
		for _, clear := range []bool{false, true} {
			src := NewBitmap(vals...)
			var buf bytes.Buffer
			if _, err := src.WriteTo(&buf); err != nil {
				continue
			}
			data := buf.Bytes()
			keyN := int(binary.LittleEndian.Uint32(data[4:8]))
			if keyN < 2 {
				continue
			}
			// corrupt the offset of the last container
			off := 8 + keyN*12 + (keyN-1)*4
			binary.LittleEndian.PutUint32(data[off:], uint32(len(data)+100))
			start := []uint64{9, 65536 + 7, 131071}
			dst := NewBitmap(start...)
			before := dst.Slice()
			var err error
			var changed int
			r.seq = []string{fmt.Sprintf("NewBitmap(%v)", start), fmt.Sprintf("ImportRoaringBits(payload of %v with the offset of its last container pointing past the end, clear=%v)", vals, clear)}
			if !r.guard([]string{"C06"}, "rejected-import", func() { changed, _, err = dst.ImportRoaringBits(data, clear, false, 0) }) {
				continue
			}
			if err == nil {
				continue // accepted: nothing to demand here
			}
			after := dst.Slice()
			r.cmp(rkEq(before, after), []string{"C06", "C04"}, "rejected-import-changed-data", func() string {
				return fmt.Sprintf("payload %d: the import was rejected (%v, changed=%d) but the bitmap went from %v to %v", pi, err, changed, before, after)
			})
		}
	}
	r.seq = nil
}

// truncatedOfficial (C06): official-format bytes whose declared container extents
// reach past the end of the input must be rejected; if they are accepted, every later
// read of the bitmap dereferences memory behind the buffer (behind the mapping, for a
// mapped file), which the process cannot recover from.
func (r *rkRun) truncatedOfficial() {
	le := binary.LittleEndian
	build := func(cookieRuns bool, card int, present int) []byte {
		var buf []byte
		b4 := make([]byte, 4)
		b2 := make([]byte, 2)
		if cookieRuns {
			le.PutUint32(b4, 12347) // one container, run cookie, container 0 is NOT a run
			buf = append(buf, b4...)
			buf = append(buf, 0) // is-run bitset
		} else {
			le.PutUint32(b4, 12346)
			buf = append(buf, b4...)
			le.PutUint32(b4, 1)
			buf = append(buf, b4...)
		}
		le.PutUint16(b2, 0)
		buf = append(buf, b2...)
		le.PutUint16(b2, uint16(card-1))
		buf = append(buf, b2...)
		if !cookieRuns {
			le.PutUint32(b4, uint32(len(buf)+4))
			buf = append(buf, b4...)
		}
		for i := 0; i < present; i++ {
			le.PutUint16(b2, uint16(i*3))
			buf = append(buf, b2...)
		}
		return append([]byte{}, buf...)
	}
	for _, runs := range []bool{false, true} {
		for _, c := range [][2]int{{1000, 5}, {4096, 100}, {5000, 8}, {10, 9}} {
			data := build(runs, c[0], c[1])
			var err error
			r.seq = []string{fmt.Sprintf("UnmarshalBinary(official bytes, run cookie %v, one container declaring %d values, %d present, %d bytes)", runs, c[0], c[1], len(data))}
			bm := NewBitmap()
			if !r.guard([]string{"C06"}, "truncated-official", func() { err = bm.UnmarshalBinary(data) }) {
				continue
			}
			r.cmp(err != nil, []string{"C06"}, "truncated-official-accepted", func() string {
				return fmt.Sprintf("a container declaring %d values with only %d present (%d input bytes) was accepted: its storage points past the input", c[0], c[1], len(data))
			})
		}
	}
	r.seq = nil
}
