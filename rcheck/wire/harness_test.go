package proto

// BOUNDED stand-in (never counted as proved) for C27: internal messages and
// responses survive encoding unchanged.  In-package test of encoding/proto,
// injected with `go test -overlay`; results go to $RCHECK_OUT.
//
// For each of the 28 message / request / response types the Serializer handles,
// random values are generated (empty and nil slices and maps, empty strings,
// Unicode, 0 / 1 / MaxUint64 / MinInt64 / MaxInt64, nested structures, every
// query result kind incl. nil and (*Row)(nil)), marshalled, unmarshalled into a
// fresh zero value and compared field by field through reflection (every
// exported field, so fields added later are covered automatically).  Broadcast
// message types additionally go through pilosa.MarshalInternalMessage (type
// byte + body); the type bytes must be distinct per type.
//
// Equality: a nil and an empty slice / map are the same value (the wire format
// cannot tell them apart), likewise a nil pointer and a pointer to an all-zero
// struct (CreateFieldMessage.Meta); *roaring.Bitmap by its elements; *pilosa.Row by
// columns, keys and attributes; error by its text; dynamic types of query
// results must be identical (pilosa.RowIdentifiers is not *pilosa.RowIdentifiers).
// Not compared: QueryRequest.Index (by design carried in the URL and filled in
// by the handler).  Pointer fields are generated non-nil except where the
// encoder itself accepts nil (CreateFieldMessage.Meta, a nil *Row result);
// FieldRow carries either RowID or RowKey; attribute values are string /
// int64 / bool / float64; strings are valid UTF-8; an error has a non-empty text.
//
// Arbitrary bytes: for every type, Unmarshal is fed the empty string, random
// strings, every proper prefix of valid encodings and single-bit flips of valid
// encodings; it may return an error or a value but must not panic.

import (
	"encoding/json"
	"errors"
	"fmt"
	"math"
	"math/rand"
	"os"
	"reflect"
	"sort"
	"strconv"
	"strings"
	"testing"

	"github.com/pilosa/pilosa"
	"github.com/pilosa/pilosa/roaring"
)

type wFailure struct {
	Props []string `json:"props"`
	What  string   `json:"what"`
	Sig   string   `json:"signature"`
	Seq   []string `json:"sequence"`
}

type wResult struct {
	Harness     string        `json:"harness"`
	Bound       string        `json:"bound"`
	Evaluations int           `json:"evaluations"`
	Distinct    int           `json:"distinct_nontrivial"`
	Rule        string        `json:"rule"`
	Exhaustive  bool          `json:"exhaustive"`
	Samples     []interface{} `json:"samples"`
	Failures    []wFailure    `json:"failures"`
}

func (r *wResult) fail(sig, what string, seq ...string) {
	total := func(s []string) int { return len(strings.Join(s, "")) }
	for i, f := range r.Failures {
		if f.Sig == sig {
			if total(seq) < total(f.Seq) {
				r.Failures[i].What, r.Failures[i].Seq = what, seq
			}
			return
		}
	}
	r.Failures = append(r.Failures, wFailure{Props: []string{"C27"}, What: what, Sig: sig, Seq: seq})
}

func wShort(s string) string {
	if len(s) > 400 {
		return s[:400] + "..."
	}
	return s
}

// ---------------------------------------------------------------- canonical tree

// wTree flattens a value into path -> leaf text.  Index positions are part of the
// key (".[3]"), the signature uses the path with indices removed.
func wTree(v reflect.Value, path string, out map[string]string) {
	if !v.IsValid() {
		out[path] = "nil"
		return
	}
	// special types first
	if v.CanInterface() {
		switch x := v.Interface().(type) {
		case *roaring.Bitmap:
			if x == nil {
				out[path] = "bitmap(nil)"
			} else {
				out[path] = fmt.Sprintf("bitmap%v", x.Slice())
			}
			return
		case *pilosa.Row:
			if x == nil {
				out[path] = "(*Row)(nil)"
				return
			}
			out[path] = "*Row"
			out[path+".Columns"] = fmt.Sprintf("%v", append([]uint64{}, x.Columns()...))
			wTree(reflect.ValueOf(x.Keys), path+".Keys", out)
			wTree(reflect.ValueOf(x.Attrs), path+".Attrs", out)
			return
		case error:
			if x == nil {
				out[path] = "nil"
			} else {
				out[path] = "error(" + x.Error() + ")"
			}
			return
		}
	}
	switch v.Kind() {
	case reflect.Ptr:
		if v.IsNil() { // an absent sub-message and an all-default one are the same value
			wTree(reflect.Zero(v.Type().Elem()), path, out)
			return
		}
		wTree(v.Elem(), path, out)
	case reflect.Interface:
		if v.IsNil() {
			out[path] = "nil"
			return
		}
		out[path+".(type)"] = v.Elem().Type().String()
		wTree(v.Elem(), path, out)
	case reflect.Struct:
		t := v.Type()
		for i := 0; i < t.NumField(); i++ {
			if t.Field(i).PkgPath != "" {
				continue // unexported
			}
			wTree(v.Field(i), path+"."+t.Field(i).Name, out)
		}
	case reflect.Slice:
		if v.Type().Elem().Kind() == reflect.Uint8 {
			out[path] = fmt.Sprintf("bytes(%x)", v.Bytes())
			return
		}
		out[path+".len"] = strconv.Itoa(v.Len()) // nil == empty
		for i := 0; i < v.Len(); i++ {
			wTree(v.Index(i), fmt.Sprintf("%s.[%d]", path, i), out)
		}
	case reflect.Map:
		out[path+".len"] = strconv.Itoa(v.Len())
		keys := v.MapKeys()
		sort.Slice(keys, func(i, j int) bool { return fmt.Sprint(keys[i]) < fmt.Sprint(keys[j]) })
		for _, k := range keys {
			wTree(v.MapIndex(k), fmt.Sprintf("%s.{%v}", path, k), out)
		}
	case reflect.Float64, reflect.Float32:
		out[path] = fmt.Sprintf("%s(%s)", v.Type(), strconv.FormatFloat(v.Float(), 'g', -1, 64))
	case reflect.String:
		out[path] = fmt.Sprintf("%s(%q)", v.Type(), v.String())
	default:
		out[path] = fmt.Sprintf("%s(%v)", v.Type(), v)
	}
}

func wFlat(v reflect.Value) map[string]string {
	m := map[string]string{}
	wTree(v, "", m)
	return m
}

func wSame(a, b reflect.Value) bool { return reflect.DeepEqual(wFlat(a), wFlat(b)) }

func wIsZero(v reflect.Value) bool { return wSame(v, reflect.Zero(v.Type())) }

func wText(v reflect.Value) string {
	m := wFlat(v)
	keys := make([]string, 0, len(m))
	for k := range m {
		keys = append(keys, k)
	}
	sort.Strings(keys)
	var b strings.Builder
	for _, k := range keys {
		if b.Len() > 200 {
			b.WriteString("...")
			break
		}
		fmt.Fprintf(&b, "%s=%s ", strings.TrimPrefix(k, "."), m[k])
	}
	return strings.TrimSpace(b.String())
}

func wTypeName(t reflect.Type) string {
	r := strings.NewReplacer("pilosa.", "", "*", "ptr-", "[]", "slice-", " ", "")
	return r.Replace(t.String())
}

func wSpecial(v reflect.Value) bool {
	if !v.IsValid() || !v.CanInterface() {
		return false
	}
	switch v.Interface().(type) {
	case *roaring.Bitmap, *pilosa.Row, error:
		return true
	}
	return false
}

// wDiff walks sent and received in parallel and reports, per root cause, the
// shallowest place where they differ: key = "<struct type>.<field>" (plus a
// suffix for dynamic type / nil-ness / length differences), value = example.
// A struct-valued field that arrives entirely zero is reported as a whole.
func wDiff(sent, received interface{}) map[string]string {
	out := map[string]string{}
	var walk func(a, b reflect.Value, where, path string)
	report := func(where, suffix, path string, a, b reflect.Value) {
		key := where + suffix
		if _, ok := out[key]; !ok {
			out[key] = fmt.Sprintf("at %s: sent %s, received %s", strings.TrimPrefix(path, "."), wShort(wText(a)), wShort(wText(b)))
		}
	}
	walk = func(a, b reflect.Value, where, path string) {
		if wSame(a, b) {
			return
		}
		if wSpecial(a) || wSpecial(b) || a.Kind() != b.Kind() {
			report(where, "", path, a, b)
			return
		}
		switch a.Kind() {
		case reflect.Ptr:
			if a.IsNil() {
				a = reflect.New(a.Type().Elem())
			}
			if b.IsNil() {
				b = reflect.New(b.Type().Elem())
			}
			walk(a.Elem(), b.Elem(), where, path)
		case reflect.Interface:
			if a.IsNil() || b.IsNil() || a.Elem().Type() != b.Elem().Type() {
				name := "nil"
				if !a.IsNil() {
					name = wTypeName(a.Elem().Type())
				}
				report(where, "-"+name+"-dynamic-type", path, a, b)
				return
			}
			walk(a.Elem(), b.Elem(), where+"-"+wTypeName(a.Elem().Type()), path)
		case reflect.Struct:
			t := a.Type()
			for i := 0; i < t.NumField(); i++ {
				if t.Field(i).PkgPath != "" {
					continue
				}
				fa, fb := a.Field(i), b.Field(i)
				w, p := t.Name()+"."+t.Field(i).Name, path+"."+t.Field(i).Name
				if wSame(fa, fb) {
					continue
				}
				if wIsZero(fb) { // the field did not arrive at all
					report(w, "", p, fa, fb)
					continue
				}
				walk(fa, fb, w, p)
			}
		case reflect.Slice:
			if a.Len() != b.Len() {
				report(where, "(length)", path, a, b)
				return
			}
			for i := 0; i < a.Len(); i++ {
				walk(a.Index(i), b.Index(i), where, fmt.Sprintf("%s[%d]", path, i))
			}
		case reflect.Map:
			if a.Len() != b.Len() {
				report(where, "(length)", path, a, b)
				return
			}
			for _, k := range a.MapKeys() {
				bv := b.MapIndex(k)
				if !bv.IsValid() {
					report(where, "(key)", fmt.Sprintf("%s{%v}", path, k), a.MapIndex(k), reflect.ValueOf("absent"))
					continue
				}
				walk(a.MapIndex(k), bv, where, fmt.Sprintf("%s{%v}", path, k))
			}
		default:
			report(where, "", path, a, b)
		}
	}
	a, b := reflect.ValueOf(sent), reflect.ValueOf(received)
	walk(a, b, a.Type().String(), "")
	return out
}

// ---------------------------------------------------------------- generators

type wGen struct{ rng *rand.Rand }

var wStrings = []string{"", "", "a", "i", "field-1", "standard", "é", "日本語", "\U0001F600", "a b\tc\n", "\x00", "x y", strings.Repeat("k", 300)}

func (g *wGen) str() string { return wStrings[g.rng.Intn(len(wStrings))] }

func (g *wGen) u64() uint64 {
	switch g.rng.Intn(8) {
	case 0:
		return 0
	case 1:
		return 1
	case 2:
		return math.MaxUint64
	case 3:
		return 1 << 63
	case 4:
		return uint64(g.rng.Intn(1 << 20))
	}
	return g.rng.Uint64() >> uint(g.rng.Intn(64))
}

func (g *wGen) i64() int64 {
	switch g.rng.Intn(6) {
	case 0:
		return 0
	case 1:
		return -1
	case 2:
		return math.MaxInt64
	case 3:
		return math.MinInt64
	}
	return int64(g.rng.Uint64()) >> uint(g.rng.Intn(64))
}

func (g *wGen) n() int { return []int{0, 0, 1, 1, 2, 3, 7}[g.rng.Intn(7)] }

func (g *wGen) u64s() []uint64 {
	if g.rng.Intn(5) == 0 {
		return nil
	}
	a := make([]uint64, g.n())
	for i := range a {
		a[i] = g.u64()
	}
	return a
}

func (g *wGen) i64s() []int64 {
	if g.rng.Intn(5) == 0 {
		return nil
	}
	a := make([]int64, g.n())
	for i := range a {
		a[i] = g.i64()
	}
	return a
}

func (g *wGen) strs() []string {
	if g.rng.Intn(5) == 0 {
		return nil
	}
	a := make([]string, g.n())
	for i := range a {
		a[i] = g.str()
	}
	return a
}

func (g *wGen) bool() bool { return g.rng.Intn(2) == 0 }

func (g *wGen) attrs() map[string]interface{} {
	if g.rng.Intn(4) == 0 {
		return nil
	}
	m := map[string]interface{}{}
	for i, n := 0, g.n(); i < n; i++ {
		var v interface{}
		switch g.rng.Intn(4) {
		case 0:
			v = g.str()
		case 1:
			v = g.i64()
		case 2:
			v = g.bool()
		default:
			v = []float64{0, 1.5, -2.25, 5, math.MaxFloat64, math.SmallestNonzeroFloat64, math.Inf(1)}[g.rng.Intn(7)]
		}
		m[g.str()] = v
	}
	return m
}

func (g *wGen) uri() pilosa.URI {
	return pilosa.URI{Scheme: []string{"", "http", "https", "http+protobuf"}[g.rng.Intn(4)], Host: g.str(), Port: []uint16{0, 1, 10101, 65535}[g.rng.Intn(4)]}
}

func (g *wGen) node() *pilosa.Node {
	return &pilosa.Node{ID: g.str(), URI: g.uri(), IsCoordinator: g.bool(), State: []string{"", "READY", "DOWN"}[g.rng.Intn(3)]}
}

func (g *wGen) nodes() []*pilosa.Node {
	if g.rng.Intn(5) == 0 {
		return nil
	}
	a := make([]*pilosa.Node, g.n())
	for i := range a {
		a[i] = g.node()
	}
	return a
}

func (g *wGen) fieldOptions() pilosa.FieldOptions {
	return pilosa.FieldOptions{
		Base: g.i64(), BitDepth: uint(g.rng.Intn(65)), Min: g.i64(), Max: g.i64(), Keys: g.bool(), NoStandardView: g.bool(),
		CacheSize: []uint32{0, 1, 50000, math.MaxUint32}[g.rng.Intn(4)], CacheType: []string{"", "ranked", "lru", "none"}[g.rng.Intn(4)],
		Type: []string{"", "set", "int", "time", "mutex", "bool"}[g.rng.Intn(6)], TimeQuantum: pilosa.TimeQuantum([]string{"", "Y", "YMDH", "D"}[g.rng.Intn(4)]),
	}
}

func (g *wGen) schema() *pilosa.Schema {
	s := &pilosa.Schema{}
	if g.rng.Intn(5) != 0 {
		s.Indexes = make([]*pilosa.IndexInfo, g.n())
	}
	for i := range s.Indexes {
		ii := &pilosa.IndexInfo{Name: g.str(), Options: pilosa.IndexOptions{Keys: g.bool(), TrackExistence: g.bool()}, ShardWidth: []uint64{0, 1 << 20}[g.rng.Intn(2)]}
		if g.rng.Intn(5) != 0 {
			ii.Fields = make([]*pilosa.FieldInfo, g.n())
		}
		for j := range ii.Fields {
			fi := &pilosa.FieldInfo{Name: g.str(), Options: g.fieldOptions()}
			if g.rng.Intn(3) != 0 {
				fi.Views = make([]*pilosa.ViewInfo, g.n())
				for k := range fi.Views {
					fi.Views[k] = &pilosa.ViewInfo{Name: g.str()}
				}
			}
			ii.Fields[j] = fi
		}
		s.Indexes[i] = ii
	}
	return s
}

func (g *wGen) nodeStatus() *pilosa.NodeStatus {
	// always at least one named index status, so that a NodeStatus that loses
	// one of its fields does not arrive entirely empty (failure attribution)
	ns := &pilosa.NodeStatus{Node: g.node(), Schema: g.schema()}
	ns.Indexes = make([]*pilosa.IndexStatus, 1+g.n())
	for i := range ns.Indexes {
		is := &pilosa.IndexStatus{Name: "idx" + g.str()}
		if g.rng.Intn(5) != 0 {
			is.Fields = make([]*pilosa.FieldStatus, g.n())
		}
		for j := range is.Fields {
			shards := g.u64s()
			is.Fields[j] = &pilosa.FieldStatus{Name: g.str(), AvailableShards: roaring.NewBitmap(shards...)}
		}
		ns.Indexes[i] = is
	}
	return ns
}

func (g *wGen) clusterStatus() *pilosa.ClusterStatus {
	return &pilosa.ClusterStatus{ClusterID: g.str(), State: []string{"", "NORMAL", "RESIZING", "STARTING"}[g.rng.Intn(4)], Nodes: g.nodes()}
}

func (g *wGen) row() *pilosa.Row {
	if g.rng.Intn(8) == 0 {
		return nil
	}
	cols := []uint64{}
	for i, n := 0, g.n(); i < n; i++ {
		cols = append(cols, []uint64{0, 1, 65535, 65536, pilosa.ShardWidth - 1, pilosa.ShardWidth, 3*pilosa.ShardWidth + 7, 1 << 40}[g.rng.Intn(8)])
	}
	r := pilosa.NewRow(cols...)
	r.Keys = g.strs()
	r.Attrs = g.attrs()
	return r
}

func (g *wGen) pair() pilosa.Pair { return pilosa.Pair{ID: g.u64(), Key: g.str(), Count: g.u64()} }

func (g *wGen) result() (interface{}, string) {
	switch g.rng.Intn(10) {
	case 0:
		return g.row(), "Row"
	case 1:
		var ps []pilosa.Pair
		if g.rng.Intn(5) != 0 {
			ps = make([]pilosa.Pair, g.n())
		}
		for i := range ps {
			ps[i] = g.pair()
		}
		return ps, "Pairs"
	case 2:
		return pilosa.ValCount{Val: g.i64(), Count: g.i64()}, "ValCount"
	case 3:
		return g.u64(), "uint64"
	case 4:
		return g.bool(), "bool"
	case 5:
		return pilosa.RowIDs(g.u64s()), "RowIDs"
	case 6:
		var gcs []pilosa.GroupCount
		if g.rng.Intn(5) != 0 {
			gcs = make([]pilosa.GroupCount, g.n())
		}
		for i := range gcs {
			gc := pilosa.GroupCount{Count: g.u64()}
			if g.rng.Intn(5) != 0 {
				gc.Group = make([]pilosa.FieldRow, g.n())
			}
			for j := range gc.Group {
				if g.bool() {
					gc.Group[j] = pilosa.FieldRow{Field: g.str(), RowID: g.u64()}
				} else {
					k := g.str()
					if k == "" {
						k = "key"
					}
					gc.Group[j] = pilosa.FieldRow{Field: g.str(), RowKey: k}
				}
			}
			gcs[i] = gc
		}
		return gcs, "GroupCounts"
	case 7:
		if g.bool() {
			return pilosa.RowIdentifiers{Rows: g.u64s()}, "RowIdentifiers"
		}
		return pilosa.RowIdentifiers{Keys: g.strs()}, "RowIdentifiers"
	case 8:
		return g.pair(), "Pair"
	default:
		return nil, "nil"
	}
}

type wType struct {
	name      string
	broadcast bool
	gen       func(g *wGen) pilosa.Message
	fresh     func() pilosa.Message
}

func wTypes() []wType {
	return []wType{
		{"CreateShardMessage", true, func(g *wGen) pilosa.Message {
			return &pilosa.CreateShardMessage{Index: g.str(), Field: g.str(), Shard: g.u64()}
		}, func() pilosa.Message { return &pilosa.CreateShardMessage{} }},
		{"CreateIndexMessage", true, func(g *wGen) pilosa.Message {
			return &pilosa.CreateIndexMessage{Index: g.str(), Meta: &pilosa.IndexOptions{Keys: g.bool(), TrackExistence: g.bool()}}
		}, func() pilosa.Message { return &pilosa.CreateIndexMessage{} }},
		{"DeleteIndexMessage", true, func(g *wGen) pilosa.Message { return &pilosa.DeleteIndexMessage{Index: g.str()} },
			func() pilosa.Message { return &pilosa.DeleteIndexMessage{} }},
		{"CreateFieldMessage", true, func(g *wGen) pilosa.Message {
			m := &pilosa.CreateFieldMessage{Index: g.str(), Field: g.str()}
			if g.rng.Intn(8) != 0 {
				fo := g.fieldOptions()
				m.Meta = &fo
			}
			return m
		}, func() pilosa.Message { return &pilosa.CreateFieldMessage{} }},
		{"DeleteFieldMessage", true, func(g *wGen) pilosa.Message { return &pilosa.DeleteFieldMessage{Index: g.str(), Field: g.str()} },
			func() pilosa.Message { return &pilosa.DeleteFieldMessage{} }},
		{"DeleteAvailableShardMessage", true, func(g *wGen) pilosa.Message {
			return &pilosa.DeleteAvailableShardMessage{Index: g.str(), Field: g.str(), ShardID: g.u64()}
		}, func() pilosa.Message { return &pilosa.DeleteAvailableShardMessage{} }},
		{"CreateViewMessage", true, func(g *wGen) pilosa.Message {
			return &pilosa.CreateViewMessage{Index: g.str(), Field: g.str(), View: g.str()}
		}, func() pilosa.Message { return &pilosa.CreateViewMessage{} }},
		{"DeleteViewMessage", true, func(g *wGen) pilosa.Message {
			return &pilosa.DeleteViewMessage{Index: g.str(), Field: g.str(), View: g.str()}
		}, func() pilosa.Message { return &pilosa.DeleteViewMessage{} }},
		{"ClusterStatus", true, func(g *wGen) pilosa.Message { return g.clusterStatus() }, func() pilosa.Message { return &pilosa.ClusterStatus{} }},
		{"ResizeInstruction", true, func(g *wGen) pilosa.Message {
			m := &pilosa.ResizeInstruction{JobID: g.i64(), Node: g.node(), Coordinator: g.node(), NodeStatus: g.nodeStatus(), ClusterStatus: g.clusterStatus()}
			if g.rng.Intn(5) != 0 {
				m.Sources = make([]*pilosa.ResizeSource, g.n())
				for i := range m.Sources {
					m.Sources[i] = &pilosa.ResizeSource{Node: g.node(), Index: g.str(), Field: g.str(), View: g.str(), Shard: g.u64()}
				}
			}
			return m
		}, func() pilosa.Message { return &pilosa.ResizeInstruction{} }},
		{"ResizeInstructionComplete", true, func(g *wGen) pilosa.Message {
			return &pilosa.ResizeInstructionComplete{JobID: g.i64(), Node: g.node(), Error: g.str()}
		}, func() pilosa.Message { return &pilosa.ResizeInstructionComplete{} }},
		{"SetCoordinatorMessage", true, func(g *wGen) pilosa.Message { return &pilosa.SetCoordinatorMessage{New: g.node()} },
			func() pilosa.Message { return &pilosa.SetCoordinatorMessage{} }},
		{"UpdateCoordinatorMessage", true, func(g *wGen) pilosa.Message { return &pilosa.UpdateCoordinatorMessage{New: g.node()} },
			func() pilosa.Message { return &pilosa.UpdateCoordinatorMessage{} }},
		{"NodeStateMessage", true, func(g *wGen) pilosa.Message { return &pilosa.NodeStateMessage{NodeID: g.str(), State: g.str()} },
			func() pilosa.Message { return &pilosa.NodeStateMessage{} }},
		{"RecalculateCaches", true, func(g *wGen) pilosa.Message { return &pilosa.RecalculateCaches{} },
			func() pilosa.Message { return &pilosa.RecalculateCaches{} }},
		{"NodeEvent", true, func(g *wGen) pilosa.Message {
			return &pilosa.NodeEvent{Event: pilosa.NodeEventType(g.rng.Intn(4)), Node: g.node()}
		}, func() pilosa.Message { return &pilosa.NodeEvent{} }},
		{"NodeStatus", true, func(g *wGen) pilosa.Message { return g.nodeStatus() }, func() pilosa.Message { return &pilosa.NodeStatus{} }},
		{"Node", false, func(g *wGen) pilosa.Message { return g.node() }, func() pilosa.Message { return &pilosa.Node{} }},
		{"QueryRequest", false, func(g *wGen) pilosa.Message {
			return &pilosa.QueryRequest{Query: g.str(), Shards: g.u64s(), ColumnAttrs: g.bool(), ExcludeRowAttrs: g.bool(), ExcludeColumns: g.bool(), Remote: g.bool()}
		}, func() pilosa.Message { return &pilosa.QueryRequest{} }},
		{"QueryResponse", false, nil, func() pilosa.Message { return &pilosa.QueryResponse{} }}, // generated per result kind below
		{"ImportRequest", false, func(g *wGen) pilosa.Message {
			return &pilosa.ImportRequest{Index: g.str(), Field: g.str(), Shard: g.u64(), RowIDs: g.u64s(), ColumnIDs: g.u64s(), RowKeys: g.strs(), ColumnKeys: g.strs(), Timestamps: g.i64s()}
		}, func() pilosa.Message { return &pilosa.ImportRequest{} }},
		{"ImportValueRequest", false, func(g *wGen) pilosa.Message {
			return &pilosa.ImportValueRequest{Index: g.str(), Field: g.str(), Shard: g.u64(), ColumnIDs: g.u64s(), ColumnKeys: g.strs(), Values: g.i64s()}
		}, func() pilosa.Message { return &pilosa.ImportValueRequest{} }},
		{"ImportRoaringRequest", false, func(g *wGen) pilosa.Message {
			m := &pilosa.ImportRoaringRequest{Clear: g.bool()}
			if g.rng.Intn(5) != 0 {
				m.Views = map[string][]byte{}
				for i, n := 0, g.n(); i < n; i++ {
					b := make([]byte, g.rng.Intn(20))
					g.rng.Read(b)
					m.Views[g.str()] = b
				}
			}
			return m
		}, func() pilosa.Message { return &pilosa.ImportRoaringRequest{} }},
		{"ImportResponse", false, func(g *wGen) pilosa.Message { return &pilosa.ImportResponse{Err: g.str()} },
			func() pilosa.Message { return &pilosa.ImportResponse{} }},
		{"BlockDataRequest", false, func(g *wGen) pilosa.Message {
			return &pilosa.BlockDataRequest{Index: g.str(), Field: g.str(), View: g.str(), Shard: g.u64(), Block: g.u64()}
		}, func() pilosa.Message { return &pilosa.BlockDataRequest{} }},
		{"BlockDataResponse", false, func(g *wGen) pilosa.Message { return &pilosa.BlockDataResponse{RowIDs: g.u64s(), ColumnIDs: g.u64s()} },
			func() pilosa.Message { return &pilosa.BlockDataResponse{} }},
		{"TranslateKeysRequest", false, func(g *wGen) pilosa.Message {
			return &pilosa.TranslateKeysRequest{Index: g.str(), Field: g.str(), Keys: g.strs()}
		}, func() pilosa.Message { return &pilosa.TranslateKeysRequest{} }},
		{"TranslateKeysResponse", false, func(g *wGen) pilosa.Message { return &pilosa.TranslateKeysResponse{IDs: g.u64s()} },
			func() pilosa.Message { return &pilosa.TranslateKeysResponse{} }},
	}
}

func (g *wGen) queryResponse() (*pilosa.QueryResponse, []string) {
	m := &pilosa.QueryResponse{}
	var kinds []string
	if g.rng.Intn(6) != 0 {
		m.Results = make([]interface{}, g.n())
		for i := range m.Results {
			var k string
			m.Results[i], k = g.result()
			kinds = append(kinds, k)
		}
	}
	if g.rng.Intn(3) == 0 {
		m.ColumnAttrSets = make([]*pilosa.ColumnAttrSet, g.n())
		for i := range m.ColumnAttrSets {
			m.ColumnAttrSets[i] = &pilosa.ColumnAttrSet{ID: g.u64(), Key: g.str(), Attrs: g.attrs()}
		}
	}
	if g.rng.Intn(4) == 0 {
		m.Err = errors.New([]string{"boom", "field not found", "é: \U0001F600", " "}[g.rng.Intn(4)])
	}
	return m, kinds
}

// ---------------------------------------------------------------- checks

func wMarshal(m pilosa.Message) (buf []byte, err error, panicked interface{}) {
	defer func() {
		if r := recover(); r != nil {
			panicked = r
		}
	}()
	buf, err = Serializer{}.Marshal(m)
	return
}

func wUnmarshal(buf []byte, m pilosa.Message) (err error, panicked interface{}) {
	defer func() {
		if r := recover(); r != nil {
			panicked = r
		}
	}()
	err = Serializer{}.Unmarshal(buf, m)
	return
}

func wMarshalInternal(m pilosa.Message) (buf []byte, err error, panicked interface{}) {
	defer func() {
		if r := recover(); r != nil {
			panicked = r
		}
	}()
	buf, err = pilosa.MarshalInternalMessage(m, Serializer{})
	return
}

func wDescribe(m pilosa.Message) string {
	t := map[string]string{}
	wTree(reflect.ValueOf(m), "", t)
	keys := make([]string, 0, len(t))
	for k := range t {
		keys = append(keys, k)
	}
	sort.Strings(keys)
	var b strings.Builder
	for _, k := range keys {
		if b.Len() > 500 {
			b.WriteString(" ...")
			break
		}
		fmt.Fprintf(&b, "%s=%s ", strings.TrimPrefix(k, "."), wShort(t[k]))
	}
	return b.String()
}

// roundTrip marshals m, unmarshals into fresh, compares; returns the encoding (nil if marshal failed).
func (r *wResult) roundTrip(name string, m, fresh pilosa.Message) []byte {
	r.Evaluations++
	buf, err, p := wMarshal(m)
	if p != nil {
		r.fail("panic-marshal-"+name, fmt.Sprintf("Marshal panics: %v", p), wDescribe(m))
		return nil
	}
	if err != nil {
		r.fail("marshal-error-"+name, "Marshal returns error "+err.Error(), wDescribe(m))
		return nil
	}
	err, p = wUnmarshal(buf, fresh)
	if p != nil {
		r.fail("panic-unmarshal-"+name, fmt.Sprintf("Unmarshal of a marshalled value panics: %v", wShort(fmt.Sprint(p))), wDescribe(m))
		return buf
	}
	if err != nil {
		r.fail("unmarshal-error-"+name, "Unmarshal of a marshalled value returns error "+err.Error(), wDescribe(m))
		return buf
	}
	if name == "QueryRequest" {
		fresh.(*pilosa.QueryRequest).Index = m.(*pilosa.QueryRequest).Index
	}
	for where, example := range wDiff(m, fresh) {
		r.fail("roundtrip-"+where, example+" (message type "+name+")", wDescribe(m))
	}
	return buf
}

func (r *wResult) arbitrary(name string, fresh func() pilosa.Message, buf []byte, how string) {
	r.Evaluations++
	_, p := wUnmarshal(buf, fresh())
	if p != nil {
		r.fail("panic-unmarshal-"+name, fmt.Sprintf("Unmarshal panics on %s: %v", how, wShort(fmt.Sprint(p))), fmt.Sprintf("bytes %x", buf))
	}
}

func TestRcheckWire(t *testing.T) {
	seed := int64(1)
	if s := os.Getenv("VERIF_SEED"); s != "" {
		if v, err := strconv.ParseInt(s, 10, 64); err == nil {
			seed = v
		}
	}
	values, randoms := 150, 200
	if os.Getenv("VERIF_TIER") == "thorough" {
		values, randoms = 20000, 20000
	}
	types := wTypes()
	res := &wResult{Harness: "wire",
		Rule: "a value is non-trivial when at least one exported field is non-zero; distinct by type and field dump; evaluations = round trips compared + byte strings fed to Unmarshal",
		Bound: fmt.Sprintf("%d message types x %d random values each (QueryResponse with <= 7 results of all 10 kinds), broadcast types also via MarshalInternalMessage; per type: empty input, %d random byte strings (<= 40 bytes), all proper prefixes and 64 single-bit flips of up to 20 valid encodings; seed %d",
			len(types), values, randoms, seed)}
	g := &wGen{rng: rand.New(rand.NewSource(seed))}
	seen := map[string]bool{}
	typeBytes := map[byte]string{}
	for _, ty := range types {
		var encodings [][]byte
		for i := 0; i < values; i++ {
			var m pilosa.Message
			if ty.name == "QueryResponse" {
				m, _ = g.queryResponse()
			} else {
				m = ty.gen(g)
			}
			d := ty.name + ":" + wDescribe(m)
			if !seen[d] {
				seen[d] = true
				if !reflect.DeepEqual(m, ty.fresh()) {
					res.Distinct++
				}
				if len(res.Samples) < 4 && i == 3 {
					res.Samples = append(res.Samples, wShort(d))
				}
			}
			buf := res.roundTrip(ty.name, m, ty.fresh())
			if buf != nil && len(encodings) < 20 && len(buf) > 0 && len(buf) < 400 {
				encodings = append(encodings, buf)
			}
			if ty.broadcast && i < 20 {
				res.Evaluations++
				ibuf, err, p := wMarshalInternal(m)
				switch {
				case p != nil:
					res.fail("panic-marshal-internal-"+ty.name, fmt.Sprintf("MarshalInternalMessage panics: %v", wShort(fmt.Sprint(p))), ty.name)
				case err != nil:
					res.fail("marshal-internal-error-"+ty.name, err.Error(), ty.name)
				case len(ibuf) == 0:
					res.fail("marshal-internal-empty-"+ty.name, "no type byte", ty.name)
				default:
					if other, ok := typeBytes[ibuf[0]]; ok && other != ty.name {
						res.fail("internal-type-byte-shared", fmt.Sprintf("%s and %s share message type byte %d", other, ty.name, ibuf[0]), ty.name)
					}
					typeBytes[ibuf[0]] = ty.name
				}
			}
		}
		// arbitrary bytes
		res.arbitrary(ty.name, ty.fresh, nil, "the empty input")
		for i := 0; i < randoms; i++ {
			b := make([]byte, 1+g.rng.Intn(40))
			g.rng.Read(b)
			if g.rng.Intn(2) == 0 { // bias towards plausible field tags
				for j := 0; j < len(b); j += 2 {
					b[j] = byte((1+g.rng.Intn(9))<<3 | []int{0, 2, 0, 2, 1, 5}[g.rng.Intn(6)])
				}
			}
			res.arbitrary(ty.name, ty.fresh, b, "random bytes")
		}
		for _, enc := range encodings {
			for k := 0; k < len(enc); k++ {
				res.arbitrary(ty.name, ty.fresh, enc[:k], "a truncated valid encoding")
			}
			for k := 0; k < 64; k++ {
				b := append([]byte{}, enc...)
				b[g.rng.Intn(len(b))] ^= 1 << uint(g.rng.Intn(8))
				res.arbitrary(ty.name, ty.fresh, b, "a valid encoding with one bit flipped")
			}
		}
	}
	sort.Slice(res.Failures, func(i, j int) bool { return res.Failures[i].Sig < res.Failures[j].Sig })
	if out := os.Getenv("RCHECK_OUT"); out != "" {
		data, _ := json.MarshalIndent(res, "", " ")
		if err := os.WriteFile(out, data, 0o644); err != nil {
			t.Fatal(err)
		}
	}
	for _, f := range res.Failures {
		t.Logf("FAIL %v %s: %s", f.Props, f.Sig, wShort(f.What))
	}
	t.Logf("evaluations %d distinct %d failures %d", res.Evaluations, res.Distinct, len(res.Failures))
}
