package pilosa

// BOUNDED stand-in (never counted as proved): model-based execution of the real
// cluster placement, resize planning, anti-entropy merge and API admission code
// against small hand-written oracles.  Injected into package pilosa with
// `go test -overlay`; results are written as JSON to $RCHECK_OUT.
// Serves C11, C20, C21, C23.
//
// C20  node-ID sets of 1..6 nodes drawn from a pool of odd strings, every join
//      order (sampled above 4 nodes in the quick tier) through five real
//      membership paths (addNodeBasicSorted, addNode, mergeClusterStatus on a
//      non-coordinator, add+remove of an extra node, nodeJoin on the coordinator),
//      replicaN 0..7, partitionN {1,2,7,16,256}, indexes i/j, shards 0..40.
//      Owner list = shardNodes/partitionNodes/ShardNodes; compared: size, distinctness,
//      independence of join order and of the computing node, ownsShard,
//      containsShards, executor.shardsByNode, API.validateShardOwnership,
//      holderSyncer.SyncHolder (which fragments it syncs, with whom) and the
//      holderCleaner run by the RESIZING->NORMAL transition.
// C21  clusters of 1..6 nodes, replicaN 0..5, partitionN {256,8}, two schemas
//      (2 indexes, set/time/int fields, several views, random available shards
//      in 0..24), every single-node add (new ID before/inside/after the ring)
//      and remove, planned with unprotectedGenerateResizeJobByAction and fragSources.
// C11  fragment.mergeBlock with 1..5 replicas (exhaustive over 2 and 3 bit
//      positions, random beyond) in standard/time/bsi views, and complete
//      holderSyncer.SyncHolder passes over 2..5 in-process replicas wired
//      through a fake InternalClient that calls the real API.ImportRoaring.
// C23  every apiMethod constant x every cluster state (exhaustive) against the
//      table in the property, plus every gated exported API method called in
//      every state on an API whose holder is nil (refusal must precede any
//      data access) and on a live single-node API (admission).

import (
	"bytes"
	"context"
	"encoding/json"
	"fmt"
	"io"
	"math/rand"
	"os"
	"path/filepath"
	"sort"
	"strconv"
	"strings"
	"sync"
	"testing"
	"time"

	"github.com/pilosa/pilosa/logger"
	"github.com/pilosa/pilosa/roaring"
	"github.com/pilosa/pilosa/stats"
	"github.com/pkg/errors"
)

type rckFailure struct {
	Props []string `json:"props"`
	What  string   `json:"what"`
	Sig   string   `json:"signature"`
	Seq   []string `json:"sequence"`
}

type rckResult struct {
	Harness     string         `json:"harness"`
	Bound       string         `json:"bound"`
	Evaluations int            `json:"evaluations"`
	Distinct    int            `json:"distinct_nontrivial"`
	Rule        string         `json:"rule"`
	Exhaustive  bool           `json:"exhaustive"`
	Samples     []interface{}  `json:"samples"`
	Failures    []rckFailure   `json:"failures"`
	PerProp     map[string]int `json:"evaluations_per_property"`
}

type rckRun struct {
	t        *testing.T
	res      *rckResult
	rng      *rand.Rand
	thorough bool
	dir      string
	seen     map[string]bool
	dirN     int
}

func (rr *rckRun) fail(props []string, sig, what string, seq []string) {
	for _, f := range rr.res.Failures {
		if f.Sig == sig {
			return // one example per signature (the first = smallest enumerated)
		}
	}
	if len(what) > 900 {
		what = what[:900] + "..."
	}
	rr.res.Failures = append(rr.res.Failures, rckFailure{Props: props, What: what, Sig: sig, Seq: append([]string{}, seq...)})
}

func (rr *rckRun) eval(prop string, n int) {
	rr.res.Evaluations += n
	rr.res.PerProp[prop] += n
}

func (rr *rckRun) nontrivial(key string) {
	if !rr.seen[key] {
		rr.seen[key] = true
		rr.res.Distinct++
	}
}

// try runs fn and converts a panic of the real code into a failure.
func (rr *rckRun) try(where string, props []string, seq []string, fn func()) (ok bool) {
	defer func() {
		if r := recover(); r != nil {
			rr.fail(props, "panic-"+where, fmt.Sprintf("panic: %v", r), seq)
			ok = false
		}
	}()
	fn()
	return true
}

func (rr *rckRun) newDir(prefix string) string {
	rr.dirN++
	d := filepath.Join(rr.dir, fmt.Sprintf("%s%d", prefix, rr.dirN))
	if err := os.MkdirAll(d, 0o777); err != nil {
		rr.t.Fatal(err)
	}
	return d
}

// ---------------------------------------------------------------------------
// shared helpers

var rckIDPool = []string{"node0", "node1", "node2", "node10", "a", "B", "zz", "0", "é-x", "n 3", "node-with-a-long-identifier-0001", "A", "~", "node02"}

func rckNode(id string) *Node {
	k := 99
	for i, p := range rckIDPool {
		if p == id {
			k = i
		}
	}
	if id == "~extra" {
		k = 98
	}
	return &Node{ID: id, URI: URI{Scheme: "http", Host: fmt.Sprintf("h%d", k), Port: uint16(10101 + k)}}
}

func rckSortedCopy(a []string) []string {
	b := append([]string{}, a...)
	sort.Strings(b)
	return b
}

func rckIDs(ns []*Node) []string {
	out := make([]string, 0, len(ns))
	for _, n := range ns {
		if n == nil {
			out = append(out, "<nil>")
			continue
		}
		out = append(out, n.ID)
	}
	return out
}

func rckSetEq(a, b []string) bool {
	a, b = rckSortedCopy(a), rckSortedCopy(b)
	if len(a) != len(b) {
		return false
	}
	for i := range a {
		if a[i] != b[i] {
			return false
		}
	}
	return true
}

func rckContains(a []string, s string) bool {
	for _, x := range a {
		if x == s {
			return true
		}
	}
	return false
}

func rckPermutations(a []string) [][]string {
	if len(a) <= 1 {
		return [][]string{append([]string{}, a...)}
	}
	var out [][]string
	for i := range a {
		rest := append(append([]string{}, a[:i]...), a[i+1:]...)
		for _, p := range rckPermutations(rest) {
			out = append(out, append([]string{a[i]}, p...))
		}
	}
	return out
}

func rckBitmapRange(n uint64) *roaring.Bitmap {
	b := roaring.NewBitmap()
	for i := uint64(0); i <= n; i++ {
		_, _ = b.Add(i)
	}
	return b
}

// ---------------------------------------------------------------------------
// C20: replica sets

var rckBuilders = []string{"addNodeBasicSorted", "addNode", "mergeClusterStatus", "addExtraThenRemove", "nodeJoin"}

// buildCluster builds a cluster holding exactly the node IDs of order, joined in
// that order through one of the real membership paths.
func (rr *rckRun) buildCluster(order []string, how int) (c *cluster, err error) {
	c = newCluster()
	c.broadcaster = NopBroadcaster
	switch how {
	case 0:
		for _, id := range order {
			c.addNodeBasicSorted(rckNode(id))
		}
	case 1:
		c.Topology = newTopology()
		c.Path = rr.newDir("topo")
		for _, id := range order {
			if err := c.addNode(rckNode(id)); err != nil {
				return nil, err
			}
		}
	case 2: // non-coordinator learning the membership from the coordinator's status message
		c.Topology = newTopology()
		c.Path = rr.newDir("topo")
		c.holder = NewHolder()
		c.Node = rckNode(order[0])
		if len(order) > 1 {
			c.Coordinator = order[1]
		} else {
			c.Coordinator = "someone-else"
		}
		var official []*Node
		for _, id := range order {
			official = append(official, rckNode(id))
		}
		if err := c.mergeClusterStatus(&ClusterStatus{ClusterID: "cid", State: ClusterStateNormal, Nodes: official}); err != nil {
			return nil, err
		}
	case 3:
		pos := len(order) / 2
		for i, id := range order {
			if i == pos {
				c.addNodeBasicSorted(rckNode("~extra"))
			}
			c.addNodeBasicSorted(rckNode(id))
		}
		if !c.removeNodeBasicSorted("~extra") {
			return nil, errors.New("extra node was not removed")
		}
	case 4: // coordinator receiving join events while holding no data
		c.Topology = newTopology()
		c.Path = rr.newDir("topo")
		c.holder = NewHolder()
		c.holder.Path = filepath.Join(c.Path, "nodata")
		c.Node = rckNode(order[0])
		c.Coordinator = order[0]
		c.state = ClusterStateNormal
		if err := c.addNode(c.Node); err != nil {
			return nil, err
		}
		for _, id := range order[1:] {
			if err := c.nodeJoin(rckNode(id)); err != nil {
				return nil, err
			}
		}
	}
	return c, nil
}

func (rr *rckRun) checkOwners(c, ref *cluster, ids []string, seq []string, full bool) {
	n := len(ids)
	// every partition directly
	for p := 0; p < c.partitionN; p++ {
		rr.eval("C20", 1)
		owners := rckIDs(c.partitionNodes(p))
		want := c.ReplicaN
		if want < 1 {
			want = 1
		}
		if want > n {
			want = n
		}
		where := fmt.Sprintf("partition=%d replicaN=%d partitionN=%d nodes=%q", p, c.ReplicaN, c.partitionN, c.nodeIDs())
		dist := map[string]bool{}
		for _, o := range owners {
			if dist[o] {
				rr.fail([]string{"C20"}, "owners-not-distinct", fmt.Sprintf("partitionNodes %q repeat a node; %s", owners, where), seq)
			}
			dist[o] = true
		}
		if len(owners) != want {
			rr.fail([]string{"C20"}, "owners-count", fmt.Sprintf("partitionNodes returns %d owners %q, want min(max(replicas,1),nodes)=%d; %s", len(owners), owners, want, where), seq)
		}
		if ref != nil {
			if refOwners := rckIDs(ref.partitionNodes(p)); !rckSetEq(owners, refOwners) {
				rr.fail([]string{"C20"}, "owners-depend-on-join-path", fmt.Sprintf("partitionNodes %q differ from %q of the cluster built from the same IDs in sorted order; %s", owners, refOwners, where), seq)
			}
		}
	}
	for _, index := range []string{"i", "j"} {
		avail := rckBitmapRange(40)
		want := c.ReplicaN
		if want < 1 {
			want = 1
		}
		if want > n {
			want = n
		}
		owned := map[string][]uint64{}
		for shard := uint64(0); shard <= 40; shard++ {
			rr.eval("C20", 1)
			owners := rckIDs(c.shardNodes(index, shard))
			where := fmt.Sprintf("index=%s shard=%d replicaN=%d partitionN=%d nodes=%q", index, shard, c.ReplicaN, c.partitionN, c.nodeIDs())
			if len(owners) != want {
				rr.fail([]string{"C20"}, "owners-count", fmt.Sprintf("shardNodes returns %d owners %q, want min(max(replicas,1),nodes)=%d; %s", len(owners), owners, want, where), seq)
			}
			dist := map[string]bool{}
			for _, o := range owners {
				if dist[o] {
					rr.fail([]string{"C20"}, "owners-not-distinct", fmt.Sprintf("owners %q repeat a node; %s", owners, where), seq)
				}
				dist[o] = true
				if !rckContains(ids, o) {
					rr.fail([]string{"C20"}, "owner-not-a-member", fmt.Sprintf("owner %q is not in the node set; %s", o, where), seq)
				}
			}
			if ref != nil {
				if refOwners := rckIDs(ref.shardNodes(index, shard)); !rckSetEq(owners, refOwners) {
					rr.fail([]string{"C20"}, "owners-depend-on-join-path", fmt.Sprintf("owners %q differ from owners %q of the cluster built from the same IDs in sorted order; %s", owners, refOwners, where), seq)
				}
			}
			if pn := rckIDs(c.partitionNodes(c.partition(index, shard))); !rckSetEq(pn, owners) {
				rr.fail([]string{"C20"}, "partitionNodes-vs-shardNodes", fmt.Sprintf("partitionNodes %q, shardNodes %q; %s", pn, owners, where), seq)
			}
			if pn := rckIDs(c.ShardNodes(index, shard)); !rckSetEq(pn, owners) {
				rr.fail([]string{"C20"}, "ShardNodes-vs-shardNodes", fmt.Sprintf("ShardNodes %q, shardNodes %q; %s", pn, owners, where), seq)
			}
			for _, id := range ids {
				member := dist[id]
				if got := c.ownsShard(id, index, shard); got != member {
					rr.fail([]string{"C20"}, "ownsShard-vs-owners", fmt.Sprintf("ownsShard(%q)=%v but owners are %q; %s", id, got, owners, where), seq)
				}
				if member {
					owned[id] = append(owned[id], shard)
				}
			}
			if c.ownsShard("not-a-node", index, shard) {
				rr.fail([]string{"C20"}, "ownsShard-stranger", "ownsShard is true for an ID outside the cluster; "+where, seq)
			}
			if len(owners) > 1 {
				rr.nontrivial(fmt.Sprintf("C20|%q|%d|%d|%s|%d", ids, c.ReplicaN, c.partitionN, index, shard))
			}
		}
		if !full {
			continue
		}
		// helpers used by the cleaner, the executor and the import path
		ex := &executor{Cluster: c}
		for _, id := range ids {
			node := c.unprotectedNodeByID(id)
			got := c.containsShards(index, avail, node)
			if fmt.Sprint(got) != fmt.Sprint(owned[id]) && !(len(got) == 0 && len(owned[id]) == 0) {
				rr.fail([]string{"C20"}, "containsShards-vs-owners", fmt.Sprintf("containsShards(%s, 0..40, %q)=%v, shards whose owner list holds the node: %v (replicaN=%d partitionN=%d nodes=%q)", index, id, got, owned[id], c.ReplicaN, c.partitionN, c.nodeIDs()), seq)
			}
			rr.eval("C20", 1)
			// import path: API.validateShardOwnership on that node
			saved := c.Node
			c.Node = node
			api := &API{cluster: c, server: &Server{cluster: c, logger: logger.NopLogger}}
			for shard := uint64(0); shard <= 40; shard++ {
				err := api.validateShardOwnership(index, shard)
				member := rckContains(rckIDs(c.shardNodes(index, shard)), id)
				if (err == nil) != member || (err != nil && err != ErrClusterDoesNotOwnShard) {
					rr.fail([]string{"C20"}, "validateShardOwnership-vs-owners", fmt.Sprintf("node %q: validateShardOwnership(%s,%d) err=%v, member of owners=%v", id, index, shard, err, member), seq)
				}
			}
			c.Node = saved
		}
		// executor: with all nodes up, and with one node down
		for down := -1; down < n; down++ {
			var up []*Node
			for k, nd := range c.nodes {
				if k != down {
					up = append(up, nd)
				}
			}
			for shard := uint64(0); shard <= 40; shard += 3 {
				rr.eval("C20", 1)
				owners := c.shardNodes(index, shard)
				anyUp := false
				for _, o := range owners {
					if Nodes(up).Contains(o) {
						anyUp = true
					}
				}
				m, err := ex.shardsByNode(up, index, []uint64{shard})
				if anyUp != (err == nil) {
					rr.fail([]string{"C20"}, "shardsByNode-availability", fmt.Sprintf("shardsByNode(up=%q, %s, %d) err=%v but owners are %q", rckIDs(up), index, shard, err, rckIDs(owners)), seq)
				}
				for nd := range m {
					if !Nodes(owners).ContainsID(nd.ID) {
						rr.fail([]string{"C20"}, "shardsByNode-non-owner", fmt.Sprintf("shardsByNode routes shard %d of %s to %q, owners %q", shard, index, nd.ID, rckIDs(owners)), seq)
					}
				}
			}
		}
	}
}

// rckRecClient records which remote fragments the syncer asks for.
type rckRecClient struct {
	nopInternalClient
	mu    sync.Mutex
	calls map[string]map[string]bool // "index/shard" -> remote host
}

func (r *rckRecClient) FragmentBlocks(ctx context.Context, uri *URI, index, field, view string, shard uint64) ([]FragmentBlock, error) {
	r.mu.Lock()
	defer r.mu.Unlock()
	k := fmt.Sprintf("%s/%d", index, shard)
	if r.calls[k] == nil {
		r.calls[k] = map[string]bool{}
	}
	r.calls[k][uri.Host] = true
	return nil, ErrFragmentNotFound
}

type rckSiteHolder struct {
	h      *Holder
	shards uint64
}

func (rr *rckRun) newSiteHolder() *rckSiteHolder {
	h := NewHolder()
	h.Path = rr.newDir("site")
	if err := h.Open(); err != nil {
		rr.t.Fatal(err)
	}
	sh := &rckSiteHolder{h: h, shards: 12}
	for _, index := range []string{"i", "j"} {
		idx, err := h.CreateIndex(index, IndexOptions{})
		if err != nil {
			rr.t.Fatal(err)
		}
		f, err := idx.CreateField("f", OptFieldTypeSet(CacheTypeNone, 0))
		if err != nil {
			rr.t.Fatal(err)
		}
		if err := f.AddRemoteAvailableShards(rckBitmapRange(sh.shards)); err != nil {
			rr.t.Fatal(err)
		}
	}
	return sh
}

func (sh *rckSiteHolder) fill(t *testing.T) {
	for _, index := range []string{"i", "j"} {
		v, err := sh.h.Field(index, "f").createViewIfNotExists(viewStandard)
		if err != nil {
			t.Fatal(err)
		}
		for s := uint64(0); s <= sh.shards; s++ {
			if _, err := v.CreateFragmentIfNotExists(s); err != nil {
				t.Fatal(err)
			}
		}
	}
}

func (sh *rckSiteHolder) present(index string) []uint64 {
	var out []uint64
	v := sh.h.Field(index, "f").view(viewStandard)
	if v == nil {
		return nil
	}
	for _, fr := range v.allFragments() {
		out = append(out, fr.shard)
	}
	sort.Slice(out, func(a, b int) bool { return out[a] < out[b] })
	return out
}

// checkCallSites runs the real cleaner (through the RESIZING->NORMAL transition)
// and the real holder syncer for node self and compares what they touch with the owner lists.
func (rr *rckRun) checkCallSites(sh *rckSiteHolder, c *cluster, self string, seq []string) {
	sh.fill(rr.t)
	node := c.unprotectedNodeByID(self)
	savedNode, savedHolder, savedState, savedClient := c.Node, c.holder, c.state, c.InternalClient
	defer func() { c.Node, c.holder, c.state, c.InternalClient = savedNode, savedHolder, savedState, savedClient }()
	c.Node, c.holder = node, sh.h
	rec := &rckRecClient{calls: map[string]map[string]bool{}}
	c.InternalClient = rec

	owned := map[string][]uint64{}
	for _, index := range []string{"i", "j"} {
		for s := uint64(0); s <= sh.shards; s++ {
			if rckContains(rckIDs(c.shardNodes(index, s)), self) {
				owned[index] = append(owned[index], s)
			}
		}
	}
	desc := fmt.Sprintf("node %q of %q replicaN=%d partitionN=%d", self, c.nodeIDs(), c.ReplicaN, c.partitionN)

	// cleaner
	c.state = ClusterStateResizing
	c.SetState(ClusterStateNormal)
	for _, index := range []string{"i", "j"} {
		rr.eval("C20", 1)
		rr.eval("C21", 1)
		kept := sh.present(index)
		for _, s := range owned[index] {
			if !uint64InSlice(s, kept) {
				rr.fail([]string{"C20", "C21"}, "cleaner-removes-owned-shard", fmt.Sprintf("cleanup after RESIZING->NORMAL on %s removed shard %d of index %s although the node is in its owner list %q; kept %v, owned %v", desc, s, index, rckIDs(c.shardNodes(index, s)), kept, owned[index]), seq)
			}
		}
		for _, s := range kept {
			if !uint64InSlice(s, owned[index]) {
				rr.fail([]string{"C20"}, "cleaner-keeps-foreign-shard", fmt.Sprintf("cleanup on %s kept shard %d of index %s, owners %q", desc, s, index, rckIDs(c.shardNodes(index, s))), seq)
			}
		}
	}

	// anti-entropy
	syncer := holderSyncer{Holder: sh.h, Node: node, Cluster: c, Stats: stats.NopStatsClient, Closing: make(chan struct{})}
	if err := syncer.SyncHolder(); err != nil {
		rr.fail([]string{"C20"}, "syncholder-error", fmt.Sprintf("SyncHolder on %s: %v", desc, err), seq)
		return
	}
	for _, index := range []string{"i", "j"} {
		for s := uint64(0); s <= sh.shards; s++ {
			rr.eval("C20", 1)
			owners := c.shardNodes(index, s)
			want := map[string]bool{}
			if Nodes(owners).ContainsID(self) {
				for _, o := range owners {
					if o.ID != self {
						want[o.URI.Host] = true
					}
				}
			}
			got := rec.calls[fmt.Sprintf("%s/%d", index, s)]
			if len(got) != len(want) {
				rr.fail([]string{"C20"}, "syncer-vs-owners", fmt.Sprintf("SyncHolder on %s contacted hosts %v for shard %d of index %s, expected the other owners %v (owners %q)", desc, got, s, index, want, rckIDs(owners)), seq)
				continue
			}
			for h := range want {
				if !got[h] {
					rr.fail([]string{"C20"}, "syncer-vs-owners", fmt.Sprintf("SyncHolder on %s contacted hosts %v for shard %d of index %s, expected the other owners %v", desc, got, s, index, want), seq)
				}
			}
		}
	}
}

func (rr *rckRun) runC20() {
	sh := rr.newSiteHolder()
	defer sh.h.Close()
	replicaNs := []int{0, 1, 2, 3, 4, 5, 6, 7}
	partitionNs := []int{1, 2, 7, 16, 256}
	setsPerSize := 3
	if rr.thorough {
		setsPerSize = 24
	}
	for n := 1; n <= 6; n++ {
		for k := 0; k < setsPerSize; k++ {
			var ids []string
			if k == 0 {
				ids = append(ids, rckIDPool[:n]...)
			} else {
				perm := rr.rng.Perm(len(rckIDPool))
				for _, p := range perm[:n] {
					ids = append(ids, rckIDPool[p])
				}
			}
			sorted := rckSortedCopy(ids)
			ref, err := rr.buildCluster(sorted, 0)
			if err != nil {
				rr.t.Fatal(err)
			}
			orders := rckPermutations(sorted)
			if max := 24; !rr.thorough && len(orders) > max {
				rr.rng.Shuffle(len(orders), func(a, b int) { orders[a], orders[b] = orders[b], orders[a] })
				orders = orders[:max]
			} else if max := 240; rr.thorough && len(orders) > max && k > 1 {
				rr.rng.Shuffle(len(orders), func(a, b int) { orders[a], orders[b] = orders[b], orders[a] })
				orders = orders[:max]
			}
			for oi, order := range orders {
				for how := range rckBuilders {
					if how != 0 && !(oi%7 == how || len(orders) <= 6) {
						continue // the file-writing paths are exercised on a subset of the orders
					}
					seq := []string{fmt.Sprintf("join order %q via %s", order, rckBuilders[how])}
					var c *cluster
					ok := rr.try("build-"+rckBuilders[how], []string{"C20"}, seq, func() { c, err = rr.buildCluster(order, how) })
					if !ok {
						continue
					}
					if err != nil {
						rr.fail([]string{"C20"}, "membership-path-error-"+rckBuilders[how], err.Error(), seq)
						continue
					}
					if got := c.nodeIDs(); !rckSetEq(got, sorted) {
						rr.fail([]string{"C20"}, "membership-"+rckBuilders[how], fmt.Sprintf("cluster holds %q, joined %q", got, order), seq)
						continue
					}
					rs, ps := replicaNs, partitionNs
					if oi > 1 { // beyond the first two orders sample the configuration
						rs = []int{replicaNs[rr.rng.Intn(len(replicaNs))], 2}
						ps = []int{partitionNs[rr.rng.Intn(len(partitionNs))]}
					}
					for _, r := range rs {
						for _, p := range ps {
							c.ReplicaN, c.partitionN = r, p
							ref.ReplicaN, ref.partitionN = r, p
							s2 := append(seq, fmt.Sprintf("ReplicaN=%d partitionN=%d", r, p))
							full := oi <= 1 && how == 0
							rr.try("ownership", []string{"C20"}, s2, func() { rr.checkOwners(c, ref, sorted, s2, full) })
						}
					}
					if how == 0 && oi == 0 {
						for _, r := range []int{1, 2, 3, 7} {
							c.ReplicaN, c.partitionN = r, []int{256, 7}[r%2]
							self := sorted[rr.rng.Intn(len(sorted))]
							s2 := append(seq, fmt.Sprintf("ReplicaN=%d partitionN=%d; clean + sync holder on %q", c.ReplicaN, c.partitionN, self))
							rr.try("callsites", []string{"C20"}, s2, func() { rr.checkCallSites(sh, c, self, s2) })
						}
					}
				}
			}
		}
	}
}

// ---------------------------------------------------------------------------
// C21: resize plans

type rckSchema struct {
	h    *Holder
	desc string
}

func (rr *rckRun) newSchema(variant int) *rckSchema {
	h := NewHolder()
	h.Path = rr.newDir("schema")
	if err := h.Open(); err != nil {
		rr.t.Fatal(err)
	}
	must := func(err error) {
		if err != nil {
			rr.t.Fatal(err)
		}
	}
	randShards := func(max uint64, p float64) *roaring.Bitmap {
		b := roaring.NewBitmap()
		for s := uint64(0); s <= max; s++ {
			if rr.rng.Float64() < p {
				_, _ = b.Add(s)
			}
		}
		return b
	}
	i, err := h.CreateIndex("i", IndexOptions{})
	must(err)
	f, err := i.CreateField("f", OptFieldTypeTime(TimeQuantum("Y")))
	must(err)
	_, err = f.createViewIfNotExists(viewStandard)
	must(err)
	_, err = f.createViewIfNotExists(viewStandard + "_2018")
	must(err)
	must(f.AddRemoteAvailableShards(randShards(24, 0.5)))
	g, err := i.CreateField("g", OptFieldTypeInt(-10, 1000))
	must(err)
	_, err = g.createViewIfNotExists(viewBSIGroupPrefix + "g")
	must(err)
	must(g.AddRemoteAvailableShards(randShards(24, 0.2)))
	j, err := h.CreateIndex("j", IndexOptions{})
	must(err)
	hf, err := j.CreateField("h", OptFieldTypeSet(CacheTypeNone, 0))
	must(err)
	v, err := hf.createViewIfNotExists(viewStandard)
	must(err)
	if variant == 0 {
		must(hf.AddRemoteAvailableShards(randShards(24, 0.7)))
	} else {
		// real fragments instead of remote knowledge, a field without views and an empty index
		for _, s := range []uint64{0, 1, 5, 17} {
			_, err := v.CreateFragmentIfNotExists(s)
			must(err)
		}
		_, err = j.CreateField("noviews", OptFieldTypeSet(CacheTypeNone, 0))
		must(err)
		_, err = h.CreateIndex("empty", IndexOptions{})
		must(err)
	}
	sc := &rckSchema{h: h}
	for _, idx := range h.Indexes() {
		sc.desc += fmt.Sprintf("%s:%v ", idx.Name(), idx.AvailableShards().Slice())
	}
	return sc
}

type rckNeed struct {
	node, index, field, view string
	shard                    uint64
}

func (rr *rckRun) checkPlan(sc *rckSchema, ids []string, replicaN, partitionN int, action, nodeID string) {
	mk := func(ids []string) *cluster {
		c := newCluster()
		c.broadcaster = NopBroadcaster
		c.ReplicaN, c.partitionN = replicaN, partitionN
		for _, id := range ids {
			c.addNodeBasicSorted(rckNode(id))
		}
		return c
	}
	var toIDs []string
	if action == resizeJobActionAdd {
		toIDs = append(append([]string{}, ids...), nodeID)
	} else {
		for _, id := range ids {
			if id != nodeID {
				toIDs = append(toIDs, id)
			}
		}
	}
	from, to := mk(ids), mk(toIDs)
	seq := []string{
		fmt.Sprintf("cluster %q ReplicaN=%d partitionN=%d", from.nodeIDs(), replicaN, partitionN),
		"schema (index:available shards) " + sc.desc,
		fmt.Sprintf("%s node %q", action, nodeID),
	}

	// oracle: what every resulting node newly owns, and whether a surviving previous owner exists
	var needs []rckNeed
	refusalAllowed := false
	for _, idx := range sc.h.Indexes() {
		for _, s := range idx.AvailableShards().Slice() {
			before := rckIDs(from.shardNodes(idx.Name(), s))
			for _, n := range to.shardNodes(idx.Name(), s) {
				if rckContains(before, n.ID) {
					continue
				}
				survivor := false
				for _, b := range before {
					if !(action == resizeJobActionRemove && b == nodeID) {
						survivor = true
					}
				}
				for _, fld := range idx.Fields() {
					if !fld.AvailableShards().Contains(s) {
						continue // the field holds no data in that shard
					}
					for _, v := range fld.views() {
						needs = append(needs, rckNeed{n.ID, idx.Name(), fld.Name(), v.name, s})
						if !survivor {
							refusalAllowed = true
						}
					}
				}
			}
		}
	}
	if len(needs) > 0 {
		rr.nontrivial(fmt.Sprintf("C21|%q|%d|%d|%s|%s|%s", ids, replicaN, partitionN, action, nodeID, sc.desc))
	}

	verify := func(path string, sources map[string][]*ResizeSource, err error, indexes map[string]bool, allowed bool) {
		rr.eval("C21", 1)
		if err != nil {
			if !allowed {
				rr.fail([]string{"C21"}, "plan-refused-"+action+"-"+path, fmt.Sprintf("%s refuses (%v) although every newly owned shard has a previous owner that stays in the cluster", path, err), seq)
			}
			return
		}
		// If some newly owned fragment has no surviving previous owner, a plan cannot name a
		// valid source for it: a plan returned in that case fails the source checks below.
		byKey := map[rckNeed][]*ResizeSource{}
		for nodeID, srcs := range sources {
			for _, s := range srcs {
				if s == nil {
					continue
				}
				k := rckNeed{nodeID, s.Index, s.Field, s.View, s.Shard}
				byKey[k] = append(byKey[k], s)
			}
		}
		for _, nd := range needs {
			if !indexes[nd.index] {
				continue
			}
			srcs := byKey[nd]
			if len(srcs) == 0 {
				rr.fail([]string{"C21"}, "plan-missing-source-"+action+"-"+path, fmt.Sprintf("%s: node %q newly owns %s/%s/%s shard %d (owners before %q, after %q) but the plan names no source for it", path, nd.node, nd.index, nd.field, nd.view, nd.shard, rckIDs(from.shardNodes(nd.index, nd.shard)), rckIDs(to.shardNodes(nd.index, nd.shard))), seq)
				continue
			}
			before := rckIDs(from.shardNodes(nd.index, nd.shard))
			for _, s := range srcs {
				if s.Node == nil {
					rr.fail([]string{"C21"}, "plan-nil-source-"+action+"-"+path, fmt.Sprintf("%s: source node is nil for %+v", path, nd), seq)
					continue
				}
				if action == resizeJobActionRemove && s.Node.ID == nodeID {
					rr.fail([]string{"C21"}, "plan-source-is-removed-node-"+path, fmt.Sprintf("%s: source for %+v is the node being removed", path, nd), seq)
				}
				if !rckContains(before, s.Node.ID) {
					rr.fail([]string{"C21"}, "plan-source-not-previous-owner-"+action+"-"+path, fmt.Sprintf("%s: source %q for %+v did not own the shard before (owners before %q)", path, s.Node.ID, nd, before), seq)
				}
			}
		}
	}

	// path 1: fragSources per index on clusters built by the harness
	for _, idx := range sc.h.Indexes() {
		idx := idx
		rr.try("fragSources", []string{"C21"}, seq, func() {
			m, err := mk(ids).fragSources(mk(toIDs), idx)
			// a refusal is only allowed if this very index has a need without a surviving owner
			allowed := false
			for _, nd := range needs {
				if nd.index != idx.Name() {
					continue
				}
				surv := false
				for _, b := range rckIDs(from.shardNodes(nd.index, nd.shard)) {
					if !(action == resizeJobActionRemove && b == nodeID) {
						surv = true
					}
				}
				if !surv {
					allowed = true
				}
			}
			verify("fragSources", m, err, map[string]bool{idx.Name(): true}, allowed)
		})
	}

	// path 2: the coordinator's resize job
	rr.try("generateResizeJob", []string{"C21"}, seq, func() {
		c := mk(ids)
		c.holder = sc.h
		c.Node = c.nodes[0]
		c.Coordinator = c.nodes[0].ID
		c.state = ClusterStateResizing
		var node *Node
		if action == resizeJobActionAdd {
			node = rckNode(nodeID)
		} else {
			node = &Node{ID: nodeID} // as cluster.nodeLeave does
		}
		job, err := c.unprotectedGenerateResizeJobByAction(nodeAction{node: node, action: action})
		m := map[string][]*ResizeSource{}
		all := map[string]bool{}
		for _, idx := range sc.h.Indexes() {
			all[idx.Name()] = true
		}
		if err == nil {
			for _, in := range job.Instructions {
				if in.Node == nil || !rckContains(toIDs, in.Node.ID) {
					rr.fail([]string{"C21"}, "plan-instruction-for-foreign-node", fmt.Sprintf("instruction addressed to %v, resulting nodes %q", in.Node, toIDs), seq)
					continue
				}
				m[in.Node.ID] = append(m[in.Node.ID], in.Sources...)
			}
		}
		verify("resizeJob", m, err, all, refusalAllowed)
	})
}

// checkFollowerCompletion plays the end of a resize on a node that is not the
// coordinator: the node holds every shard (what it had plus what it fetched), is in
// RESIZING with the old membership, and receives the coordinator's final status (the
// resulting membership, state NORMAL).  The cleanup that transition triggers may remove
// only shards the node does not own in the resulting cluster (C21, last sentence).
func (rr *rckRun) checkFollowerCompletion(sh *rckSiteHolder, ids []string, replicaN, partitionN int, action, nodeID string) {
	var toIDs []string
	if action == resizeJobActionAdd {
		toIDs = append(append([]string{}, ids...), nodeID)
	} else {
		for _, id := range ids {
			if id != nodeID {
				toIDs = append(toIDs, id)
			}
		}
	}
	sort.Strings(toIDs)
	to, err := rr.buildCluster(toIDs, 0)
	if err != nil {
		rr.t.Fatal(err)
	}
	to.ReplicaN, to.partitionN = replicaN, partitionN
	for _, self := range toIDs {
		if !rckContains(ids, self) {
			continue // the joining node starts from the status message, not from RESIZING
		}
		coord := ""
		for _, id := range toIDs {
			if id != self {
				coord = id
				break
			}
		}
		if coord == "" {
			continue // a follower needs a coordinator other than itself
		}
		seq := []string{
			fmt.Sprintf("cluster %q ReplicaN=%d partitionN=%d, %s node %q", ids, replicaN, partitionN, action, nodeID),
			fmt.Sprintf("node %q (coordinator %q) holds shards 0..%d of i and j and is RESIZING", self, coord, sh.shards),
			fmt.Sprintf("mergeClusterStatus(state NORMAL, nodes %q)", toIDs),
		}
		rr.try("follower-completion", []string{"C21"}, seq, func() {
			sh.fill(rr.t)
			c := newCluster()
			c.broadcaster = NopBroadcaster
			c.Topology = newTopology()
			c.Path = rr.newDir("topo")
			c.ReplicaN, c.partitionN = replicaN, partitionN
			c.holder = sh.h
			c.Coordinator = coord
			for _, id := range ids {
				if err := c.addNode(rckNode(id)); err != nil {
					rr.t.Fatal(err)
				}
			}
			c.Node = c.unprotectedNodeByID(self)
			c.state = ClusterStateResizing
			var official []*Node
			for _, id := range toIDs {
				n := rckNode(id)
				n.IsCoordinator = id == coord
				official = append(official, n)
			}
			if err := c.mergeClusterStatus(&ClusterStatus{ClusterID: "cid", State: ClusterStateNormal, Nodes: official}); err != nil {
				rr.fail([]string{"C21"}, "follower-completion-error", err.Error(), seq)
				return
			}
			if got := c.nodeIDs(); !rckSetEq(got, toIDs) || c.state != ClusterStateNormal {
				rr.fail([]string{"C21"}, "follower-completion-membership", fmt.Sprintf("after the final status the node holds %q in state %s, want %q in NORMAL", got, c.state, toIDs), seq)
				return
			}
			for _, index := range []string{"i", "j"} {
				rr.eval("C21", 1)
				kept := sh.present(index)
				lost := 0
				for s := uint64(0); s <= sh.shards; s++ {
					owns := rckContains(rckIDs(to.shardNodes(index, s)), self)
					if owns && !uint64InSlice(s, kept) {
						rr.fail([]string{"C21"}, "follower-cleanup-removes-owned-shard", fmt.Sprintf("cleanup on %q after %s of %q removed shard %d of index %s, which the node owns in the resulting cluster (owners %q); kept %v", self, action, nodeID, s, index, rckIDs(to.shardNodes(index, s)), kept), seq)
					}
					if !owns {
						lost++
					}
				}
				if lost > 0 {
					rr.nontrivial(fmt.Sprintf("C21|follower|%q|%d|%d|%s|%s|%s|%s", ids, replicaN, partitionN, action, nodeID, self, index))
				}
			}
		})
	}
}

// runC06Resize: resize-completion messages (their job id, node and error text are chosen
// by the sender, and they arrive late, twice or for a job that has ended) must be
// answered, never block the receiving goroutine (C06: never hangs).
func (rr *rckRun) runC06Resize() {
	type step struct {
		errText string
		node    string
	}
	cases := []struct {
		name  string
		state string // job state before the messages
		read  int    // how many results the coordinator side will still read
		msgs  []step
	}{
		{"error completion for a job that is DONE", resizeJobStateDone, 0, []step{{"boom", "node1"}}},
		{"error completion for a job that is ABORTED", resizeJobStateAborted, 0, []step{{"boom", "node1"}}},
		{"completion for a job that is DONE", resizeJobStateDone, 0, []step{{"", "node1"}}},
		{"three completions for a job that is DONE", resizeJobStateDone, 0, []step{{"", "node1"}, {"", "node2"}, {"late error", "node1"}}},
		{"error completions for a job that is ABORTED", resizeJobStateAborted, 0, []step{{"boom", "node1"}, {"boom", "node2"}, {"", "node2"}}},
		{"two error completions for a running job", resizeJobStateRunning, 1, []step{{"boom", "node1"}, {"boom again", "node2"}}},
		{"error completion, then a normal one", resizeJobStateRunning, 1, []step{{"boom", "node1"}, {"", "node2"}}},
		{"last completion twice", resizeJobStateRunning, 1, []step{{"", "node1"}, {"", "node2"}, {"", "node2"}}},
		{"completion from an unknown node, then errors", resizeJobStateRunning, 1, []step{{"", "stranger"}, {"x", "node1"}, {"y", "node1"}}},
	}
	for _, tc := range cases {
		seq := []string{"resize job 7 over node1,node2 in state " + tc.state, tc.name}
		c := newCluster()
		c.broadcaster = NopBroadcaster
		j := &resizeJob{ID: 7, IDs: map[string]bool{"node1": false, "node2": false}, result: make(chan string), state: tc.state, Logger: c.logger}
		c.jobs = map[int64]*resizeJob{7: j}
		stop := make(chan struct{})
		go func(n int) { // the coordinator's side: reads the result it is waiting for, then marks the job
			for i := 0; i < n; i++ {
				select {
				case st := <-j.result:
					j.setState(st)
					j.mu.Lock()
					j.state = st
					j.mu.Unlock()
				case <-stop:
					return
				}
			}
		}(tc.read)
		for i, m := range tc.msgs {
			rr.eval("C06", 1)
			rr.nontrivial("C06|resize|" + tc.name + fmt.Sprint(i))
			done := make(chan interface{}, 1)
			msg := &ResizeInstructionComplete{JobID: 7, Node: rckNode(m.node), Error: m.errText}
			go func() {
				defer func() { done <- recover() }()
				_ = c.markResizeInstructionComplete(msg)
			}()
			select {
			case p := <-done:
				if p != nil {
					rr.fail([]string{"C06"}, "resize-complete-panics", fmt.Sprintf("markResizeInstructionComplete(message %d: node %q, error %q) panics: %v", i+1, m.node, m.errText, p), seq)
				}
			case <-time.After(3 * time.Second):
				rr.fail([]string{"C06"}, "resize-complete-hangs", fmt.Sprintf("markResizeInstructionComplete(message %d: node %q, error %q) has not returned after 3 s: the goroutine that received the cluster message is blocked", i+1, m.node, m.errText), seq)
			}
			time.Sleep(20 * time.Millisecond) // let the coordinator side record the result
		}
		close(stop)
	}
	// Schema messages that name an index, field or view this node does not have (deleted
	// a moment ago, or never created here): Server.receiveMessage is also called from the
	// gossip delegate, which has no recover, so it must answer with an error or nil.
	all, _ := rr.newReplicas(1)
	rep := all[0]
	defer func() { _ = rep.api.Close(); _ = rep.s.holder.Close() }()
	for _, ix := range []string{"i", "nope"} {
		for _, fd := range []string{"s", "nofield"} {
			msgs := []Message{
				&DeleteFieldMessage{Index: ix, Field: fd},
				&DeleteAvailableShardMessage{Index: ix, Field: fd, ShardID: 3},
				&CreateShardMessage{Index: ix, Field: fd, Shard: 5},
				&CreateViewMessage{Index: ix, Field: fd, View: "standard_2031"},
				&DeleteViewMessage{Index: ix, Field: fd, View: "standard_2031"},
				&CreateFieldMessage{Index: ix, Field: fd + "x", Meta: &FieldOptions{Type: FieldTypeSet, CacheType: CacheTypeNone}},
				&DeleteIndexMessage{Index: ix + "-other"},
			}
			for _, m := range msgs {
				if ix == "i" && fd == "s" {
					if _, del := m.(*DeleteFieldMessage); del {
						continue // keep the field for the following messages
					}
				}
				seq := []string{fmt.Sprintf("node holds index i with fields s,t,v; receiveMessage(%T%+v)", m, m)}
				rr.eval("C06", 1)
				rr.nontrivial(fmt.Sprintf("C06|schema-msg|%T|%s|%s", m, ix, fd))
				done := make(chan interface{}, 1)
				m := m
				go func() {
					defer func() { done <- recover() }()
					_ = rep.s.receiveMessage(m)
				}()
				select {
				case p := <-done:
					if p != nil {
						rr.fail([]string{"C06"}, fmt.Sprintf("schema-message-panics-%T", m), fmt.Sprintf("receiveMessage(%T%+v) panics (%v) instead of returning an error", m, m, p), seq)
					}
				case <-time.After(5 * time.Second):
					rr.fail([]string{"C06"}, fmt.Sprintf("schema-message-hangs-%T", m), fmt.Sprintf("receiveMessage(%T%+v) has not returned after 5 s", m, m), seq)
				}
			}
		}
	}
}

func (rr *rckRun) runC21() {
	schemas := []*rckSchema{rr.newSchema(0), rr.newSchema(1)}
	defer func() {
		for _, sc := range schemas {
			sc.h.Close()
		}
	}()
	setsPerSize := 4
	if rr.thorough {
		setsPerSize = 80
	}
	sh := rr.newSiteHolder()
	defer sh.h.Close()
	for n := 1; n <= 6; n++ {
		for k := 0; k < setsPerSize; k++ {
			var ids []string
			perm := rr.rng.Perm(len(rckIDPool))
			if k == 0 {
				for i := 0; i < n; i++ {
					ids = append(ids, fmt.Sprintf("node%d", 2*i+1)) // leaves room before/between/after
				}
			} else {
				for _, p := range perm[:n] {
					ids = append(ids, rckIDPool[p])
				}
			}
			sort.Strings(ids)
			var newIDs []string
			if k == 0 {
				newIDs = []string{"node0", fmt.Sprintf("node%d", 2*(n/2)), "node9x"}
			} else {
				for _, p := range perm[n:] {
					if len(newIDs) < 3 {
						newIDs = append(newIDs, rckIDPool[p])
					}
				}
			}
			for _, r := range []int{0, 1, 2, 3, 4, 5} {
				for _, p := range []int{256, 8} {
					if !rr.thorough && k > 0 && p == 8 && r > 2 {
						continue
					}
					sc := schemas[(k+r+p)%2]
					if n < 6 {
						for _, id := range newIDs {
							rr.checkPlan(sc, ids, r, p, resizeJobActionAdd, id)
							if r >= 1 && r <= 3 && (k == 0 || (rr.thorough && k%8 == 1)) {
								rr.checkFollowerCompletion(sh, ids, r, p, resizeJobActionAdd, id)
							}
						}
					}
					if n > 1 {
						for _, id := range ids {
							rr.checkPlan(sc, ids, r, p, resizeJobActionRemove, id)
							if r >= 1 && r <= 3 && (k == 0 || (rr.thorough && k%8 == 1)) {
								rr.checkFollowerCompletion(sh, ids, r, p, resizeJobActionRemove, id)
							}
						}
					}
				}
			}
		}
	}
}

// ---------------------------------------------------------------------------
// C11: anti-entropy

type rckBit struct{ r, c uint64 } // row, column within the shard

type rckBits map[rckBit]bool

func (b rckBits) sorted() []rckBit {
	out := make([]rckBit, 0, len(b))
	for k, v := range b {
		if v {
			out = append(out, k)
		}
	}
	sort.Slice(out, func(i, j int) bool {
		if out[i].r != out[j].r {
			return out[i].r < out[j].r
		}
		return out[i].c < out[j].c
	})
	return out
}

func (b rckBits) String() string {
	var sb strings.Builder
	sb.WriteString("{")
	for i, k := range b.sorted() {
		if i > 0 {
			sb.WriteString(" ")
		}
		fmt.Fprintf(&sb, "%d:%d", k.r, k.c)
	}
	sb.WriteString("}")
	return sb.String()
}

func (b rckBits) equal(o rckBits) bool { return b.String() == o.String() }

func (b rckBits) clone() rckBits {
	o := rckBits{}
	for k, v := range b {
		if v {
			o[k] = true
		}
	}
	return o
}

// rckMajority: a bit is set iff it is set on at least half of the replicas (ties resolved as set).
func rckMajority(reps []rckBits) rckBits {
	cnt := map[rckBit]int{}
	for _, r := range reps {
		for k, v := range r {
			if v {
				cnt[k]++
			}
		}
	}
	out := rckBits{}
	for k, n := range cnt {
		if 2*n >= len(reps) {
			out[k] = true
		}
	}
	return out
}

func rckFragBits(f *fragment) rckBits {
	out := rckBits{}
	_ = f.forEachBit(func(r, c uint64) error {
		out[rckBit{r, c % ShardWidth}] = true
		return nil
	})
	return out
}

func rckSetFrag(t *testing.T, f *fragment, want rckBits) {
	have := rckFragBits(f)
	base := f.shard * ShardWidth
	for k := range have {
		if !want[k] {
			if _, err := f.clearBit(k.r, base+k.c); err != nil {
				t.Fatal(err)
			}
		}
	}
	for k, v := range want {
		if v && !have[k] {
			if _, err := f.setBit(k.r, base+k.c); err != nil {
				t.Fatal(err)
			}
		}
	}
}

type rckMergeFrag struct {
	f    *fragment
	kind string
}

// mergeCase drives fragment.mergeBlock with reps[0] as the local block contents and
// reps[1:] as remote block data; outside holds local bits in other blocks.
func (rr *rckRun) mergeCase(mf rckMergeFrag, block int, reps []rckBits, outside rckBits) {
	f := mf.f
	local := reps[0].clone()
	for k := range outside {
		local[k] = true
	}
	rckSetFrag(rr.t, f, local)
	seq := []string{fmt.Sprintf("view %s shard %d block %d, %d replicas", f.view, f.shard, block, len(reps)), "local " + reps[0].String()}
	var data []pairSet
	for _, r := range reps[1:] {
		var ps pairSet
		for _, k := range r.sorted() {
			ps.rowIDs = append(ps.rowIDs, k.r)
			ps.columnIDs = append(ps.columnIDs, k.c)
		}
		data = append(data, ps)
		seq = append(seq, "remote "+r.String())
	}
	want := rckMajority(reps)
	nontrivial := false
	for _, r := range reps {
		if !r.equal(want) {
			nontrivial = true
		}
	}
	if nontrivial {
		rr.nontrivial("C11m|" + mf.kind + "|" + strings.Join(seq[1:], "|"))
	}
	seq = append(seq, "majority "+want.String())
	rr.eval("C11", 1)
	var sets, clears []pairSet
	var err error
	if !rr.try("mergeBlock", []string{"C11"}, seq, func() { sets, clears, err = f.mergeBlock(block, data) }) {
		return
	}
	if err != nil {
		rr.fail([]string{"C11"}, "mergeblock-error", err.Error(), seq)
		return
	}
	if len(sets) != len(data) || len(clears) != len(data) {
		rr.fail([]string{"C11"}, "mergeblock-diff-count", fmt.Sprintf("%d set diffs and %d clear diffs for %d remote replicas", len(sets), len(clears), len(data)), seq)
		return
	}
	// local fragment
	got := rckFragBits(f)
	gotBlock, gotOutside := rckBits{}, rckBits{}
	for k := range got {
		if int(k.r/HashBlockSize) == block {
			gotBlock[k] = true
		} else {
			gotOutside[k] = true
		}
	}
	if !gotBlock.equal(want) {
		rr.fail([]string{"C11"}, "mergeblock-local-"+mf.kind, fmt.Sprintf("after mergeBlock the local block holds %s, per-bit majority is %s", gotBlock, want), seq)
	}
	if !gotOutside.equal(outside) && nontrivial {
		rr.fail([]string{"C11"}, "mergeblock-touches-other-block", fmt.Sprintf("bits outside the block changed from %s to %s", outside, gotOutside), seq)
	}
	// the block as read back through blockData
	rows, cols := f.blockData(block)
	bd := rckBits{}
	for i := range rows {
		bd[rckBit{rows[i], cols[i]}] = true
	}
	if !bd.equal(gotBlock) {
		rr.fail([]string{"C11"}, "blockdata-vs-fragment", fmt.Sprintf("blockData %s, fragment block %s", bd, gotBlock), seq)
	}
	// every remote replica after applying its diffs
	for i := range data {
		if len(sets[i].rowIDs) != len(sets[i].columnIDs) || len(clears[i].rowIDs) != len(clears[i].columnIDs) {
			rr.fail([]string{"C11"}, "mergeblock-ragged-diff-"+mf.kind, fmt.Sprintf("replica %d: set diff %v/%v, clear diff %v/%v have unequal lengths", i+1, sets[i].rowIDs, sets[i].columnIDs, clears[i].rowIDs, clears[i].columnIDs), seq)
			continue
		}
		rep := reps[i+1].clone()
		for _, d := range []pairSet{sets[i], clears[i]} {
			for j := range d.rowIDs {
				if int(d.rowIDs[j]/HashBlockSize) != block && nontrivial {
					rr.fail([]string{"C11"}, "mergeblock-touches-other-block", fmt.Sprintf("the diff for remote replica %d names row %d, which lies outside block %d (sets rows%v, clears rows%v)", i+1, d.rowIDs[j], block, sets[i].rowIDs, clears[i].rowIDs), seq)
				}
			}
		}
		for j := range sets[i].rowIDs {
			if int(sets[i].rowIDs[j]/HashBlockSize) == block {
				rep[rckBit{sets[i].rowIDs[j], sets[i].columnIDs[j] % ShardWidth}] = true
			}
		}
		for j := range clears[i].rowIDs {
			delete(rep, rckBit{clears[i].rowIDs[j], clears[i].columnIDs[j] % ShardWidth})
		}
		if !rep.equal(want) {
			rr.fail([]string{"C11"}, "mergeblock-remote-"+mf.kind, fmt.Sprintf("remote replica %d holds %s; applying its diffs (sets rows%v cols%v, clears rows%v cols%v) yields %s, per-bit majority is %s", i+1, reps[i+1], sets[i].rowIDs, sets[i].columnIDs, clears[i].rowIDs, clears[i].columnIDs, rep, want), seq)
		}
	}
}

func (rr *rckRun) runC11Merge() {
	frags := []rckMergeFrag{
		{mustOpenFragment("i", "f", viewStandard, 0, CacheTypeRanked), "standard"},
		{mustOpenFragment("i", "f", viewStandard+"_2018", 2, CacheTypeNone), "time"},
		{mustOpenBSIFragment("i", "v", viewBSIGroupPrefix+"v", 1), "bsi"},
	}
	defer func() {
		for _, mf := range frags {
			_ = mf.f.Close()
			_ = os.Remove(mf.f.path)
			_ = os.Remove(mf.f.cachePath())
		}
	}()
	// exhaustive part: every assignment of P positions to R replicas
	enumerate := func(mf rckMergeFrag, block int, pos []rckBit, R int, outside rckBits) {
		P := len(pos)
		total := 1 << uint(P*R)
		for code := 0; code < total; code++ {
			reps := make([]rckBits, R)
			for r := 0; r < R; r++ {
				reps[r] = rckBits{}
				for p := 0; p < P; p++ {
					if code>>(uint(r*P+p))&1 == 1 {
						reps[r][pos[p]] = true
					}
				}
			}
			rr.mergeCase(mf, block, reps, outside)
		}
	}
	for _, mf := range frags {
		maxR2, maxR3 := 5, 3
		if mf.kind == "standard" || rr.thorough {
			maxR3 = 4
		}
		if rr.thorough {
			maxR2 = 6
		}
		for R := 1; R <= maxR2; R++ {
			enumerate(mf, 0, []rckBit{{0, 0}, {1, 3}}, R, nil)
		}
		for R := 2; R <= maxR3; R++ {
			enumerate(mf, 1, []rckBit{{100, 0}, {100, ShardWidth - 1}, {199, 65536}}, R, rckBits{{0, 5}: true, {200, 0}: true})
		}
	}
	// random part
	randN := 1500
	if rr.thorough {
		randN = 150000
	}
	cols := []uint64{0, 1, 2, 65535, 65536, ShardWidth - 1}
	for n := 0; n < randN; n++ {
		mf := frags[rr.rng.Intn(len(frags))]
		block := []int{0, 1, 3}[rr.rng.Intn(3)]
		R := 1 + rr.rng.Intn(5)
		if rr.thorough && rr.rng.Intn(4) == 0 {
			R = 6 + rr.rng.Intn(3)
		}
		nb := 1 + rr.rng.Intn(7)
		var universe []rckBit
		for len(universe) < nb {
			universe = append(universe, rckBit{uint64(block)*HashBlockSize + []uint64{0, 1, 50, 99}[rr.rng.Intn(4)], cols[rr.rng.Intn(len(cols))]})
		}
		reps := make([]rckBits, R)
		for r := range reps {
			reps[r] = rckBits{}
			for _, u := range universe {
				if rr.rng.Intn(2) == 0 {
					reps[r][u] = true
				}
			}
		}
		outside := rckBits{}
		if rr.rng.Intn(2) == 0 {
			outside[rckBit{uint64(block+1) * HashBlockSize, 0}] = true
		}
		if block > 0 && rr.rng.Intn(2) == 0 {
			outside[rckBit{uint64(block)*HashBlockSize - 1, ShardWidth - 1}] = true
		}
		rr.mergeCase(mf, block, reps, outside)
	}
}

// --- complete anti-entropy passes over in-process replicas

type rckReplica struct {
	s   *Server
	api *API
}

type rckAEClient struct {
	nopInternalClient
	reps map[string]*rckReplica // by URI host
}

func (c *rckAEClient) FragmentBlocks(ctx context.Context, uri *URI, index, field, view string, shard uint64) ([]FragmentBlock, error) {
	return c.reps[uri.Host].api.FragmentBlocks(ctx, index, field, view, shard)
}

func (c *rckAEClient) BlockData(ctx context.Context, uri *URI, index, field, view string, shard uint64, block int) ([]uint64, []uint64, error) {
	api := c.reps[uri.Host].api
	if err := api.validate(apiFragmentBlockData); err != nil {
		return nil, nil, err
	}
	f := api.holder.fragment(index, field, view, shard)
	if f == nil {
		return nil, nil, nil // the HTTP client maps 404 to an empty block
	}
	r, cl := f.blockData(block)
	return r, cl, nil
}

func (c *rckAEClient) ImportRoaring(ctx context.Context, uri *URI, index, field string, shard uint64, remote bool, req *ImportRoaringRequest) error {
	return c.reps[uri.Host].api.ImportRoaring(ctx, index, field, shard, remote, req)
}

type rckNopSerializer struct{}

func (rckNopSerializer) Marshal(Message) ([]byte, error) { return []byte{}, nil }
func (rckNopSerializer) Unmarshal([]byte, Message) error { return nil }

type rckFragKey struct {
	field, view string
	shard       uint64
}

var rckAEFrags = []rckFragKey{
	{"s", viewStandard, 0},
	{"s", viewStandard, 1},
	{"t", viewStandard, 0},
	{"t", viewStandard + "_2019", 0},
	{"t", viewStandard + "_2019", 1},
}

var rckAEProbe = rckFragKey{"v", viewBSIGroupPrefix + "v", 0}

func (rr *rckRun) newReplicas(n int) ([]*rckReplica, *rckAEClient) {
	client := &rckAEClient{reps: map[string]*rckReplica{}}
	var reps []*rckReplica
	for k := 0; k < n; k++ {
		id := fmt.Sprintf("r%d", k)
		uri := URI{Scheme: "http", Host: "ae" + id, Port: 10101}
		s, err := NewServer(OptServerDataDir(rr.newDir("ae")), OptServerNodeID(id), OptServerURI(&uri), OptServerInternalClient(client), OptServerSerializer(rckNopSerializer{}))
		if err != nil {
			rr.t.Fatal(err)
		}
		s.holder.broadcaster = NopBroadcaster
		s.cluster.broadcaster = NopBroadcaster
		if err := s.holder.Open(); err != nil {
			rr.t.Fatal(err)
		}
		idx, err := s.holder.CreateIndex("i", IndexOptions{})
		if err != nil {
			rr.t.Fatal(err)
		}
		for _, fd := range []struct {
			name string
			opt  FieldOption
			view []string
		}{
			{"s", OptFieldTypeSet(CacheTypeRanked, 100), []string{viewStandard}},
			{"t", OptFieldTypeTime(TimeQuantum("Y")), []string{viewStandard, viewStandard + "_2019"}},
			{"v", OptFieldTypeInt(0, 1000), []string{viewBSIGroupPrefix + "v"}},
		} {
			f, err := idx.CreateField(fd.name, fd.opt)
			if err != nil {
				rr.t.Fatal(err)
			}
			for _, vn := range fd.view {
				if _, err := f.createViewIfNotExists(vn); err != nil {
					rr.t.Fatal(err)
				}
			}
			if err := f.AddRemoteAvailableShards(roaring.NewBitmap(0, 1)); err != nil {
				rr.t.Fatal(err)
			}
		}
		api, err := NewAPI(OptAPIServer(s))
		if err != nil {
			rr.t.Fatal(err)
		}
		rep := &rckReplica{s: s, api: api}
		reps = append(reps, rep)
		client.reps[uri.Host] = rep
	}
	return reps, client
}

func (rr *rckRun) replicaFrag(rep *rckReplica, k rckFragKey, create bool) *fragment {
	f := rep.s.holder.fragment("i", k.field, k.view, k.shard)
	if f != nil || !create {
		return f
	}
	v, err := rep.s.holder.Field("i", k.field).createViewIfNotExists(k.view)
	if err != nil {
		rr.t.Fatal(err)
	}
	f, err = v.CreateFragmentIfNotExists(k.shard)
	if err != nil {
		rr.t.Fatal(err)
	}
	return f
}

// aeCase loads content[replica][fragment] into the first n replicas, runs one complete
// SyncHolder pass on replica `runner` and compares every replica with the per-bit majority.
func (rr *rckRun) aeCase(all []*rckReplica, n, runner int, keys []rckFragKey, content []map[rckFragKey]rckBits, probe bool) {
	reps := all[:n]
	var nodes []*Node
	for _, rep := range reps {
		nodes = append(nodes, rep.s.cluster.Node)
	}
	for _, rep := range all {
		c := rep.s.cluster
		c.mu.Lock()
		c.nodes = append([]*Node{}, nodes...)
		sort.Sort(byID(c.nodes))
		c.ReplicaN = n
		c.state = ClusterStateNormal
		c.mu.Unlock()
		for _, k := range append(append([]rckFragKey{}, rckAEFrags...), rckAEProbe) {
			if f := rr.replicaFrag(rep, k, false); f != nil {
				rckSetFrag(rr.t, f, nil)
			}
		}
	}
	seq := []string{fmt.Sprintf("%d replicas, SyncHolder runs on replica %d", n, runner)}
	for i, rep := range reps {
		for _, k := range keys {
			b := content[i][k]
			if len(b) > 0 {
				rckSetFrag(rr.t, rr.replicaFrag(rep, k, true), b)
			}
			seq = append(seq, fmt.Sprintf("replica %d %s/%s shard %d = %s", i, k.field, k.view, k.shard, b))
		}
	}
	want := map[rckFragKey]rckBits{}
	nontrivial := false
	for _, k := range keys {
		var per []rckBits
		for i := range reps {
			per = append(per, content[i][k])
		}
		want[k] = rckMajority(per)
		for i := range reps {
			if !content[i][k].equal(want[k]) {
				nontrivial = true
			}
		}
		seq = append(seq, fmt.Sprintf("majority %s/%s shard %d = %s", k.field, k.view, k.shard, want[k]))
	}
	if nontrivial {
		rr.nontrivial("C11s|" + strings.Join(seq, "|"))
	}
	rr.eval("C11", 1)
	rep := reps[runner]
	syncer := holderSyncer{Holder: rep.s.holder, Node: rep.s.cluster.Node, Cluster: rep.s.cluster, Stats: stats.NopStatsClient, Closing: make(chan struct{})}
	var err error
	if !rr.try("SyncHolder", []string{"C11"}, seq, func() { err = syncer.SyncHolder() }) {
		return
	}
	if err != nil {
		if probe {
			rr.noteProbe(err.Error())
			return
		}
		rr.fail([]string{"C11"}, "syncholder-does-not-complete", fmt.Sprintf("SyncHolder returned %v with every replica reachable", err), seq)
		return
	}
	if probe {
		rr.noteProbe("")
	}
	kind := func(k rckFragKey) string {
		switch {
		case k.view == viewStandard:
			return "standard"
		case strings.HasPrefix(k.view, viewStandard+"_"):
			return "time"
		}
		return "bsi"
	}
	checkKeys := append([]rckFragKey{}, rckAEFrags...)
	if probe {
		checkKeys = append(checkKeys, rckAEProbe)
	}
	for _, k := range checkKeys {
		var blocks []string
		contentOK := true
		for i, rp := range reps {
			got := rckBits{}
			f := rr.replicaFrag(rp, k, false)
			if f != nil {
				got = rckFragBits(f)
			}
			w := want[k]
			if w == nil {
				w = rckBits{}
			}
			role := "remote"
			if i == runner {
				role = "local"
			}
			if !got.equal(w) {
				contentOK = false
				what := fmt.Sprintf("after the pass replica %d (%s) holds %s in %s/%s shard %d, per-bit majority is %s", i, role, got, k.field, k.view, k.shard, w)
				// does the damage sit in a block on which all replicas agreed before the pass?
				agreeing := false
				for blk := uint64(0); blk < 5; blk++ {
					inBlk := func(b rckBits) rckBits {
						o := rckBits{}
						for bit, v := range b {
							if v && bit.r/HashBlockSize == blk {
								o[bit] = true
							}
						}
						return o
					}
					same := true
					for j := range reps {
						if !inBlk(content[j][k]).equal(inBlk(content[0][k])) {
							same = false
						}
					}
					if same && !inBlk(got).equal(inBlk(w)) {
						agreeing = true
					}
				}
				identical := true
				for j := range reps {
					if !content[j][k].equal(content[0][k]) {
						identical = false
					}
				}
				if identical {
					rr.fail([]string{"C11"}, "sync-repair-lands-in-other-view", what+" (this fragment was identical on all replicas before the pass, so the change was computed for another view or shard)", seq)
				} else if agreeing {
					rr.fail([]string{"C11"}, "sync-changes-agreeing-block-"+role+"-"+kind(k), what+" (a block on which all replicas agreed was changed)", seq)
				} else {
					rr.fail([]string{"C11"}, "sync-"+role+"-replica-"+kind(k), what, seq)
				}
			}
			var sb strings.Builder
			if f != nil {
				for _, b := range f.Blocks() {
					fmt.Fprintf(&sb, "%d:%x ", b.ID, b.Checksum)
				}
			}
			blocks = append(blocks, sb.String())
		}
		for i := 1; i < len(blocks) && contentOK; i++ { // with wrong contents the checksums differ trivially
			if blocks[i] != blocks[0] {
				rr.fail([]string{"C11"}, "sync-checksums-differ-"+kind(k), fmt.Sprintf("after the pass replica 0 and replica %d report different block checksums for %s/%s shard %d: [%s] vs [%s]", i, k.field, k.view, k.shard, blocks[0], blocks[i]), seq)
			}
		}
	}
}

var rckProbeNotes = map[string]int{}

func (rr *rckRun) noteProbe(s string) {
	if s == "" {
		s = "pass completed"
	}
	rckProbeNotes[s]++
}

func (rr *rckRun) runC11Sync() {
	all, _ := rr.newReplicas(5)
	defer func() {
		for _, rep := range all {
			_ = rep.api.Close()
			_ = rep.s.holder.Close()
		}
	}()
	// small systematic cases first (they give the minimal reproductions): one fragment, two positions
	pos := []rckBit{{0, 0}, {1, 3}}
	for _, k := range []rckFragKey{rckAEFrags[0], rckAEFrags[3], rckAEFrags[2]} {
		maxN := 3
		if rr.thorough || k.view != viewStandard {
			maxN = 4
		}
		for n := 2; n <= maxN; n++ {
			total := 1 << uint(2*n)
			for code := 0; code < total; code++ {
				content := make([]map[rckFragKey]rckBits, n)
				for r := 0; r < n; r++ {
					b := rckBits{}
					for p := 0; p < 2; p++ {
						if code>>(uint(r*2+p))&1 == 1 {
							b[pos[p]] = true
						}
					}
					content[r] = map[rckFragKey]rckBits{k: b}
				}
				rr.aeCase(all, n, code%n, []rckFragKey{k}, content, false)
			}
		}
	}
	// time view diverges while the standard view of the same field holds the same bits everywhere
	for n := 2; n <= 4; n++ {
		content := make([]map[rckFragKey]rckBits, n)
		for r := 0; r < n; r++ {
			content[r] = map[rckFragKey]rckBits{
				rckAEFrags[2]: {{0, 0}: true, {1, 3}: true},
				rckAEFrags[3]: {{1, 3}: true},
			}
		}
		content[0][rckAEFrags[3]] = rckBits{{0, 0}: true, {1, 3}: true}
		if n == 2 {
			content[0][rckAEFrags[3]] = rckBits{{0, 0}: true}
			content[1][rckAEFrags[3]] = rckBits{}
			// two replicas: a tie keeps the bit; make the local one lose by using three below
		}
		rr.aeCase(all, n, 1%n, []rckFragKey{rckAEFrags[2], rckAEFrags[3]}, content, false)
	}
	// the same, while the standard view itself diverges in another block (rows 100..199)
	for n := 3; n <= 4; n++ {
		content := make([]map[rckFragKey]rckBits, n)
		for r := 0; r < n; r++ {
			content[r] = map[rckFragKey]rckBits{
				rckAEFrags[2]: {{0, 0}: true, {1, 3}: true},
				rckAEFrags[3]: {{1, 3}: true},
			}
		}
		content[0][rckAEFrags[3]] = rckBits{{0, 0}: true, {1, 3}: true}
		content[n-1][rckAEFrags[2]] = rckBits{{0, 0}: true, {1, 3}: true, {150, 0}: true}
		rr.aeCase(all, n, 1, []rckFragKey{rckAEFrags[2], rckAEFrags[3]}, content, false)
	}
	// one block diverges while the next block (rows 100..199) holds the same bit on every replica
	for _, k := range []rckFragKey{rckAEFrags[0], rckAEFrags[4]} {
		for n := 2; n <= 4; n++ {
			for variant := 0; variant < 2; variant++ {
				content := make([]map[rckFragKey]rckBits, n)
				for r := range content {
					content[r] = map[rckFragKey]rckBits{k: {{100, 0}: true}}
					if (variant == 0) == (r == 0) {
						content[r][k][rckBit{0, 0}] = true
					}
				}
				rr.aeCase(all, n, 0, []rckFragKey{k}, content, false)
			}
		}
	}
	// random multi-fragment cases
	randN := 400
	if rr.thorough {
		randN = 30000
	}
	rows := []uint64{0, 1, 99, 100, 150, 305}
	cols := []uint64{0, 3, 65535, 65536, ShardWidth - 1}
	for c := 0; c < randN; c++ {
		n := 2 + rr.rng.Intn(4)
		var keys []rckFragKey
		for _, k := range rckAEFrags {
			if rr.rng.Intn(2) == 0 {
				keys = append(keys, k)
			}
		}
		if len(keys) == 0 {
			keys = []rckFragKey{rckAEFrags[rr.rng.Intn(len(rckAEFrags))]}
		}
		content := make([]map[rckFragKey]rckBits, n)
		for r := range content {
			content[r] = map[rckFragKey]rckBits{}
		}
		for _, k := range keys {
			nb := 1 + rr.rng.Intn(6)
			var universe []rckBit
			for len(universe) < nb {
				universe = append(universe, rckBit{rows[rr.rng.Intn(len(rows))], cols[rr.rng.Intn(len(cols))]})
			}
			for r := range content {
				b := rckBits{}
				for _, u := range universe {
					if rr.rng.Intn(3) != 0 {
						b[u] = true
					}
				}
				content[r][k] = b
			}
		}
		rr.aeCase(all, n, rr.rng.Intn(n), keys, content, false)
	}
	// probe (not an oracle): divergence in a bsi view
	for n := 2; n <= 3; n++ {
		content := make([]map[rckFragKey]rckBits, n)
		for r := range content {
			content[r] = map[rckFragKey]rckBits{rckAEProbe: {{0, 0}: true, {1, 0}: true}}
		}
		content[n-1][rckAEProbe] = rckBits{{0, 0}: true}
		// the bit-sliced view of an int field: repaired like every other view (this was a
		// probe without oracle until the defect behind its error was repaired)
		rr.aeCase(all, n, 0, []rckFragKey{rckAEProbe}, content, false)
	}
}

// ---------------------------------------------------------------------------
// C23: admission

const (
	rckClassResizeServed = iota // cluster messages, coordinator changes, shard data transfer, resize abort
	rckClassData                // query, import, export, schema change, anti-entropy
	rckClassOther               // reads of schema/placement and node removal: only the RESIZING rule applies
)

var rckMethodClass = map[string]int{
	"apiClusterMessage": rckClassResizeServed, "apiSetCoordinator": rckClassResizeServed, "apiFragmentData": rckClassResizeServed, "apiResizeAbort": rckClassResizeServed,
	"apiQuery": rckClassData, "apiImport": rckClassData, "apiImportValue": rckClassData, "apiField": rckClassData /* gate of the roaring import */, "apiExportCSV": rckClassData,
	"apiCreateIndex": rckClassData, "apiCreateField": rckClassData, "apiDeleteIndex": rckClassData, "apiDeleteField": rckClassData, "apiDeleteView": rckClassData,
	"apiDeleteAvailableShard": rckClassData, "apiApplySchema": rckClassData,
	"apiFragmentBlockData": rckClassData, "apiFragmentBlocks": rckClassData, "apiIndexAttrDiff": rckClassData, "apiFieldAttrDiff": rckClassData,
	"apiIndex": rckClassOther, "apiViews": rckClassOther, "apiShardNodes": rckClassOther, "apiRecalculateCaches": rckClassOther, "apiRemoveNode": rckClassOther,
}

var rckStates = []string{ClusterStateStarting, ClusterStateNormal, ClusterStateDegraded, ClusterStateResizing}

// rckDemand: +1 must be admitted, -1 must be refused with a method-not-allowed error, 0 the property is silent.
func rckDemand(class int, state string) int {
	switch state {
	case ClusterStateResizing:
		if class == rckClassResizeServed {
			return +1
		}
		return -1
	case ClusterStateStarting:
		if class == rckClassData {
			return -1
		}
	case ClusterStateNormal, ClusterStateDegraded:
		if class == rckClassData {
			return +1
		}
	}
	return 0
}

func rckIsNotAllowed(err error) bool {
	if err == nil {
		return false
	}
	_, ok := errors.Cause(err).(apiMethodNotAllowedError)
	return ok
}

type rckEntry struct {
	name  string
	class int
	call  func(api *API) error
}

func rckEntries() []rckEntry {
	ctx := context.Background()
	bm := func() []byte {
		var buf bytes.Buffer
		_, _ = roaring.NewBitmap(1).WriteTo(&buf)
		return buf.Bytes()
	}
	return []rckEntry{
		{"Query", rckClassData, func(a *API) error { _, err := a.Query(ctx, &QueryRequest{Index: "i", Query: "Row(s=1)"}); return err }},
		{"Query(Set)", rckClassData, func(a *API) error {
			_, err := a.Query(ctx, &QueryRequest{Index: "i", Query: "Set(1, s=1)"})
			return err
		}},
		{"Import", rckClassData, func(a *API) error {
			return a.Import(ctx, &ImportRequest{Index: "i", Field: "s", Shard: 0, RowIDs: []uint64{1}, ColumnIDs: []uint64{1}})
		}},
		{"ImportValue", rckClassData, func(a *API) error {
			return a.ImportValue(ctx, &ImportValueRequest{Index: "i", Field: "v", Shard: 0, ColumnIDs: []uint64{1}, Values: []int64{1}})
		}},
		// the same two entry points with each import option (a forwarded, already
		// key-translated import and a clearing import are still imports)
		{"Import(ignoreKeyCheck)", rckClassData, func(a *API) error {
			return a.Import(ctx, &ImportRequest{Index: "i", Field: "s", Shard: 0, RowIDs: []uint64{2}, ColumnIDs: []uint64{2}}, OptImportOptionsIgnoreKeyCheck(true))
		}},
		{"Import(clear)", rckClassData, func(a *API) error {
			return a.Import(ctx, &ImportRequest{Index: "i", Field: "s", Shard: 0, RowIDs: []uint64{1}, ColumnIDs: []uint64{1}}, OptImportOptionsClear(true))
		}},
		{"Import(clear,ignoreKeyCheck)", rckClassData, func(a *API) error {
			return a.Import(ctx, &ImportRequest{Index: "i", Field: "s", Shard: 0, RowIDs: []uint64{1}, ColumnIDs: []uint64{1}}, OptImportOptionsClear(true), OptImportOptionsIgnoreKeyCheck(true))
		}},
		{"ImportValue(ignoreKeyCheck)", rckClassData, func(a *API) error {
			return a.ImportValue(ctx, &ImportValueRequest{Index: "i", Field: "v", Shard: 0, ColumnIDs: []uint64{2}, Values: []int64{2}}, OptImportOptionsIgnoreKeyCheck(true))
		}},
		{"ImportValue(clear)", rckClassData, func(a *API) error {
			return a.ImportValue(ctx, &ImportValueRequest{Index: "i", Field: "v", Shard: 0, ColumnIDs: []uint64{1}, Values: []int64{1}}, OptImportOptionsClear(true))
		}},
		{"ImportRoaring(clear)", rckClassData, func(a *API) error {
			return a.ImportRoaring(ctx, "i", "s", 0, true, &ImportRoaringRequest{Clear: true, Views: map[string][]byte{"": bm()}})
		}},
		{"Query(remote)", rckClassData, func(a *API) error {
			_, err := a.Query(ctx, &QueryRequest{Index: "i", Query: "Row(s=1)", Remote: true, Shards: []uint64{0}})
			return err
		}},
		{"ImportRoaring", rckClassData, func(a *API) error {
			return a.ImportRoaring(ctx, "i", "s", 0, true, &ImportRoaringRequest{Views: map[string][]byte{"": bm()}})
		}},
		{"ExportCSV", rckClassData, func(a *API) error { return a.ExportCSV(ctx, "i", "s", 0, &bytes.Buffer{}) }},
		{"CreateIndex", rckClassData, func(a *API) error { _, err := a.CreateIndex(ctx, "newindex", IndexOptions{}); return err }},
		{"CreateField", rckClassData, func(a *API) error { _, err := a.CreateField(ctx, "i", "newfield"); return err }},
		{"DeleteView", rckClassData, func(a *API) error { return a.DeleteView(ctx, "i", "t", viewStandard+"_2019") }},
		{"DeleteAvailableShard", rckClassData, func(a *API) error { return a.DeleteAvailableShard(ctx, "i", "s", 7) }},
		{"ApplySchema", rckClassData, func(a *API) error { return a.ApplySchema(ctx, &Schema{}, true) }},
		{"FragmentBlockData", rckClassData, func(a *API) error { _, err := a.FragmentBlockData(ctx, bytes.NewReader(nil)); return err }},
		{"FragmentBlocks", rckClassData, func(a *API) error { _, err := a.FragmentBlocks(ctx, "i", "s", viewStandard, 0); return err }},
		{"IndexAttrDiff", rckClassData, func(a *API) error { _, err := a.IndexAttrDiff(ctx, "i", nil); return err }},
		{"FieldAttrDiff", rckClassData, func(a *API) error { _, err := a.FieldAttrDiff(ctx, "i", "s", nil); return err }},
		{"DeleteField", rckClassData, func(a *API) error { return a.DeleteField(ctx, "i", "newfield") }},
		{"DeleteIndex", rckClassData, func(a *API) error { return a.DeleteIndex(ctx, "newindex") }},
		{"Index", rckClassOther, func(a *API) error { _, err := a.Index(ctx, "i"); return err }},
		{"Field", rckClassOther, func(a *API) error { _, err := a.Field(ctx, "i", "s"); return err }},
		{"Views", rckClassOther, func(a *API) error { _, err := a.Views(ctx, "i", "s"); return err }},
		{"ShardNodes", rckClassOther, func(a *API) error { _, err := a.ShardNodes(ctx, "i", 0); return err }},
		{"RecalculateCaches", rckClassOther, func(a *API) error { return a.RecalculateCaches(ctx) }},
		{"RemoveNode", rckClassOther, func(a *API) error { _, err := a.RemoveNode("no-such-node"); return err }},
		{"FragmentData", rckClassResizeServed, func(a *API) error { _, err := a.FragmentData(ctx, "i", "s", viewStandard, 0); return err }},
		{"ClusterMessage", rckClassResizeServed, func(a *API) error {
			return a.ClusterMessage(ctx, bytes.NewReader([]byte{messageTypeRecalculateCaches}))
		}},
		{"SetCoordinator", rckClassResizeServed, func(a *API) error { _, _, err := a.SetCoordinator(ctx, "no-such-node"); return err }},
		{"ResizeAbort", rckClassResizeServed, func(a *API) error { return a.ResizeAbort() }},
	}
}

// rckCall runs one entry point with a panic guard and a hang guard.
func rckCall(e rckEntry, api *API) (err error, panicked interface{}, hung bool) {
	type res struct {
		err error
		p   interface{}
	}
	ch := make(chan res, 1)
	go func() {
		var r res
		defer func() {
			if p := recover(); p != nil {
				r.p = p
			}
			ch <- r
		}()
		r.err = e.call(api)
	}()
	select {
	case r := <-ch:
		return r.err, r.p, false
	case <-time.After(10 * time.Second):
		return nil, nil, true
	}
}

func (rr *rckRun) runC23() {
	// (1) exhaustive table: every apiMethod constant x every state
	c := newCluster()
	c.Node = rckNode("node0")
	api := &API{cluster: c}
	var names []string
	for m := apiMethod(0); m < 200; m++ {
		name := m.String()
		if strings.HasPrefix(name, "apiMethod(") {
			break
		}
		names = append(names, name)
		class, known := rckMethodClass[name]
		if !known {
			class = rckClassOther
		}
		for _, st := range rckStates {
			c.state = st
			seq := []string{fmt.Sprintf("cluster state %s", st), fmt.Sprintf("validate(%s)", name)}
			var err error
			if !rr.try("validate", []string{"C23"}, seq, func() { err = api.validate(m) }) {
				continue
			}
			rr.eval("C23", 1)
			d := rckDemand(class, st)
			if d != 0 {
				rr.nontrivial("C23t|" + name + "|" + st)
			}
			switch {
			case d > 0 && err != nil:
				rr.fail([]string{"C23"}, "gate-refuses-"+name+"-in-"+st, fmt.Sprintf("validate(%s) in state %s = %v, the property admits it", name, st, err), seq)
			case d < 0 && err == nil:
				rr.fail([]string{"C23"}, "gate-admits-"+name+"-in-"+st, fmt.Sprintf("validate(%s) in state %s admits the request, the property refuses it", name, st), seq)
			case d < 0 && !rckIsNotAllowed(err):
				rr.fail([]string{"C23"}, "gate-error-type", fmt.Sprintf("validate(%s) in state %s refuses with %T (%v), want a method-not-allowed error", name, st, errors.Cause(err), err), seq)
			}
		}
	}
	for name := range rckMethodClass {
		if !rckContains(names, name) {
			rr.t.Fatalf("harness table names %s, which is not an apiMethod constant any more", name)
		}
	}
	rr.res.Samples = append(rr.res.Samples, map[string]interface{}{"prop": "C23", "exhaustive": true, "methods": names, "states": rckStates})

	// (2) entry points on an API without holder and server: a refusal must come before any data access
	entries := rckEntries()
	for _, st := range []string{ClusterStateStarting, ClusterStateResizing} {
		for _, e := range entries {
			d := rckDemand(e.class, st)
			if d >= 0 {
				continue
			}
			bare, err := NewAPI()
			if err != nil {
				rr.t.Fatal(err)
			}
			bc := newCluster()
			bc.Node = rckNode("node0")
			bc.state = st
			bare.cluster = bc
			seq := []string{fmt.Sprintf("cluster state %s, API with nil holder and nil server", st), "API." + e.name}
			rr.eval("C23", 1)
			rr.nontrivial("C23e|" + e.name + "|" + st)
			err, p, hung := rckCall(e, bare)
			switch {
			case hung:
				rr.fail([]string{"C23"}, "entry-hangs-"+e.name, "call does not return within 10 s in state "+st, seq)
			case p != nil:
				rr.fail([]string{"C23"}, "entry-acts-before-gate-"+e.name, fmt.Sprintf("API.%s in state %s panics (%v) on the nil holder/server instead of refusing first", e.name, st, p), seq)
			case !rckIsNotAllowed(err):
				rr.fail([]string{"C23"}, "entry-not-refused-"+e.name, fmt.Sprintf("API.%s in state %s returns %v, want a method-not-allowed refusal", e.name, st, err), seq)
			}
			if !hung {
				_ = bare.Close()
			}
		}
	}

	// (3) entry points on a live single-node API: admission and refusal with real data behind it
	all, _ := rr.newReplicas(1)
	rep := all[0]
	defer func() { _ = rep.api.Close(); _ = rep.s.holder.Close() }()
	cl := rep.s.cluster
	cl.mu.Lock()
	cl.Coordinator = cl.Node.ID
	cl.Node.IsCoordinator = true
	cl.mu.Unlock()
	f := rr.replicaFrag(rep, rckFragKey{"s", viewStandard, 0}, true)
	if _, err := f.setBit(1, 1); err != nil {
		rr.t.Fatal(err)
	}
	snapshot := func() string {
		var sb strings.Builder
		for _, ii := range rep.s.holder.Schema() {
			sb.WriteString(ii.Name + "[")
			for _, fi := range ii.Fields {
				sb.WriteString(fi.Name + "(")
				for _, vi := range fi.Views {
					sb.WriteString(vi.Name + " ")
					if fr := rep.s.holder.fragment(ii.Name, fi.Name, vi.Name, 0); fr != nil {
						sb.WriteString(rckFragBits(fr).String())
					}
				}
				sb.WriteString(fmt.Sprint(rep.s.holder.Field(ii.Name, fi.Name).AvailableShards().Slice()) + ")")
			}
			sb.WriteString("]")
		}
		return sb.String()
	}
	for _, st := range rckStates {
		for _, e := range entries {
			d := rckDemand(e.class, st)
			if d == 0 {
				continue
			}
			cl.mu.Lock()
			cl.state = st
			cl.mu.Unlock()
			seq := []string{fmt.Sprintf("single-node server, cluster state %s", st), "API." + e.name}
			before := snapshot()
			rr.eval("C23", 1)
			rr.nontrivial("C23l|" + e.name + "|" + st)
			err, p, hung := rckCall(e, rep.api)
			if hung {
				rr.fail([]string{"C23"}, "entry-hangs-"+e.name, "call does not return within 10 s in state "+st, seq)
				continue
			}
			if d > 0 {
				if rckIsNotAllowed(err) {
					rr.fail([]string{"C23"}, "entry-refused-while-serving-"+e.name, fmt.Sprintf("API.%s in state %s is refused: %v", e.name, st, err), seq)
				}
				continue // a panic behind the gate would be an artefact of the reduced server
			}
			if p != nil || !rckIsNotAllowed(err) {
				rr.fail([]string{"C23"}, "entry-not-refused-"+e.name, fmt.Sprintf("API.%s in state %s: err=%v panic=%v, want a method-not-allowed refusal", e.name, st, err, p), seq)
			}
			if after := snapshot(); after != before {
				rr.fail([]string{"C23"}, "entry-changes-data-while-refusing-"+e.name, fmt.Sprintf("API.%s in state %s changed the holder from %s to %s", e.name, st, before, after), seq)
			}
		}
	}
	cl.mu.Lock()
	cl.state = ClusterStateNormal
	cl.mu.Unlock()
}

// ---------------------------------------------------------------------------

func TestRcheckCluster(t *testing.T) {
	seed := int64(1)
	if s := os.Getenv("VERIF_SEED"); s != "" {
		if v, err := strconv.ParseInt(s, 10, 64); err == nil {
			seed = v
		}
	}
	thorough := os.Getenv("VERIF_TIER") == "thorough"
	dir, err := os.MkdirTemp("", "rcheck-cluster-")
	if err != nil {
		t.Fatal(err)
	}
	defer os.RemoveAll(dir)
	res := &rckResult{Harness: "cluster", PerProp: map[string]int{}, Failures: []rckFailure{},
		Rule: "evaluation = one oracle comparison: (cluster, replicaN, partitionN, index, shard) owner-list check or one call-site comparison (C20); one plan (fragSources per index or resize job) checked against the ownership diff (C21); one mergeBlock call or one complete SyncHolder pass compared with the per-bit majority (C11); one (apiMethod|entry point, state) admission decision (C23, the apiMethod x state table is EXHAUSTIVE). Non-trivial: shard with >1 owner (C20), plan in which some node newly owns a fragment (C21), replicas that actually diverge from the majority (C11), pairs on which the property makes a demand (C23); distinct by full configuration text.",
	}
	tier := "quick"
	if thorough {
		tier = "thorough"
	}
	sz := map[string][]int{"quick": {3, 24, 4, 1500, 400}, "thorough": {24, 720, 80, 150000, 30000}}[tier]
	res.Bound = fmt.Sprintf("tier %s, seed %d. "+
		"C20: node-ID sets of 1..6 IDs from a pool of %d odd strings (%d sets per size), join orders: all, capped at %d per set (thorough: all 720 for the first two 6-node sets, 240 for the others), through addNodeBasicSorted (every order) and addNode / mergeClusterStatus on a non-coordinator / add+remove of an extra node / nodeJoin on the coordinator (a subset of the orders); replicaN 0..7 x partitionN {1,2,7,16,256} (all 40 for the first two orders of a set, sampled beyond), indexes i,j, shards 0..40 plus every partition 0..partitionN-1 directly; cleaner (RESIZING->NORMAL transition) and SyncHolder call sites on a holder with shards 0..12 for replicaN {1,2,3,7}. "+
		"C21: clusters of 1..6 nodes (%d ID sets per size), replicaN 0..5, partitionN {256,8}, 2 schemas (indexes i,j[,empty]; time/int/set fields; views standard, standard_2018, bsig_g; a field without views; available shards random in 0..24), every single add (3 new IDs: before/inside/after the ring) up to a resulting 6 nodes and every single remove, through fragSources and unprotectedGenerateResizeJobByAction. "+
		"C11: mergeBlock exhaustive over 2 bit positions x 1..5 replicas (thorough 6) and 3 positions x 2..3 replicas (4 for the standard fragment and in thorough) in standard/time/bsi fragments on shards 0/2/1, plus %d random cases (<=7 positions, 1..5 replicas, thorough up to 8, blocks 0,1,3, local bits in neighbouring blocks); complete SyncHolder passes over 2..5 in-process replicas of index i (set field s, time field t with views standard and standard_2019, shards 0,1): exhaustive 2 positions x 2..3 replicas (4 for the time view and in thorough), hand-picked cross-view / neighbouring-block cases, %d random multi-fragment cases (rows {0,1,99,100,150,305}). "+
		"C23: all apiMethod constants x {STARTING,NORMAL,DEGRADED,RESIZING} EXHAUSTIVE; 35 calls of exported API entry points (imports with every option) x states on a holder-less API and on a live single-node API.",
		tier, seed, len(rckIDPool), sz[0], sz[1], sz[2], sz[3], sz[4])
	rr := &rckRun{t: t, res: res, rng: rand.New(rand.NewSource(seed)), thorough: thorough, dir: dir, seen: map[string]bool{}}

	start := time.Now()
	timing := map[string]string{}
	for _, part := range []struct {
		name string
		fn   func()
	}{
		{"C23", rr.runC23},
		{"C11-mergeBlock", rr.runC11Merge},
		{"C11-SyncHolder", rr.runC11Sync},
		{"C20", rr.runC20},
		{"C21", rr.runC21},
		{"C06-resize-messages", rr.runC06Resize},
	} {
		t0 := time.Now()
		part := part
		rr.try("harness-"+part.name, []string{part.name[:3]}, []string{part.name}, part.fn)
		timing[part.name] = time.Since(t0).Round(time.Millisecond).String()
	}
	res.Samples = append(res.Samples, map[string]interface{}{"timing": timing, "total": time.Since(start).Round(time.Millisecond).String()})
	if len(rckProbeNotes) > 0 {
		res.Samples = append(res.Samples, map[string]interface{}{"probe (no oracle): SyncHolder with a divergent bsi view": rckProbeNotes})
	}
	if len(res.Samples) > 4 {
		res.Samples = res.Samples[:4]
	}
	if out := os.Getenv("RCHECK_OUT"); out != "" {
		data, _ := json.MarshalIndent(res, "", " ")
		if err := os.WriteFile(out, data, 0o644); err != nil {
			t.Fatal(err)
		}
	}
	for _, f := range res.Failures {
		t.Logf("FAIL %v %s: %s", f.Props, f.Sig, f.What)
	}
	t.Logf("evaluations %d (%v), distinct non-trivial %d, timing %v", res.Evaluations, res.PerProp, res.Distinct, timing)
	_ = io.Discard
}
