package main

import (
	"bytes"
	"context"
	"fmt"
	"os"
	"os/exec"
	"path/filepath"
	"regexp"
	"strings"
	"sync"
	"time"
)

type SolveResult struct {
	ID       string
	Verdict  string // unsat sat unknown timeout error
	Solver   string
	Seconds  float64
	File     string
	Output   string
	Attempts []string
}

var bitSyms = regexp.MustCompile(`\((bit|band|bor|bxor|bandnot|bnot64|popcount|pow2) `)

// smtFor renders the SMT-LIB query of one obligation.
func (e *Enc) smtFor(o *Oblig, withModel bool, values []string) string {
	var b strings.Builder
	b.WriteString("; obligation " + o.ID + "\n; " + o.Text + "\n")
	if withModel {
		b.WriteString("(set-option :produce-models true)\n")
	}
	b.WriteString("(set-logic ALL)\n")
	body := e.body
	if o.Prefix < len(body) {
		body = body[:o.Prefix]
	}
	text := strings.Join(body, "\n")
	// the element-object axiom (byref slices) is only needed when elemptr occurs:
	// an unused quantifier keeps the solvers from answering sat (no counterexample)
	needElem := strings.Contains(text, "elemptr") || strings.Contains(o.Formula, "elemptr") || strings.Contains(strings.Join(o.Extra, " "), "elemptr") || strings.Contains(strings.Join(e.recAxioms, " "), "elemptr")
	for _, l := range e.d.lines {
		if !needElem && strings.HasPrefix(l, "(assert (forall ((r Int) (i Int)) (! (and (< (elemptr r i) 0)") {
			continue
		}
		if !needElem && strings.Contains(l, "elemptr") && strings.HasPrefix(l, "(assert") {
			continue
		}
		b.WriteString(l + "\n")
	}
	needBits := bitSyms.MatchString(text) || bitSyms.MatchString(o.Formula) || bitSyms.MatchString(strings.Join(e.recAxioms, "\n"))
	if needBits {
		for _, a := range bitAxioms {
			b.WriteString(a + "\n")
		}
	}
	for _, a := range e.recAxioms {
		b.WriteString(a + "\n")
	}
	b.WriteString(text + "\n")
	for _, x := range o.Extra {
		b.WriteString(x + "\n")
	}
	b.WriteString("(assert " + o.Guard + ")\n")
	if !o.Negate {
		b.WriteString("(assert (not " + o.Formula + "))\n")
	} else if o.Formula != "" && o.Formula != "true" {
		b.WriteString("(assert " + o.Formula + ")\n")
	}
	b.WriteString("(check-sat)\n")
	if withModel && len(values) > 0 {
		b.WriteString("(get-value (" + strings.Join(values, " ") + "))\n")
	}
	return b.String()
}

type solverSpec struct {
	name string
	args func(file string, secs int) []string
}

var solvers = []solverSpec{
	{"z3-new", func(f string, s int) []string { return []string{"z3-new", fmt.Sprintf("-T:%d", s), f} }},
	{"z3", func(f string, s int) []string { return []string{"z3", fmt.Sprintf("-T:%d", s), f} }},
	{"cvc5", func(f string, s int) []string {
		return []string{"cvc5", fmt.Sprintf("--tlimit=%d", s*1000), "--produce-models", f}
	}},
}

func runSolver(ctx context.Context, sp solverSpec, file string, secs int) (verdict, out string, dur float64) {
	args := sp.args(file, secs)
	t0 := time.Now()
	cctx, cancel := context.WithTimeout(ctx, time.Duration(secs+2)*time.Second)
	defer cancel()
	cmd := exec.CommandContext(cctx, args[0], args[1:]...)
	var buf bytes.Buffer
	cmd.Stdout = &buf
	cmd.Stderr = &buf
	cmd.Run()
	dur = time.Since(t0).Seconds()
	out = buf.String()
	first := strings.TrimSpace(strings.SplitN(out, "\n", 2)[0])
	switch first {
	case "unsat", "sat", "unknown":
		return first, out, dur
	case "timeout":
		return "timeout", out, dur
	}
	if cctx.Err() != nil {
		return "timeout", out, dur
	}
	if strings.Contains(out, "interrupted") || strings.Contains(out, "timeout") {
		return "timeout", out, dur
	}
	return "error", out, dur
}

// solveOne decides one query, racing the solvers (z3-new first, the other two
// join after a short head start).
func solveOne(file string, secs int, all bool) SolveResult {
	ctx, cancel := context.WithCancel(context.Background())
	defer cancel()
	type ans struct {
		v, out, solver string
		dur            float64
	}
	ch := make(chan ans, len(solvers))
	start := func(sp solverSpec) {
		go func() {
			v, out, d := runSolver(ctx, sp, file, secs)
			ch <- ans{v, out, sp.name, d}
		}()
	}
	res := SolveResult{File: file, Verdict: "unknown"}
	t0 := time.Now()
	start(solvers[0])
	started := 1
	pending := 1
	headStart := time.After(1500 * time.Millisecond)
	var definitive *ans
	for pending > 0 {
		select {
		case a := <-ch:
			pending--
			res.Attempts = append(res.Attempts, fmt.Sprintf("%s:%s:%.2fs", a.solver, a.v, a.dur))
			if a.v == "unsat" || a.v == "sat" {
				if definitive == nil {
					aa := a
					definitive = &aa
				} else if definitive.v != a.v {
					res.Verdict = "error"
					res.Output = "SOLVER DISAGREEMENT: " + definitive.solver + "=" + definitive.v + " " + a.solver + "=" + a.v
					return res
				}
				if !all {
					pending = 0
				}
			} else if res.Output == "" {
				res.Output = a.out
				if res.Verdict == "unknown" && a.v == "timeout" {
					res.Verdict = "timeout"
				}
			}
			if pending == 0 && definitive == nil && started < len(solvers) {
				for started < len(solvers) {
					start(solvers[started])
					started++
					pending++
				}
			}
		case <-headStart:
			for started < len(solvers) {
				start(solvers[started])
				started++
				pending++
			}
		}
	}
	if definitive != nil {
		res.Verdict = definitive.v
		res.Solver = definitive.solver
		res.Output = definitive.out
	}
	res.Seconds = time.Since(t0).Seconds()
	return res
}

// solveAll writes and decides the obligations of one function.
func solveAll(fr *FuncResult, outDir string, secs int, all bool, par int) map[string]SolveResult {
	os.MkdirAll(outDir, 0o755)
	results := map[string]SolveResult{}
	var mu sync.Mutex
	sem := make(chan struct{}, par)
	var wg sync.WaitGroup
	for _, o := range fr.Obls {
		o := o
		file := filepath.Join(outDir, mangle(o.ID)+".smt2")
		os.WriteFile(file, []byte(fr.enc.smtFor(o, false, nil)), 0o644)
		wg.Add(1)
		sem <- struct{}{}
		go func() {
			defer wg.Done()
			defer func() { <-sem }()
			r := solveOne(file, secs, all)
			r.ID = o.ID
			mu.Lock()
			results[o.ID] = r
			mu.Unlock()
		}()
	}
	wg.Wait()
	return results
}
