package main

// Evaluation of specification expressions to SMT terms.

import (
	"fmt"
	"go/constant"
	"go/token"
	"go/types"
	"strings"
)

type SV struct {
	T     string
	S     string
	GoT   types.Type
	Elem  types.Type // element type for seq / ghost map values
	KeyS  string
	a     *Addr
	isNil bool
	// absolute-index bound variable: T == (- absBase absOff)
	absBase, absOff string
	absConst        int64
}

type SpecEnv struct {
	e       *Enc
	names   map[string]SV
	resolve func(name string) (SV, bool)
	heap    *Heap
	old     *Heap
	pkg     *types.Package
	pkgPath string
	noHeap  bool
	depth   int
	inRec   string // name of the recursive spec function whose body is being rendered
}

func (e *Enc) newSpecEnv(pkgPath string, heap, old *Heap) *SpecEnv {
	return &SpecEnv{e: e, names: map[string]SV{}, heap: heap, old: old, pkg: e.w.typesPkg(pkgPath), pkgPath: pkgPath}
}

func (env *SpecEnv) child() *SpecEnv {
	n := *env
	n.names = map[string]SV{}
	for k, v := range env.names {
		n.names[k] = v
	}
	return &n
}

func (env *SpecEnv) bindOperand(name string, op Operand, t types.Type) {
	if name == "" || name == "_" {
		return
	}
	if op.a != nil {
		env.names[name] = SV{a: op.a, GoT: t}
		return
	}
	env.names[name] = SV{T: op.v.T, S: op.v.S, GoT: t}
}

func (env *SpecEnv) lookupType(name string) types.Type {
	if env.pkg == nil {
		return nil
	}
	name = strings.TrimSpace(name)
	if obj := env.pkg.Scope().Lookup(name); obj != nil {
		if tn, ok := obj.(*types.TypeName); ok {
			return tn.Type()
		}
	}
	return nil
}

// parseType parses a type string of the spec language.
// seq[T] -> array Int->T ; map[K]V (ghost) -> array K->V ; otherwise Go type.
func (e *Enc) parseType(s string, pkg *types.Package) (sort string, goT types.Type, elem types.Type, keyS string) {
	s = strings.TrimSpace(s)
	switch {
	case s == "mathint" || s == "int" || s == "Int":
		return "Int", types.Typ[types.Int], nil, ""
	case s == "Bool" || s == "bool":
		return "Bool", types.Typ[types.Bool], nil, ""
	case strings.HasPrefix(s, "seq[") && strings.HasSuffix(s, "]"):
		es, et, _, _ := e.parseType(s[4:len(s)-1], pkg)
		return "(Array Int " + es + ")", nil, et, "Int"
	case strings.HasPrefix(s, "set[") && strings.HasSuffix(s, "]"):
		ks, _, _, _ := e.parseType(s[4:len(s)-1], pkg)
		return "(Array " + ks + " Bool)", nil, types.Typ[types.Bool], ks
	case strings.HasPrefix(s, "map["):
		depth := 0
		for i, c := range s {
			if c == '[' {
				depth++
			} else if c == ']' {
				depth--
				if depth == 0 {
					ks, _, _, _ := e.parseType(s[4:i], pkg)
					vs, vt, _, _ := e.parseType(s[i+1:], pkg)
					return "(Array " + ks + " " + vs + ")", nil, vt, ks
				}
			}
		}
	}
	tv, err := types.Eval(e.w.fset, pkg, token.NoPos, s)
	if err != nil || !tv.IsType() {
		e.fatalf("cannot parse type %q: %v", s, err)
		return "Int", types.Typ[types.Int], nil, ""
	}
	return e.d.sortOf(tv.Type), tv.Type, nil, ""
}

func (e *Enc) ghostKey(structT types.Type, name string) string {
	tn := typeBaseName(structT)
	var pkgPath string
	if n, ok := structT.(*types.Named); ok && n.Obj().Pkg() != nil {
		pkgPath = n.Obj().Pkg().Path()
	}
	g := e.w.cs.Ghosts[pkgPath+"."+tn+"."+name]
	if g == nil {
		return ""
	}
	key := "F|" + shortTypeName(structT) + "|" + name
	if _, ok := e.keySort[key]; !ok {
		s, goT, _, _ := e.parseType(g.Type, e.w.typesPkg(g.Pkg))
		e.regKey(key, "(Array Int "+s+")", goT)
	}
	if _, isIface := structT.Underlying().(*types.Interface); isIface {
		// ghost state owned by an interface value: interface values are abstract
		// identities that are not ordered against the allocation watermark, so
		// call frames over these keys hold for every identity (a value created
		// inside the callee has no observable pre-state).
		if e.ifaceKey == nil {
			e.ifaceKey = map[string]bool{}
		}
		e.ifaceKey[key] = true
	}
	return key
}

func (e *Enc) ghostInfo(structT types.Type, name string) (sort string, goT, elem types.Type, keyS string, ok bool) {
	tn := typeBaseName(structT)
	var pkgPath string
	if n, isN := structT.(*types.Named); isN && n.Obj().Pkg() != nil {
		pkgPath = n.Obj().Pkg().Path()
	}
	g := e.w.cs.Ghosts[pkgPath+"."+tn+"."+name]
	if g == nil {
		return "", nil, nil, "", false
	}
	s, gt, el, ks := e.parseType(g.Type, e.w.typesPkg(g.Pkg))
	return s, gt, el, ks, true
}

func (e *Enc) evalBool(s *Spec, env *SpecEnv) string {
	v := e.evalSpec(s, env)
	if v.S != "Bool" {
		e.fatalf("spec %s: expected Bool, got %s", s, v.S)
		return "true"
	}
	return v.T
}

func (e *Enc) evalInt(s *Spec, env *SpecEnv) string {
	v := e.evalSpec(s, env)
	if v.S != "Int" {
		e.fatalf("spec %s: expected Int, got %s", s, v.S)
		return "0"
	}
	return v.T
}

func intSV(t string) SV  { return SV{T: t, S: "Int", GoT: types.Typ[types.Int]} }
func boolSV(t string) SV { return SV{T: t, S: "Bool", GoT: types.Typ[types.Bool]} }

func (e *Enc) evalSpec(s *Spec, env *SpecEnv) SV {
	switch s.Kind {
	case SInt:
		return intSV(smtInt(s.Int))
	case SBool:
		if s.Bool {
			return boolSV("true")
		}
		return boolSV("false")
	case SNil:
		return SV{T: "0", S: "Int", isNil: true}
	case SName:
		if v, ok := env.names[s.Name]; ok {
			return v
		}
		if env.resolve != nil {
			if v, ok := env.resolve(s.Name); ok {
				return v
			}
		}
		if env.pkg != nil {
			if obj := env.pkg.Scope().Lookup(s.Name); obj != nil {
				if c, ok := obj.(*types.Const); ok {
					switch c.Val().Kind() {
					case constant.Int:
						bi, _ := constBigFrom(c.Val())
						return SV{T: smtInt(bi), S: "Int", GoT: c.Type()}
					case constant.Bool:
						return boolSV(fmt.Sprint(constant.BoolVal(c.Val())))
					case constant.String:
						return SV{T: e.strConst(constant.StringVal(c.Val())), S: "Int", GoT: c.Type()}
					}
				}
				if gv, ok := obj.(*types.Var); ok {
					key := "G|" + env.pkg.Name() + "." + gv.Name()
					e.regKey(key, e.d.sortOf(gv.Type()), gv.Type())
					return SV{T: e.hget(env.heap, key), S: e.d.sortOf(gv.Type()), GoT: gv.Type()}
				}
			}
		}
		e.fatalf("spec: unknown name %q", s.Name)
		return intSV("0")
	case SUnary:
		a := e.evalSpec(s.A, env)
		switch s.Op {
		case "!":
			return boolSV(not(a.T))
		case "-":
			return intSV("(- " + a.T + ")")
		case "^":
			return intSV(fmt.Sprintf("(- 18446744073709551615 %s)", a.T))
		}
	case SBinary:
		return e.evalBinary(s, env)
	case SCond:
		c := e.evalBool(s.A, env)
		a := e.evalSpec(s.B, env)
		b := e.evalSpec(s.C, env)
		r := a
		r.T = fmt.Sprintf("(ite %s %s %s)", c, a.T, b.T)
		return r
	case SQuant:
		// Absolute-index form: when a bound variable k is used as a slice index
		// a[k], quantify over the absolute position j = off(a)+k so that the
		// element term is (select row j) -- a clean E-matching pattern.  When a
		// single bound variable indexes several slices, the (equivalent) formula
		// is rendered once per slice and the renderings are conjoined, so that a
		// ground element of either slice triggers an instance.
		probe := env.child()
		for _, v := range s.Vars {
			probe.names[v] = intSV("q!probe")
		}
		type absCand struct {
			off string
			c   int64
		}
		cands := map[string][]absCand{} // var -> distinct (offset term, constant)
		for _, v := range s.Vars {
			seen := map[absCand]bool{}
			for _, ib := range findIndexBases(s.A, v, nil) {
				nf := len(e.fatal)
				pe := probe
				if ib.inOld && probe.old != nil {
					po := *probe
					po.heap = probe.old
					pe = &po
				}
				bv := e.evalSpec(ib.base, pe)
				if len(e.fatal) > nf || bv.S != sliceSort || bv.a != nil || strings.Contains(bv.T, "q!probe") {
					e.fatal = e.fatal[:nf]
					continue
				}
				ac := absCand{"(soff " + bv.T + ")", ib.c}
				if !seen[ac] {
					seen[ac] = true
					cands[v] = append(cands[v], ac)
				}
			}
		}
		// A slice indexed at two different constant distances (a[k] and a[k+1]) is
		// not used as a trigger base when another base is available: an instance
		// triggered by a[k] would mention a[k+1] and trigger itself again.
		for _, v := range s.Vars {
			nOff := map[string]int{}
			for _, ac := range cands[v] {
				nOff[ac.off]++
			}
			var keep []absCand
			for _, ac := range cands[v] {
				if nOff[ac.off] == 1 {
					keep = append(keep, ac)
				}
			}
			if len(keep) > 0 {
				cands[v] = keep
			}
		}
		// A bound variable that is also a direct argument of a declared spec
		// function (rec / uf) gets one more, relative rendering: there the
		// application f(..k..) is the trigger.
		for _, v := range s.Vars {
			if len(cands[v]) > 0 && e.varIsFuncArg(s.A, v) {
				cands[v] = append(cands[v], absCand{"", 0})
			}
		}
		multi := ""
		for _, v := range s.Vars {
			if len(cands[v]) > 1 {
				if multi != "" || len(cands[v]) > 3 {
					multi = "-"
					break
				}
				multi = v
			}
		}
		render := func(choice map[string]absCand) string {
			ne := env.child()
			var bs []string
			e.qn++
			for _, v := range s.Vars {
				n := fmt.Sprintf("q%d!%s", e.qn, v)
				bs = append(bs, "("+n+" Int)")
				if ac, ok := choice[v]; ok && ac.off != "" {
					sv := intSV(fmt.Sprintf("(- %s %s)", n, ac.off))
					if ac.c != 0 {
						sv = intSV(fmt.Sprintf("(- (- %s %s) %s)", n, ac.off, smtIntI(ac.c)))
					}
					sv.absBase, sv.absOff, sv.absConst = n, ac.off, ac.c
					ne.names[v] = sv
				} else {
					ne.names[v] = intSV(n)
				}
			}
			body := e.evalBool(s.A, ne)
			return fmt.Sprintf("(%s (%s) %s)", s.Op, strings.Join(bs, " "), body)
		}
		choice := map[string]absCand{}
		for _, v := range s.Vars {
			if len(cands[v]) > 0 {
				choice[v] = cands[v][0]
			}
		}
		if multi == "" || multi == "-" {
			return boolSV(render(choice))
		}
		if s.Op != "forall" {
			// an existential keeps its single absolute rendering unless a relative
			// (function-argument) rendering exists
			last := cands[multi][len(cands[multi])-1]
			if last.off != "" {
				return boolSV(render(choice))
			}
			cands[multi] = []absCand{cands[multi][0], last}
		}
		var parts []string
		for _, ac := range cands[multi] {
			choice[multi] = ac
			parts = append(parts, render(choice))
		}
		if s.Op != "forall" {
			// equivalent renderings of an existential: their disjunction (in a
			// negated position each disjunct becomes a separately triggered forall)
			return boolSV("(or " + strings.Join(parts, " ") + ")")
		}
		return boolSV(and(parts...))
	case SField:
		return e.evalField(s, env)
	case SIndex:
		a := e.evalSpec(s.A, env)
		// a[v+c] where v is an absolute-index bound variable registered for (off(a), c)
		if v, c, ok := varPlusConst(s.B); ok && a.S == sliceSort {
			if bv, isB := env.names[v]; isB && bv.absBase != "" && bv.absOff == "(soff "+a.T+")" && bv.absConst == c {
				j := bv
				j.absConst = 0
				j.T = fmt.Sprintf("(- %s %s)", bv.absBase, bv.absOff)
				return e.indexSV(a, j, env, s)
			}
		}
		i := e.evalSpec(s.B, env)
		if i.absConst != 0 {
			i.absBase = ""
		}
		return e.indexSV(a, i, env, s)
	case SSlice:
		a := e.evalSpec(s.A, env)
		if a.S != sliceSort {
			e.fatalf("spec %s: slicing a non-slice", s)
			return a
		}
		lo, hi := "0", fmt.Sprintf("(slen %s)", a.T)
		if s.B != nil {
			lo = e.evalInt(s.B, env)
		}
		if s.C != nil {
			hi = e.evalInt(s.C, env)
		}
		r := a
		r.T = fmt.Sprintf("(mk_slice (sref %s) (+ (soff %s) %s) (- %s %s) (- (scap %s) %s))", a.T, a.T, lo, hi, lo, a.T, lo)
		return r
	case SCall:
		return e.evalCall(s, env)
	}
	e.fatalf("spec: cannot evaluate %s", s)
	return intSV("0")
}

func constBigFrom(v constant.Value) (*bigInt, bool) {
	iv := constant.ToInt(v)
	bi, ok := newBig().SetString(iv.ExactString(), 10)
	return bi, ok
}

func (e *Enc) indexSV(a, i SV, env *SpecEnv, s *Spec) SV {
	if a.a != nil {
		e.fatalf("spec %s: indexing an address", s)
		return intSV("0")
	}
	if a.GoT != nil {
		switch u := a.GoT.Underlying().(type) {
		case *types.Slice:
			if env.noHeap {
				e.fatalf("spec %s: heap access in a heap-free context", s)
				return intSV("0")
			}
			if e.isByRef(u.Elem()) {
				// the element object itself (pointer semantics): a[i].f reads field f of the object
				idx := fmt.Sprintf("(+ (soff %s) %s)", a.T, i.T)
				if i.absBase != "" && i.absOff == "(soff "+a.T+")" {
					idx = i.absBase
				}
				return SV{T: elemObj("(sref "+a.T+")", idx), S: "Int", GoT: types.NewPointer(u.Elem())}
			}
			key := e.elemKey(u.Elem())
			if i.absBase != "" && i.absOff == "(soff "+a.T+")" {
				return SV{T: fmt.Sprintf("(select (select %s (sref %s)) %s)", e.hget(env.heap, key), a.T, i.absBase),
					S: e.d.sortOf(u.Elem()), GoT: u.Elem()}
			}
			if _, isP := u.Elem().Underlying().(*types.Pointer); isP {
				e.allocFact(u.Elem(), fmt.Sprintf("(select (select %s (sref %s)) (+ (soff %s) %s))", e.hget(env.heap, key), a.T, a.T, i.T), env.heap)
			}
			return SV{T: fmt.Sprintf("(select (select %s (sref %s)) (+ (soff %s) %s))", e.hget(env.heap, key), a.T, a.T, i.T),
				S: e.d.sortOf(u.Elem()), GoT: u.Elem()}
		case *types.Array:
			return SV{T: fmt.Sprintf("(select %s %s)", a.T, i.T), S: e.d.sortOf(u.Elem()), GoT: u.Elem()}
		case *types.Map:
			keys := e.mapKeys(u.Key(), u.Elem())
			mterm := fmt.Sprintf("(select (select %s %s) %s)", e.hget(env.heap, keys[1]), a.T, i.T)
			e.allocFact(u.Elem(), mterm, env.heap)
			return SV{T: mterm, S: e.d.sortOf(u.Elem()), GoT: u.Elem()}
		case *types.Basic:
			return intSV(fmt.Sprintf("(strat %s %s)", a.T, i.T))
		}
	}
	if strings.HasPrefix(a.S, "(Array ") {
		r := SV{T: fmt.Sprintf("(select %s %s)", a.T, i.T), S: innerSort(a.S), GoT: a.Elem}
		return r
	}
	e.fatalf("spec %s: cannot index value of sort %s", s, a.S)
	return intSV("0")
}

func (e *Enc) evalField(s *Spec, env *SpecEnv) SV {
	// pkg.Const of an imported package
	if s.A.Kind == SName && env.pkg != nil {
		if _, bound := env.names[s.A.Name]; !bound {
			for _, imp := range env.pkg.Imports() {
				if imp.Name() != s.A.Name {
					continue
				}
				if c, ok := imp.Scope().Lookup(s.Name).(*types.Const); ok && c.Val().Kind() == constant.Int {
					bi, _ := constBigFrom(c.Val())
					return SV{T: smtInt(bi), S: "Int", GoT: c.Type()}
				}
			}
		}
	}
	base := e.evalSpec(s.A, env)
	name := s.Name
	if base.a != nil {
		// address of a struct cell: extend the path and load
		if st, ok := base.GoT.Underlying().(*types.Pointer); ok {
			if su, ok2 := st.Elem().Underlying().(*types.Struct); ok2 {
				si := e.d.structInfoOf(st.Elem())
				for i := 0; i < su.NumFields(); i++ {
					if su.Field(i).Name() == name {
						na := &Addr{key: base.a.key, idx: base.a.idx, typ: su.Field(i).Type()}
						na.path = append(append([]pathElem{}, base.a.path...), pathElem{isField: true, field: i, si: si})
						return SV{T: e.load(env.heap, na), S: e.d.sortOf(su.Field(i).Type()), GoT: su.Field(i).Type()}
					}
				}
			}
		}
		if name == "val" { // dereference
			return SV{T: e.load(env.heap, base.a), S: e.d.sortOf(base.a.typ), GoT: base.a.typ}
		}
		e.fatalf("spec %s: bad field on address", s)
		return intSV("0")
	}
	if base.S == sliceSort {
		switch name {
		case "ref":
			return intSV("(sref " + base.T + ")")
		case "off":
			return intSV("(soff " + base.T + ")")
		}
	}
	if base.GoT == nil {
		e.fatalf("spec %s: field access on untyped value", s)
		return intSV("0")
	}
	t := base.GoT
	isPtr := false
	if p, ok := t.Underlying().(*types.Pointer); ok {
		t = p.Elem()
		isPtr = true
	}
	if strings.HasPrefix(name, "$") {
		if env.noHeap {
			e.fatalf("spec %s: ghost field in heap-free context", s)
			return intSV("0")
		}
		key := e.ghostKey(t, name)
		if key == "" {
			e.fatalf("spec %s: unknown ghost field %s on %s", s, name, t)
			return intSV("0")
		}
		sort, goT, elem, ks, _ := e.ghostInfo(t, name)
		gterm := fmt.Sprintf("(select %s %s)", e.hget(env.heap, key), base.T)
		if goT != nil && !env.noHeap {
			e.allocFact(goT, gterm, env.heap)
		}
		return SV{T: gterm, S: sort, GoT: goT, Elem: elem, KeyS: ks}
	}
	st, ok := t.Underlying().(*types.Struct)
	if !ok {
		e.fatalf("spec %s: field %s on non-struct %s", s, name, t)
		return intSV("0")
	}
	for i := 0; i < st.NumFields(); i++ {
		f := st.Field(i)
		if f.Name() != name {
			continue
		}
		if isPtr {
			if env.noHeap {
				e.fatalf("spec %s: heap access in heap-free context", s)
				return intSV("0")
			}
			key := e.fieldKey(t, st, i)
			term := fmt.Sprintf("(select %s %s)", e.hget(env.heap, key), base.T)
			e.typingFact(f.Type(), term)
			e.allocFact(f.Type(), term, env.heap)
			return SV{T: term, S: e.d.sortOf(f.Type()), GoT: f.Type()}
		}
		si := e.d.structInfoOf(t)
		return SV{T: fmt.Sprintf("(%s %s)", si.fields[i], base.T), S: e.d.sortOf(f.Type()), GoT: f.Type()}
	}
	// promoted fields through embedded structs (one level)
	for i := 0; i < st.NumFields(); i++ {
		f := st.Field(i)
		if !f.Embedded() {
			continue
		}
		if est, ok := f.Type().Underlying().(*types.Struct); ok && !isPtr {
			for j := 0; j < est.NumFields(); j++ {
				if est.Field(j).Name() == name {
					si := e.d.structInfoOf(t)
					inner := SV{T: fmt.Sprintf("(%s %s)", si.fields[i], base.T), S: e.d.sortOf(f.Type()), GoT: f.Type()}
					si2 := e.d.structInfoOf(f.Type())
					return SV{T: fmt.Sprintf("(%s %s)", si2.fields[j], inner.T), S: e.d.sortOf(est.Field(j).Type()), GoT: est.Field(j).Type()}
				}
			}
		}
	}
	e.fatalf("spec %s: no field %s in %s", s, name, t)
	return intSV("0")
}

func (e *Enc) evalBinary(s *Spec, env *SpecEnv) SV {
	switch s.Op {
	case "&&":
		return boolSV(and(e.evalBool(s.A, env), e.evalBool(s.B, env)))
	case "||":
		return boolSV(or(e.evalBool(s.A, env), e.evalBool(s.B, env)))
	case "==>":
		return boolSV(implies(e.evalBool(s.A, env), e.evalBool(s.B, env)))
	case "<==>":
		return boolSV(fmt.Sprintf("(= %s %s)", e.evalBool(s.A, env), e.evalBool(s.B, env)))
	}
	a := e.evalSpec(s.A, env)
	b := e.evalSpec(s.B, env)
	switch s.Op {
	case "==", "!=":
		at, bt := a.T, b.T
		if a.S == sliceSort && b.isNil {
			at, bt = "(sref "+a.T+")", "0"
		} else if b.S == sliceSort && a.isNil {
			at, bt = "0", "(sref "+b.T+")"
		} else if a.S != b.S {
			e.fatalf("spec %s: comparing %s with %s", s, a.S, b.S)
			return boolSV("true")
		}
		if s.Op == "==" {
			return boolSV(fmt.Sprintf("(= %s %s)", at, bt))
		}
		return boolSV(fmt.Sprintf("(distinct %s %s)", at, bt))
	case "<", "<=", ">", ">=":
		if (a.S != "Int" && a.S != "Real") || a.S != b.S {
			e.fatalf("spec %s: ordering on %s/%s", s, a.S, b.S)
			return boolSV("true")
		}
		return boolSV(fmt.Sprintf("(%s %s %s)", s.Op, a.T, b.T))
	}
	if a.S == "Real" && b.S == "Real" {
		return SV{T: fmt.Sprintf("(%s %s %s)", s.Op, a.T, b.T), S: "Real", GoT: a.GoT}
	}
	if a.S != "Int" || b.S != "Int" {
		e.fatalf("spec %s: arithmetic on %s/%s", s, a.S, b.S)
		return intSV("0")
	}
	switch s.Op {
	case "+", "-", "*":
		return intSV(fmt.Sprintf("(%s %s %s)", s.Op, a.T, b.T))
	case "/":
		return intSV(fmt.Sprintf("(div %s %s)", a.T, b.T))
	case "%":
		return intSV(fmt.Sprintf("(mod %s %s)", a.T, b.T))
	case "&":
		if s.B.Kind == SInt {
			if k, ok := isPow2Minus1(s.B.Int); ok {
				return intSV(fmt.Sprintf("(mod %s %s)", a.T, pow2big(k).String()))
			}
			if isSingleBit(s.B.Int) {
				return intSV(fmt.Sprintf("(* %s (mod (div %s %s) 2))", s.B.Int.String(), a.T, s.B.Int.String()))
			}
		}
		return intSV(fmt.Sprintf("(band %s %s)", a.T, b.T))
	case "|":
		return intSV(fmt.Sprintf("(bor %s %s)", a.T, b.T))
	case "^":
		return intSV(fmt.Sprintf("(bxor %s %s)", a.T, b.T))
	case "&^":
		return intSV(fmt.Sprintf("(bandnot %s %s)", a.T, b.T))
	case "<<":
		if s.B.Kind == SInt {
			return intSV(fmt.Sprintf("(* %s %s)", a.T, pow2big(int(s.B.Int.Int64())).String()))
		}
		return intSV(fmt.Sprintf("(* %s (pow2 %s))", a.T, b.T))
	case ">>":
		if s.B.Kind == SInt {
			return intSV(fmt.Sprintf("(div %s %s)", a.T, pow2big(int(s.B.Int.Int64())).String()))
		}
		return intSV(fmt.Sprintf("(div %s (pow2 %s))", a.T, b.T))
	}
	e.fatalf("spec %s: unsupported operator", s)
	return intSV("0")
}

func (e *Enc) evalCall(s *Spec, env *SpecEnv) SV {
	arg := func(i int) SV { return e.evalSpec(s.Args[i], env) }
	need := func(n int) bool {
		if len(s.Args) != n {
			e.fatalf("spec %s: %s expects %d args", s, s.Name, n)
			return false
		}
		return true
	}
	switch s.Name {
	case "old":
		if !need(1) {
			return intSV("0")
		}
		ne := *env
		ne.heap = env.old
		if oldNames, ok := env.names["$old"]; ok {
			_ = oldNames
		}
		return e.evalSpec(s.Args[0], &ne)
	case "len", "cap":
		if !need(1) {
			return intSV("0")
		}
		a := arg(0)
		if a.S == sliceSort {
			if s.Name == "len" {
				return intSV("(slen " + a.T + ")")
			}
			return intSV("(scap " + a.T + ")")
		}
		if a.GoT != nil {
			switch u := a.GoT.Underlying().(type) {
			case *types.Basic:
				return intSV("(strlen " + a.T + ")")
			case *types.Array:
				return intSV(fmt.Sprint(u.Len()))
			case *types.Map:
				keys := e.mapKeys(u.Key(), u.Elem())
				return intSV(fmt.Sprintf("(select %s %s)", e.hget(env.heap, keys[2]), a.T))
			}
		}
		e.fatalf("spec %s: len of %s", s, a.S)
		return intSV("0")
	case "fresh":
		if !need(1) {
			return boolSV("true")
		}
		a := arg(0)
		e.regKey("$alloc", "Int", nil)
		al := e.hget(env.old, "$alloc")
		if a.S == sliceSort {
			return boolSV(fmt.Sprintf("(> (sref %s) %s)", a.T, al))
		}
		return boolSV(fmt.Sprintf("(> %s %s)", a.T, al))
	case "allocated":
		if !need(1) {
			return boolSV("true")
		}
		a := arg(0)
		e.regKey("$alloc", "Int", nil)
		al := e.hget(env.heap, "$alloc")
		if a.S == sliceSort {
			return boolSV(fmt.Sprintf("(<= (sref %s) %s)", a.T, al))
		}
		return boolSV(fmt.Sprintf("(<= %s %s)", a.T, al))
	case "unchanged":
		var parts []string
		for i := range s.Args {
			a := arg(i)
			sl, ok := a.GoT.Underlying().(*types.Slice)
			if !ok {
				e.fatalf("spec %s: unchanged() needs slices", s)
				continue
			}
			if e.isByRef(sl.Elem()) {
				parts = append(parts, e.byrefUnchanged(env.heap, env.old, sl.Elem(), a.T))
				continue
			}
			key := e.elemKey(sl.Elem())
			parts = append(parts, fmt.Sprintf("(= (select %s (sref %s)) (select %s (sref %s)))", e.hget(env.heap, key), a.T, e.hget(env.old, key), a.T))
		}
		return boolSV(and(parts...))
	case "seq": // seq(s): the row of slice s as an array value (index includes offset)
		if !need(1) {
			return intSV("0")
		}
		a := arg(0)
		sl, ok := a.GoT.Underlying().(*types.Slice)
		if !ok {
			e.fatalf("spec %s: seq() needs a slice", s)
			return intSV("0")
		}
		key := e.elemKey(sl.Elem())
		return SV{T: fmt.Sprintf("(select %s (sref %s))", e.hget(env.heap, key), a.T), S: "(Array Int " + e.d.sortOf(sl.Elem()) + ")", Elem: sl.Elem()}
	case "bytesEq": // bytesEq(x, y): byte slices x and y have equal contents (what bytes.Equal returns)
		if !need(2) {
			return boolSV("true")
		}
		e.bytesEqDecl()
		return boolSV(fmt.Sprintf("(bytes_eq %s %s %s)", e.hget(env.heap, e.elemKey(types.Typ[types.Uint8])), arg(0).T, arg(1).T))
	case "strlt": // string ordering (uninterpreted strict order, same symbol the code's < on strings uses)
		if !need(2) {
			return boolSV("true")
		}
		e.declStrlt()
		return boolSV(fmt.Sprintf("(strlt %s %s)", arg(0).T, arg(1).T))
	case "bit":
		if !need(2) {
			return boolSV("true")
		}
		return boolSV(fmt.Sprintf("(bit %s %s)", arg(0).T, arg(1).T))
	case "popcount":
		return intSV(fmt.Sprintf("(popcount %s)", arg(0).T))
	case "pow2":
		if s.Args[0].Kind == SInt {
			return intSV(pow2big(int(s.Args[0].Int.Int64())).String())
		}
		return intSV(fmt.Sprintf("(pow2 %s)", arg(0).T))
	case "min":
		return intSV(fmt.Sprintf("(imin %s %s)", arg(0).T, arg(1).T))
	case "max":
		return intSV(fmt.Sprintf("(imax %s %s)", arg(0).T, arg(1).T))
	case "abs":
		return intSV(fmt.Sprintf("(iabs %s)", arg(0).T))
	case "haskey":
		m := arg(0)
		k := arg(1)
		if mt, ok := m.GoT.Underlying().(*types.Map); ok {
			keys := e.mapKeys(mt.Key(), mt.Elem())
			return boolSV(fmt.Sprintf("(and (distinct %s 0) (select (select %s %s) %s))", m.T, e.hget(env.heap, keys[0]), m.T, k.T))
		}
		e.fatalf("spec %s: haskey on non-map", s)
		return boolSV("true")
	case "typeis":
		if !need(2) || s.Args[1].Kind != SName {
			e.fatalf("spec %s: typeis(x, T)", s)
			return boolSV("true")
		}
		t := env.lookupType(strings.TrimPrefix(s.Args[1].Name, "P_"))
		if t == nil {
			e.fatalf("spec %s: unknown type", s)
			return boolSV("true")
		}
		if strings.HasPrefix(s.Args[1].Name, "P_") {
			t = types.NewPointer(t)
		}
		a := arg(0)
		return boolSV(fmt.Sprintf("(and (distinct %s 0) (= (dyntype %s) %s))", a.T, a.T, e.typeID(t)))
	case "ifaceval": // ifaceval(x, T): payload of an interface value whose dynamic type is the (non-pointer) type T
		if !need(2) || s.Args[1].Kind != SName {
			e.fatalf("spec %s: ifaceval(x, T)", s)
			return intSV("0")
		}
		t := env.lookupType(s.Args[1].Name)
		if t == nil {
			e.fatalf("spec %s: unknown type", s)
			return intSV("0")
		}
		a := arg(0)
		srt := e.d.sortOf(t)
		e.d.add(fmt.Sprintf("(declare-fun ifaceval_%s (Int) %s)", mangle(srt), srt))
		return SV{T: fmt.Sprintf("(ifaceval_%s %s)", mangle(srt), a.T), S: srt, GoT: t}
	case "ifaceptr": // payload of an interface value holding a pointer
		a := arg(0)
		e.d.add("(declare-fun ifaceval_Int (Int) Int)")
		var gt types.Type
		if len(s.Args) == 2 && s.Args[1].Kind == SName {
			if t := env.lookupType(s.Args[1].Name); t != nil {
				gt = types.NewPointer(t)
			}
		}
		return SV{T: fmt.Sprintf("(ifaceval_Int %s)", a.T), S: "Int", GoT: gt}
	}
	sf := e.w.cs.Specs[s.Name]
	if sf == nil {
		e.fatalf("spec %s: unknown function %s", s, s.Name)
		return intSV("0")
	}
	if len(sf.Params) != len(s.Args) {
		e.fatalf("spec %s: %s expects %d args", s, s.Name, len(sf.Params))
		return intSV("0")
	}
	e.specUsed[s.Name] = true
	if env.depth > 40 {
		e.fatalf("spec %s: macro expansion too deep (recursive spec must be declared with rec)", s)
		return intSV("0")
	}
	pkg := e.w.typesPkg(sf.Pkg)
	if sf.Rec {
		e.declareRec(sf)
		var as []string
		for i := range s.Args {
			a := arg(i)
			ps, _, _, _ := e.parseType(sf.Params[i].Type, pkg)
			if a.S != ps {
				e.fatalf("spec %s: argument %d of %s has sort %s, want %s", s, i, s.Name, a.S, ps)
			}
			as = append(as, a.T)
		}
		rs, rt, re, _ := e.parseType(sf.Ret, pkg)
		fname := sf.Name
		if env.inRec == sf.Name {
			fname += "_L"
		}
		return SV{T: fmt.Sprintf("(%s %s)", fname, strings.Join(as, " ")), S: rs, GoT: rt, Elem: re}
	}
	ne := &SpecEnv{e: e, names: map[string]SV{}, heap: env.heap, old: env.old, pkg: pkg, pkgPath: sf.Pkg, noHeap: env.noHeap, depth: env.depth + 1}
	for i, p := range sf.Params {
		a := arg(i)
		ps, pt, pe, ks := e.parseType(p.Type, pkg)
		if a.isNil && ps == sliceSort {
			a = SV{T: "(mk_slice 0 0 0 0)", S: sliceSort}
		}
		if a.S != ps {
			e.fatalf("spec %s: argument %d of %s has sort %s, want %s (%s)", s, i, s.Name, a.S, ps, p.Type)
		}
		if pt != nil {
			a.GoT = pt
		}
		if pe != nil {
			a.Elem = pe
		}
		if ks != "" {
			a.KeyS = ks
		}
		ne.names[p.Name] = a
	}
	return e.evalSpec(sf.Body, ne)
}

// declareRec declares a recursive spec function with its unfolding axiom.
func (e *Enc) declareRec(sf *SpecFunc) {
	if e.recDeclared == nil {
		e.recDeclared = map[string]bool{}
	}
	if e.recDeclared[sf.Name] {
		return
	}
	e.recDeclared[sf.Name] = true
	pkg := e.w.typesPkg(sf.Pkg)
	var sorts, binders, args []string
	env := &SpecEnv{e: e, names: map[string]SV{}, pkg: pkg, pkgPath: sf.Pkg, noHeap: true}
	for _, p := range sf.Params {
		ps, pt, pe, ks := e.parseType(p.Type, pkg)
		sorts = append(sorts, ps)
		n := "p!" + p.Name
		binders = append(binders, fmt.Sprintf("(%s %s)", n, ps))
		args = append(args, n)
		env.names[p.Name] = SV{T: n, S: ps, GoT: pt, Elem: pe, KeyS: ks}
	}
	rs, _, _, _ := e.parseType(sf.Ret, pkg)
	// Limited-function encoding: the unfolding axiom rewrites recursive calls to
	// the twin symbol name_L, which triggers nothing; name_L(args) is equated to
	// name(args) only where a name(args) term already exists.  One unfolding
	// per existing term, no matching loop.
	e.d.lines = append(e.d.lines, fmt.Sprintf("(declare-fun %s (%s) %s)", sf.Name, strings.Join(sorts, " "), rs))
	if sf.Uninterp {
		return
	}
	e.d.lines = append(e.d.lines, fmt.Sprintf("(declare-fun %s_L (%s) %s)", sf.Name, strings.Join(sorts, " "), rs))
	env.inRec = sf.Name
	body := e.evalSpec(sf.Body, env)
	app := fmt.Sprintf("(%s %s)", sf.Name, strings.Join(args, " "))
	appL := fmt.Sprintf("(%s_L %s)", sf.Name, strings.Join(args, " "))
	e.recAxioms = append(e.recAxioms, fmt.Sprintf("(assert (forall (%s) (! (= %s %s) :pattern (%s))))", strings.Join(binders, " "), app, body.T, app))
	e.recAxioms = append(e.recAxioms, fmt.Sprintf("(assert (forall (%s) (! (= %s %s) :pattern (%s))))", strings.Join(binders, " "), appL, app, app))
}

// varIsFuncArg: v (or v±c) is a direct argument of a declared rec/uf spec
// function somewhere in s (not under a binder that shadows v).
func (e *Enc) varIsFuncArg(s *Spec, v string) bool {
	if s == nil {
		return false
	}
	switch s.Kind {
	case SQuant:
		for _, x := range s.Vars {
			if x == v {
				return false
			}
		}
	case SCall:
		if sf := e.w.cs.Specs[s.Name]; sf != nil && (sf.Rec || sf.Uninterp) {
			for _, a := range s.Args {
				if n, _, ok := varPlusConst(a); ok && n == v {
					return true
				}
			}
		}
	}
	for _, c := range []*Spec{s.A, s.B, s.C} {
		if e.varIsFuncArg(c, v) {
			return true
		}
	}
	for _, c := range s.Args {
		if e.varIsFuncArg(c, v) {
			return true
		}
	}
	return false
}

type indexBase struct {
	base  *Spec
	c     int64
	inOld bool // the index expression occurs inside old(...)
}

// varPlusConst recognises `v`, `v + c` and `v - c`.
func varPlusConst(s *Spec) (string, int64, bool) {
	if s == nil {
		return "", 0, false
	}
	if s.Kind == SName {
		return s.Name, 0, true
	}
	if s.Kind == SBinary && (s.Op == "+" || s.Op == "-") && s.A.Kind == SName && s.B.Kind == SInt && s.B.Int.IsInt64() {
		c := s.B.Int.Int64()
		if s.Op == "-" {
			c = -c
		}
		return s.A.Name, c, true
	}
	return "", 0, false
}

// findIndexBases collects the base expressions of every a[v] / a[v+c] in s.
func findIndexBases(s *Spec, v string, acc []indexBase) []indexBase {
	return findIndexBasesIn(s, v, acc, false)
}

func findIndexBasesIn(s *Spec, v string, acc []indexBase, inOld bool) []indexBase {
	if s == nil {
		return acc
	}
	switch s.Kind {
	case SQuant:
		for _, x := range s.Vars {
			if x == v {
				return acc
			}
		}
		return findIndexBasesIn(s.A, v, acc, inOld)
	case SIndex:
		if n, c, ok := varPlusConst(s.B); ok && n == v {
			acc = append(acc, indexBase{s.A, c, inOld})
		}
	case SCall:
		if s.Name == "old" {
			inOld = true
		}
	}
	for _, c := range []*Spec{s.A, s.B, s.C} {
		acc = findIndexBasesIn(c, v, acc, inOld)
	}
	for _, c := range s.Args {
		acc = findIndexBasesIn(c, v, acc, inOld)
	}
	return acc
}

// findIndexBase returns the base expression of the first a[v] in s where v is
// the (unshadowed) bound variable.
func findIndexBase(s *Spec, v string) *Spec {
	if s == nil {
		return nil
	}
	switch s.Kind {
	case SQuant:
		for _, x := range s.Vars {
			if x == v {
				return nil
			}
		}
		return findIndexBase(s.A, v)
	case SIndex:
		if s.B != nil && s.B.Kind == SName && s.B.Name == v {
			return s.A
		}
	}
	for _, c := range []*Spec{s.A, s.B, s.C} {
		if r := findIndexBase(c, v); r != nil {
			return r
		}
	}
	for _, c := range s.Args {
		if r := findIndexBase(c, v); r != nil {
			return r
		}
	}
	return nil
}
