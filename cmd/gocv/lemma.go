package main

// Lemmas over recursive spec functions: proved by (weak) induction on one
// integer parameter, then available as quantified facts to the contracts that
// say `uses <lemma>`.

import (
	"fmt"
	"go/types"
	"regexp"
	"strings"
)

func (e *Enc) lemmaEnv(lm *Lemma, bind func(name, sort string) string) (*SpecEnv, []string) {
	pkg := e.w.typesPkg(lm.Pkg)
	env := &SpecEnv{e: e, names: map[string]SV{}, pkg: pkg, pkgPath: lm.Pkg, noHeap: true}
	var binders []string
	for _, p := range lm.Params {
		ps, pt, pe, ks := e.parseType(p.Type, pkg)
		n := bind(p.Name, ps)
		binders = append(binders, fmt.Sprintf("(%s %s)", n, ps))
		env.names[p.Name] = SV{T: n, S: ps, GoT: pt, Elem: pe, KeyS: ks}
	}
	return env, binders
}

// lemmaAxiom renders a proved lemma as a quantified assumption.
func (e *Enc) lemmaAxiom(lm *Lemma) string {
	env, binders := e.lemmaEnv(lm, func(name, sort string) string { return "l!" + name })
	var req, ens []string
	for _, r := range lm.Requires {
		req = append(req, e.evalBool(r, env))
	}
	for _, r := range lm.Ensures {
		ens = append(ens, e.evalBool(r, env))
	}
	body := implies(and(req...), and(ens...))
	pat := ""
	if len(lm.Pattern) > 0 {
		var ps []string
		for _, p := range lm.Pattern {
			ps = append(ps, e.evalSpec(p, env).T)
		}
		pat = " :pattern (" + strings.Join(ps, " ") + ")"
		return fmt.Sprintf("(assert (forall (%s) (! %s%s)))", strings.Join(binders, " "), body, pat)
	}
	return fmt.Sprintf("(assert (forall (%s) %s))", strings.Join(binders, " "), body)
}

func (w *World) findLemma(name string) *Lemma {
	for _, l := range w.cs.Lemmas {
		if l.Name == name {
			return l
		}
	}
	return nil
}

// VerifyLemma generates the induction obligation of a lemma.
func (w *World) VerifyLemma(lm *Lemma) *FuncResult {
	res := &FuncResult{Key: lm.Pkg + ".lemma:" + lm.Name}
	e := newEnc(w, nil, nil)
	e.reset()
	env, _ := e.lemmaEnv(lm, func(name, sort string) string { return e.declare("lp_"+name, sort) })
	for _, u := range lm.Uses {
		ul := w.findLemma(u)
		if ul == nil {
			e.fatalf("lemma %s uses unknown lemma %s", lm.Name, u)
			continue
		}
		e.emit(e.lemmaAxiom(ul))
	}
	for _, r := range lm.Requires {
		e.assume("true", e.evalBool(r, env))
	}
	if lm.Induct != "" {
		k, ok := env.names[lm.Induct]
		if !ok {
			e.fatalf("lemma %s: induction variable %s is not a parameter", lm.Name, lm.Induct)
		} else {
			ih := env.child()
			kv := k
			kv.T = fmt.Sprintf("(- %s 1)", k.T)
			ih.names[lm.Induct] = kv
			var req, ens []string
			for _, r := range lm.Requires {
				req = append(req, e.evalBool(r, ih))
			}
			for _, r := range lm.Ensures {
				ens = append(ens, e.evalBool(r, ih))
			}
			e.assume("true", implies(and(req...), and(ens...)))
		}
	}
	short := strings.TrimPrefix(lm.Pkg, modulePrefix+"/")
	for i, r := range lm.Ensures {
		f := e.evalBool(r, env)
		o := &Oblig{ID: fmt.Sprintf("%s.lemma/%s/ensures#%d", short, lm.Name, i+1), Kind: "lemma", Guard: "true", Formula: f,
			Prefix: len(e.body), Text: "lemma " + lm.Name + ": " + r.String(), Func: res.Key}
		e.obls = append(e.obls, o)
	}
	e.preLen = len(e.body)
	res.enc = e
	res.Obls = e.obls
	res.Fatal = e.fatal
	return res
}

// typingFact assumes the typing invariant (integer range, slice header sanity)
// of one ground heap read made by a specification expression.  Reads that
// mention quantified variables are skipped.
func (e *Enc) typingFact(t types.Type, term string) {
	if strings.Contains(term, "!") && (strings.Contains(term, "q") && quantVar.MatchString(term)) {
		return
	}
	if e.typedArr == nil {
		e.typedArr = map[string]bool{}
	}
	if e.typedArr[term] {
		return
	}
	e.typedArr[term] = true
	if ra := e.d.rangeAssumption(t, term, 0); ra != "" {
		e.emit("(assert " + ra + ")")
	}
}

// allocFact: the heap is closed - a pointer, map or slice stored in a field of
// heap state h refers to an object allocated in h.  Ground reads only.
func (e *Enc) allocFact(t types.Type, term string, h *Heap) {
	if h == nil || strings.Contains(term, "!") && (strings.Contains(term, "q") && quantVar.MatchString(term)) {
		return
	}
	switch t.Underlying().(type) {
	case *types.Pointer, *types.Map, *types.Slice:
	default:
		return
	}
	if e.allocArr == nil {
		e.allocArr = map[string]bool{}
	}
	if e.allocArr[term] {
		return
	}
	e.allocArr[term] = true
	e.assumeAllocated(t, term, h, "true")
}

var quantVar = regexp.MustCompile(`\b(q[0-9]*![A-Za-z_$][A-Za-z0-9_$]*|l![A-Za-z_]+|p![A-Za-z_]+|r[0-9]*!f|q!probe)`)
