package main

// Specification expression language: lexer, AST, parser.
//
// Grammar (lowest to highest precedence):
//   e ::= e <==> e | e ==> e (right assoc) | c ? e : e
//       | e || e | e && e | e (== != < <= > >=) e | e (+ - | ^) e | e (* / % & << >> &^) e
//       | !e | -e | postfix
//   postfix ::= primary { .name | [e] | [e:e] | (args) }
//   primary ::= int | true | false | nil | name | ( e )
//       | forall x, y :: e | exists x :: e | old(e) | len(e) | cap(e)
// Names may contain '$' (ghost) and a leading package-less identifier.

import (
	"fmt"
	"math/big"
	"strings"
	"unicode"
)

type SpecKind int

const (
	SInt SpecKind = iota
	SBool
	SNil
	SName
	SUnary  // Op, A
	SBinary // Op, A, B
	SCond   // A ? B : C
	SQuant  // Op forall/exists, Vars, A
	SField  // A.Name
	SIndex  // A[B]
	SSlice  // A[B:C]
	SCall   // Name(Args)   (also old, len, cap, builtins, spec functions)
)

type Spec struct {
	Kind SpecKind
	Op   string
	Name string
	Int  *big.Int
	Bool bool
	A, B *Spec
	C    *Spec
	Args []*Spec
	Vars []string
	Pos  int
}

func (s *Spec) String() string {
	if s == nil {
		return "<nil>"
	}
	switch s.Kind {
	case SInt:
		return s.Int.String()
	case SBool:
		return fmt.Sprint(s.Bool)
	case SNil:
		return "nil"
	case SName:
		return s.Name
	case SUnary:
		return s.Op + s.A.String()
	case SBinary:
		return "(" + s.A.String() + " " + s.Op + " " + s.B.String() + ")"
	case SCond:
		return "(" + s.A.String() + " ? " + s.B.String() + " : " + s.C.String() + ")"
	case SQuant:
		return "(" + s.Op + " " + strings.Join(s.Vars, ", ") + " :: " + s.A.String() + ")"
	case SField:
		return s.A.String() + "." + s.Name
	case SIndex:
		return s.A.String() + "[" + s.B.String() + "]"
	case SSlice:
		b, c := "", ""
		if s.B != nil {
			b = s.B.String()
		}
		if s.C != nil {
			c = s.C.String()
		}
		return s.A.String() + "[" + b + ":" + c + "]"
	case SCall:
		var as []string
		for _, a := range s.Args {
			as = append(as, a.String())
		}
		return s.Name + "(" + strings.Join(as, ", ") + ")"
	}
	return "?"
}

type tok struct {
	k   string // "int","id","op","eof"
	s   string
	pos int
}

func lexSpec(src string) ([]tok, error) {
	var out []tok
	i := 0
	n := len(src)
	ops := []string{"<==>", "==>", "&&", "||", "==", "!=", "<=", ">=", "<<", ">>", "&^", "::", "..",
		"<", ">", "+", "-", "*", "/", "%", "&", "|", "^", "!", "(", ")", "[", "]", ",", ".", "?", ":", "{", "}"}
	for i < n {
		c := rune(src[i])
		if unicode.IsSpace(c) {
			i++
			continue
		}
		if unicode.IsDigit(c) {
			j := i
			for j < n && (unicode.IsDigit(rune(src[j])) || src[j] == 'x' || src[j] == 'X' || src[j] == '_' ||
				(src[j] >= 'a' && src[j] <= 'f') || (src[j] >= 'A' && src[j] <= 'F')) {
				j++
			}
			out = append(out, tok{"int", src[i:j], i})
			i = j
			continue
		}
		if unicode.IsLetter(c) || c == '_' || c == '$' {
			j := i
			for j < n && (unicode.IsLetter(rune(src[j])) || unicode.IsDigit(rune(src[j])) || src[j] == '_' || src[j] == '$') {
				j++
			}
			out = append(out, tok{"id", src[i:j], i})
			i = j
			continue
		}
		matched := false
		for _, op := range ops {
			if strings.HasPrefix(src[i:], op) {
				out = append(out, tok{"op", op, i})
				i += len(op)
				matched = true
				break
			}
		}
		if !matched {
			return nil, fmt.Errorf("spec lex: unexpected %q at %d in %q", c, i, src)
		}
	}
	out = append(out, tok{"eof", "", n})
	return out, nil
}

type specParser struct {
	toks []tok
	p    int
	src  string
}

func ParseSpec(src string) (s *Spec, err error) {
	toks, err := lexSpec(src)
	if err != nil {
		return nil, err
	}
	ps := &specParser{toks: toks, src: src}
	defer func() {
		if r := recover(); r != nil {
			if e, ok := r.(specErr); ok {
				err = fmt.Errorf("spec parse: %s in %q", string(e), src)
				return
			}
			panic(r)
		}
	}()
	s = ps.expr()
	if ps.cur().k != "eof" {
		ps.fail("trailing input %q", ps.cur().s)
	}
	return s, nil
}

type specErr string

func (ps *specParser) fail(f string, a ...interface{}) {
	panic(specErr(fmt.Sprintf(f, a...) + fmt.Sprintf(" (at %d)", ps.cur().pos)))
}
func (ps *specParser) cur() tok { return ps.toks[ps.p] }
func (ps *specParser) isOp(s string) bool {
	t := ps.cur()
	return t.k == "op" && t.s == s
}
func (ps *specParser) isID(s string) bool {
	t := ps.cur()
	return t.k == "id" && t.s == s
}
func (ps *specParser) eat(s string) {
	if !ps.isOp(s) {
		ps.fail("expected %q, got %q", s, ps.cur().s)
	}
	ps.p++
}

func (ps *specParser) expr() *Spec { return ps.iff() }

func (ps *specParser) iff() *Spec {
	a := ps.implies()
	for ps.isOp("<==>") {
		ps.p++
		b := ps.implies()
		a = &Spec{Kind: SBinary, Op: "<==>", A: a, B: b}
	}
	return a
}

func (ps *specParser) implies() *Spec {
	a := ps.cond()
	if ps.isOp("==>") {
		ps.p++
		b := ps.implies()
		return &Spec{Kind: SBinary, Op: "==>", A: a, B: b}
	}
	return a
}

func (ps *specParser) cond() *Spec {
	a := ps.or()
	if ps.isOp("?") {
		ps.p++
		b := ps.cond()
		ps.eat(":")
		c := ps.cond()
		return &Spec{Kind: SCond, A: a, B: b, C: c}
	}
	return a
}

func (ps *specParser) or() *Spec {
	a := ps.and()
	for ps.isOp("||") {
		ps.p++
		b := ps.and()
		a = &Spec{Kind: SBinary, Op: "||", A: a, B: b}
	}
	return a
}

func (ps *specParser) and() *Spec {
	a := ps.cmp()
	for ps.isOp("&&") {
		ps.p++
		b := ps.cmp()
		a = &Spec{Kind: SBinary, Op: "&&", A: a, B: b}
	}
	return a
}

func (ps *specParser) cmp() *Spec {
	a := ps.add()
	for {
		t := ps.cur()
		if t.k == "op" && (t.s == "==" || t.s == "!=" || t.s == "<" || t.s == "<=" || t.s == ">" || t.s == ">=") {
			ps.p++
			b := ps.add()
			a = &Spec{Kind: SBinary, Op: t.s, A: a, B: b}
			continue
		}
		return a
	}
}

func (ps *specParser) add() *Spec {
	a := ps.mul()
	for {
		t := ps.cur()
		if t.k == "op" && (t.s == "+" || t.s == "-" || t.s == "|" || t.s == "^") {
			ps.p++
			b := ps.mul()
			a = &Spec{Kind: SBinary, Op: t.s, A: a, B: b}
			continue
		}
		return a
	}
}

func (ps *specParser) mul() *Spec {
	a := ps.unary()
	for {
		t := ps.cur()
		if t.k == "op" && (t.s == "*" || t.s == "/" || t.s == "%" || t.s == "&" || t.s == "<<" || t.s == ">>" || t.s == "&^") {
			ps.p++
			b := ps.unary()
			a = &Spec{Kind: SBinary, Op: t.s, A: a, B: b}
			continue
		}
		return a
	}
}

func (ps *specParser) unary() *Spec {
	if ps.isOp("!") {
		ps.p++
		return &Spec{Kind: SUnary, Op: "!", A: ps.unary()}
	}
	if ps.isOp("-") {
		ps.p++
		return &Spec{Kind: SUnary, Op: "-", A: ps.unary()}
	}
	if ps.isOp("^") {
		ps.p++
		return &Spec{Kind: SUnary, Op: "^", A: ps.unary()}
	}
	return ps.postfix()
}

func (ps *specParser) postfix() *Spec {
	a := ps.primary()
	for {
		switch {
		case ps.isOp("."):
			ps.p++
			t := ps.cur()
			if t.k != "id" && t.k != "int" {
				ps.fail("expected field name")
			}
			ps.p++
			a = &Spec{Kind: SField, A: a, Name: t.s}
		case ps.isOp("["):
			ps.p++
			var lo, hi *Spec
			if !ps.isOp(":") {
				lo = ps.expr()
			}
			if ps.isOp(":") {
				ps.p++
				if !ps.isOp("]") {
					hi = ps.expr()
				}
				ps.eat("]")
				a = &Spec{Kind: SSlice, A: a, B: lo, C: hi}
			} else {
				ps.eat("]")
				a = &Spec{Kind: SIndex, A: a, B: lo}
			}
		default:
			return a
		}
	}
}

func (ps *specParser) primary() *Spec {
	t := ps.cur()
	switch t.k {
	case "int":
		ps.p++
		v := new(big.Int)
		s := strings.ReplaceAll(t.s, "_", "")
		if _, ok := v.SetString(s, 0); !ok {
			ps.fail("bad int %q", t.s)
		}
		return &Spec{Kind: SInt, Int: v}
	case "id":
		ps.p++
		switch t.s {
		case "true":
			return &Spec{Kind: SBool, Bool: true}
		case "false":
			return &Spec{Kind: SBool, Bool: false}
		case "nil":
			return &Spec{Kind: SNil}
		case "forall", "exists":
			var vars []string
			for {
				v := ps.cur()
				if v.k != "id" {
					ps.fail("expected bound variable")
				}
				ps.p++
				vars = append(vars, v.s)
				if ps.isOp(",") {
					ps.p++
					continue
				}
				break
			}
			ps.eat("::")
			body := ps.expr()
			return &Spec{Kind: SQuant, Op: t.s, Vars: vars, A: body}
		}
		if ps.isOp("(") {
			ps.p++
			var args []*Spec
			if !ps.isOp(")") {
				for {
					args = append(args, ps.expr())
					if ps.isOp(",") {
						ps.p++
						continue
					}
					break
				}
			}
			ps.eat(")")
			return &Spec{Kind: SCall, Name: t.s, Args: args}
		}
		return &Spec{Kind: SName, Name: t.s}
	case "op":
		if t.s == "(" {
			ps.p++
			e := ps.expr()
			ps.eat(")")
			return e
		}
	}
	ps.fail("unexpected token %q", t.s)
	return nil
}
