package main

// Bounded stand-ins ("rcheck"): hand-written executable oracles in
// /verif/rcheck/<name>/ run the REAL functions of /repo's working tree over an
// enumerated / seeded domain.  They are injected with `go test -overlay`
// (nothing is written into /repo).  Their results are reported in a separate
// `bounded` block of the evidence and never counted as discharged obligations.

import (
	"context"
	"encoding/json"
	"fmt"
	"os"
	"os/exec"
	"path/filepath"
	"strings"
	"time"
)

type rcHarness struct {
	Pkg    string `json:"pkg"`    // package directory relative to the repo root
	File   string `json:"file"`   // harness source relative to /verif
	Test   string `json:"test"`   // test function
	Inject string `json:"inject"` // file name to inject into the package directory
}

type rcIndex struct {
	Harnesses map[string]rcHarness `json:"harnesses"`
	Props     map[string][]string  `json:"props"`
}

type rcFailure struct {
	Props []string `json:"props"`
	What  string   `json:"what"`
	Sig   string   `json:"signature"`
	Seq   []string `json:"sequence"`
}

type rcResult struct {
	Harness     string        `json:"harness"`
	Bound       string        `json:"bound"`
	Evaluations int           `json:"evaluations"`
	Distinct    int           `json:"distinct_nontrivial"`
	Rule        string        `json:"rule"`
	Exhaustive  bool          `json:"exhaustive"`
	Samples     []interface{} `json:"samples"`
	Failures    []rcFailure   `json:"failures"`
	Error       string        `json:"error,omitempty"`
	Seconds     float64       `json:"seconds"`
}

func loadRcIndex(verif string) *rcIndex {
	var idx rcIndex
	data, err := os.ReadFile(filepath.Join(verif, "rcheck", "index.json"))
	if err != nil {
		return &idx
	}
	json.Unmarshal(data, &idx)
	return &idx
}

func runRcheck(verif, repo, name string, h rcHarness, tier string, seed int) *rcResult {
	t0 := time.Now()
	res := &rcResult{Harness: name}
	dir, err := os.MkdirTemp("", "gocv-rcheck-")
	if err != nil {
		res.Error = err.Error()
		return res
	}
	defer os.RemoveAll(dir)
	ov := map[string]map[string]string{"Replace": {filepath.Join(repo, h.Pkg, h.Inject): filepath.Join(verif, h.File)}}
	ovData, _ := json.Marshal(ov)
	ovFile := filepath.Join(dir, "overlay.json")
	os.WriteFile(ovFile, ovData, 0o644)
	outFile := filepath.Join(dir, "out.json")
	timeout := 600
	if tier == "thorough" {
		timeout = 1800
	}
	ctx, cancel := context.WithTimeout(context.Background(), time.Duration(timeout+60)*time.Second)
	defer cancel()
	pkg := "./" + h.Pkg
	if h.Pkg == "." || h.Pkg == "" {
		pkg = "."
	}
	cmd := exec.CommandContext(ctx, "go", "test", "-overlay", ovFile, "-vet=off", "-count=1", "-timeout", fmt.Sprintf("%ds", timeout), "-run", "^"+h.Test+"$", pkg)
	cmd.Dir = repo
	cmd.Env = append(os.Environ(), "GOFLAGS=-mod=mod", "GOPROXY=off", "GOSUMDB=off", "GOTOOLCHAIN=local",
		"RCHECK_OUT="+outFile, fmt.Sprintf("VERIF_SEED=%d", seed), "VERIF_TIER="+tier)
	out, runErr := cmd.CombinedOutput()
	data, err := os.ReadFile(outFile)
	if err != nil {
		res.Error = "harness produced no result: " + truncate(string(out), 2000)
		if runErr != nil {
			res.Error += " (" + runErr.Error() + ")"
		}
		res.Seconds = time.Since(t0).Seconds()
		return res
	}
	if err := json.Unmarshal(data, res); err != nil {
		res.Error = "bad harness result: " + err.Error()
	}
	res.Harness = name
	if runErr != nil && res.Error == "" && !strings.Contains(string(out), "ok ") {
		res.Error = "harness test failed: " + truncate(string(out), 2000)
	}
	res.Seconds = time.Since(t0).Seconds()
	return res
}

type boundedOutcome struct {
	Blocks     []interface{}
	Violations []string
	KnownLines []string
	Evals      int
	Distinct   int
	Samples    []interface{}
	Rules      []string
}

// runBounded runs every bounded harness registered for the property.
func runBounded(verif, repo, prop, tier string, seed int, idx *rcIndex, known map[string]Finding) *boundedOutcome {
	bo := &boundedOutcome{}
	for _, name := range idx.Props[prop] {
		h, ok := idx.Harnesses[name]
		if !ok {
			continue
		}
		r := runRcheck(verif, repo, name, h, tier, seed)
		nf := 0
		var mine []rcFailure
		for _, f := range r.Failures {
			if hasProp(f.Props, prop) {
				mine = append(mine, f)
			}
		}
		if r.Error != "" {
			rp := writeReplay(verif, prop, "bounded-"+name+"-error", map[string]interface{}{"harness": name, "error": r.Error,
				"explanation": "the bounded harness did not run to completion on the current tree (compile error, panic or timeout in the real code)"})
			bo.Violations = append(bo.Violations, fmt.Sprintf("VIOLATION property=%s replay=%s no-failing-input-found", prop, rp))
		}
		for _, f := range mine {
			id := "bounded:" + name + ":" + f.Sig
			if kf, isKnown := known[id]; isKnown {
				bo.KnownLines = append(bo.KnownLines, fmt.Sprintf("KNOWN-FINDING: property=%s %s %s", prop, id, kf.What))
				continue
			}
			nf++
			rp := writeReplay(verif, prop, id, map[string]interface{}{"kind": "bounded", "harness": name, "signature": f.Sig, "what": f.What,
				"failing_sequence": f.Seq, "replay": "the sequence above was executed against the real code by the harness " + h.File + " (seed " + fmt.Sprint(seed) + ")"})
			bo.Violations = append(bo.Violations, fmt.Sprintf("VIOLATION property=%s replay=%s", prop, rp))
		}
		bo.Blocks = append(bo.Blocks, map[string]interface{}{
			"harness": name, "label": "BOUNDED (exploration; not counted as proved)", "bound": r.Bound, "evaluations": r.Evaluations,
			"distinct_nontrivial": r.Distinct, "exhaustive": r.Exhaustive, "rule": r.Rule, "failures_for_property": len(mine), "seconds": round2(r.Seconds),
			"source": h.File,
		})
		bo.Evals += r.Evaluations
		bo.Distinct += r.Distinct
		bo.Rules = append(bo.Rules, name+": "+r.Rule+" ["+r.Bound+"]")
		for i, s := range r.Samples {
			if i < 2 {
				bo.Samples = append(bo.Samples, map[string]interface{}{"harness": name, "case": s})
			}
		}
	}
	return bo
}

// checkBoundedOnly: a property with no contracts in reach, decided only by a
// bounded stand-in (evidence level `exploration`).
func checkBoundedOnly(verif, repo, prop, tier string, seed int, idx *rcIndex, noEvidence bool, t0 time.Time) int {
	var ff FindingsFile
	if data, err := os.ReadFile(filepath.Join(verif, "known_findings.json")); err == nil {
		json.Unmarshal(data, &ff)
	}
	known := map[string]Finding{}
	for _, f := range ff.Findings {
		if f.Property == prop && f.Status == "open" {
			known[f.Obligation] = f
		}
	}
	bo := runBounded(verif, repo, prop, tier, seed, idx, known)
	cov := map[string]interface{}{
		"evaluations":         bo.Evals,
		"distinct_nontrivial": bo.Distinct,
		"rule":                strings.Join(bo.Rules, " | "),
		"samples":             bo.Samples,
		"exhaustive":          false,
		"bounded":             bo.Blocks,
		"known_findings":      bo.KnownLines,
		"explanation":         "BOUNDED stand-in only: no function this property depends on could be brought under contract; the real code is executed against a hand-written oracle over the stated domain. Nothing here is a proof.",
	}
	ev := Evidence{PropertyID: prop, Tier: tier, Seed: seed, Level: "exploration", Coverage: cov,
		Assumptions: []string{"bounded exploration: only the enumerated/seeded domain stated in `rule` was executed", "the hand-written oracle in /verif/rcheck is itself unverified"},
		WallS:       round2(time.Since(t0).Seconds()), Violations: len(bo.Violations)}
	if !noEvidence {
		os.MkdirAll(filepath.Join(verif, "evidence"), 0o755)
		data, _ := json.MarshalIndent(ev, "", " ")
		os.WriteFile(filepath.Join(verif, "evidence", prop+".json"), data, 0o644)
	}
	for _, l := range bo.KnownLines {
		fmt.Println(l)
	}
	for _, v := range bo.Violations {
		fmt.Println(v)
	}
	fmt.Printf("property %s: BOUNDED only: %d evaluations, %d distinct non-trivial cases, %d violations, %.1fs\n", prop, bo.Evals, bo.Distinct, len(bo.Violations), time.Since(t0).Seconds())
	if len(bo.Violations) > 0 {
		return 1
	}
	if bo.Evals == 0 {
		fmt.Printf("VIOLATION property=%s replay=none no-failing-input-found (bounded harness evaluated nothing)\n", prop)
		return 1
	}
	return 0
}
