package main

type ReplayResult struct {
	Confirmed bool              `json:"confirmed"`
	Note      string            `json:"note"`
	Inputs    map[string]string `json:"inputs,omitempty"`
	TestFile  string            `json:"test_file,omitempty"`
	Output    string            `json:"output,omitempty"`
}

func replayModel(w *World, fr *FuncResult, o *Oblig, r SolveResult, verif, prop, repo string) *ReplayResult {
	return nil
}
