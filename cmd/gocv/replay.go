package main

// Replay of a refuted obligation on the real code: the solver's model is turned
// into concrete Go arguments, an in-package test is injected with
// `go test -overlay`, the real function runs, and
//   - for a no-panic obligation the run must panic,
//   - for a postcondition the real results must equal the results the model
//     predicts (on which the solver evaluated the clause to false).
// Supported argument shapes: integers, booleans, slices of integers, struct
// values and pointers to structs whose fields are integers/booleans/strings(empty).

import (
	"bytes"
	"context"
	"encoding/json"
	"fmt"
	"go/types"
	"math/big"
	"os"
	"os/exec"
	"path/filepath"
	"regexp"
	"strconv"
	"strings"
	"time"
)

type ReplayResult struct {
	Confirmed bool              `json:"confirmed"`
	Note      string            `json:"note"`
	Inputs    map[string]string `json:"inputs,omitempty"`
	Expected  map[string]string `json:"model_predicted_results,omitempty"`
	TestFile  string            `json:"test_file,omitempty"`
	Output    string            `json:"output,omitempty"`
}

// getValues asks the solver for the values of the given terms under extra pinned equalities.
func getValues(e *Enc, o *Oblig, terms []string, pins []string) (map[string]string, error) {
	if len(terms) == 0 {
		return map[string]string{}, nil
	}
	q := e.smtFor(o, true, nil)
	// Root-heap constants that were first mentioned while building the replay are
	// declared after the obligation's prefix: carry their declarations (only the
	// declarations, never later assumptions) into the query.
	var late []string
	if o.Prefix < len(e.body) {
		for _, l := range e.body[o.Prefix:] {
			if strings.HasPrefix(l, "(declare-const ") || strings.HasPrefix(l, "(declare-fun ") {
				if name := strings.Fields(l)[1]; !strings.Contains(q, "(declare-const "+name+" ") && !strings.Contains(q, "(declare-fun "+name+" ") {
					late = append(late, l)
				}
			}
		}
	}
	q = strings.Replace(q, "(check-sat)\n", strings.Join(late, "\n")+"\n"+strings.Join(pins, "\n")+"\n(check-sat)\n(get-value ("+strings.Join(terms, " ")+"))\n", 1)
	f, err := os.CreateTemp("", "gocv-replay-*.smt2")
	if err != nil {
		return nil, err
	}
	defer os.Remove(f.Name())
	f.WriteString(q)
	f.Close()
	ctx, cancel := context.WithTimeout(context.Background(), 30*time.Second)
	defer cancel()
	for _, solver := range []string{"z3-new", "z3"} {
		out, _ := exec.CommandContext(ctx, solver, "-T:20", f.Name()).CombinedOutput()
		s := string(out)
		if !strings.HasPrefix(strings.TrimSpace(s), "sat") {
			continue
		}
		i := strings.Index(s, "(")
		if i < 0 {
			continue
		}
		vals := parseGetValue(s[i:], terms)
		if len(vals) == len(terms) {
			return vals, nil
		}
	}
	dbg, _ := exec.Command("z3-new", "-T:20", f.Name()).CombinedOutput()
	return nil, fmt.Errorf("no model values (solver said: %s)", truncate(strings.TrimSpace(string(dbg)), 400))
}

// parseGetValue parses ((t1 v1) (t2 v2) ...) in order.
func parseGetValue(s string, terms []string) map[string]string {
	res := map[string]string{}
	// tokenise into s-expressions at depth 1
	depth := 0
	start := -1
	var items []string
	for i, c := range s {
		switch c {
		case '(':
			depth++
			if depth == 2 {
				start = i
			}
		case ')':
			if depth == 2 && start >= 0 {
				items = append(items, s[start:i+1])
				start = -1
			}
			depth--
			if depth == 0 {
				goto done
			}
		}
	}
done:
	for i, it := range items {
		if i >= len(terms) {
			break
		}
		// value is the last s-expression/atom of the pair
		body := strings.TrimSpace(it[1 : len(it)-1])
		val := lastSexp(body)
		res[terms[i]] = val
	}
	return res
}

func lastSexp(s string) string {
	s = strings.TrimSpace(s)
	if strings.HasSuffix(s, ")") {
		depth := 0
		for i := len(s) - 1; i >= 0; i-- {
			if s[i] == ')' {
				depth++
			} else if s[i] == '(' {
				depth--
				if depth == 0 {
					return s[i:]
				}
			}
		}
	}
	i := strings.LastIndexAny(s, " \n\t")
	return s[i+1:]
}

var negRe = regexp.MustCompile(`^\(-\s*(\d+)\)$`)

func smtValToGo(v string) (string, bool) {
	v = strings.TrimSpace(v)
	if v == "true" || v == "false" {
		return v, true
	}
	if m := negRe.FindStringSubmatch(v); m != nil {
		return "-" + m[1], true
	}
	if _, err := strconv.ParseUint(v, 10, 64); err == nil {
		return v, true
	}
	if strings.HasPrefix(v, "-") {
		if _, err := strconv.ParseInt(v, 10, 64); err == nil {
			return v, true
		}
	}
	return "", false
}

type goValBuilder struct {
	e     *Enc
	o     *Oblig
	h     *Heap
	pins  []string
	inpkg *types.Package
	err   error
	note  []string

	deadline time.Time
}

func (b *goValBuilder) val(term string) string {
	if b.err != nil {
		return "0"
	}
	if !b.deadline.IsZero() && time.Now().After(b.deadline) {
		b.err = fmt.Errorf("replay budget (90 s of model queries) exhausted: the model is too large to materialise")
		return "0"
	}
	vals, err := getValues(b.e, b.o, []string{term}, b.pins)
	if err != nil {
		b.err = err
		return "0"
	}
	v := vals[term]
	b.pins = append(b.pins, fmt.Sprintf("(assert (= %s %s))", term, v))
	g, ok := smtValToGo(v)
	if !ok {
		b.err = fmt.Errorf("unsupported model value %q for %s", v, term)
		return "0"
	}
	return g
}

func (b *goValBuilder) typeStr(t types.Type) string {
	return types.TypeString(t, func(p *types.Package) string {
		if p == b.inpkg {
			return ""
		}
		return p.Name()
	})
}

// build renders a Go expression of type t whose value is that of term in the model.
func (b *goValBuilder) build(t types.Type, term string, depth int) string {
	if b.err != nil || depth > 3 {
		if depth > 3 {
			b.err = fmt.Errorf("value too deep")
		}
		return "nil"
	}
	switch u := t.Underlying().(type) {
	case *types.Basic:
		switch {
		case u.Info()&types.IsBoolean != 0, u.Info()&types.IsInteger != 0:
			v := b.val(term)
			if u.Info()&types.IsInteger != 0 {
				v = wrapIntLiteral(v, u)
			}
			if _, named := t.(*types.Named); named {
				return fmt.Sprintf("%s(%s)", b.typeStr(t), v)
			}
			return fmt.Sprintf("%s(%s)", u.Name(), v)
		case u.Info()&types.IsString != 0:
			return `""`
		}
	case *types.Slice:
		ln := b.val(fmt.Sprintf("(slen %s)", term))
		n, _ := strconv.Atoi(ln)
		if n > 4096 {
			b.err = fmt.Errorf("model slice too long (%d)", n)
			return "nil"
		}
		ref := b.val(fmt.Sprintf("(sref %s)", term))
		if ref == "0" && n == 0 {
			return "nil"
		}
		key := b.e.elemKey(u.Elem())
		row := fmt.Sprintf("(select %s (sref %s))", b.e.hget(b.h, key), term)
		var elems []string
		for i := 0; i < n; i++ {
			elems = append(elems, b.build(u.Elem(), fmt.Sprintf("(select %s (+ (soff %s) %d))", row, term, i), depth+1))
		}
		return fmt.Sprintf("%s{%s}", b.typeStr(t), strings.Join(elems, ", "))
	case *types.Struct:
		si := b.e.d.structInfoOf(t)
		var fs []string
		for i := 0; i < u.NumFields(); i++ {
			fs = append(fs, fmt.Sprintf("%s: %s", u.Field(i).Name(), b.build(u.Field(i).Type(), fmt.Sprintf("(%s %s)", si.fields[i], term), depth+1)))
		}
		return fmt.Sprintf("%s{%s}", b.typeStr(t), strings.Join(fs, ", "))
	case *types.Pointer:
		st, ok := u.Elem().Underlying().(*types.Struct)
		if !ok {
			break
		}
		ref := b.val(term)
		if ref == "0" {
			return "nil"
		}
		var fs []string
		for i := 0; i < st.NumFields(); i++ {
			ft := st.Field(i).Type()
			switch ft.Underlying().(type) {
			case *types.Basic, *types.Slice:
				key := b.e.fieldKey(u.Elem(), st, i)
				fs = append(fs, fmt.Sprintf("%s: %s", st.Field(i).Name(), b.build(ft, fmt.Sprintf("(select %s %s)", b.e.hget(b.h, key), term), depth+1)))
			default:
				b.note = append(b.note, "field "+st.Field(i).Name()+" left zero")
			}
		}
		return fmt.Sprintf("&%s{%s}", b.typeStr(u.Elem()), strings.Join(fs, ", "))
	}
	b.err = fmt.Errorf("unsupported argument type %s", t)
	return "nil"
}

func replayModel(w *World, fr *FuncResult, o *Oblig, r SolveResult, verif, prop, repo string) *ReplayResult {
	res := &ReplayResult{}
	if o.Kind != "post" && o.Kind != "nopanic" {
		res.Note = "the model is a state of a loop iteration or call site, not an input of the function; not replayable as a call"
		return res
	}
	e := fr.enc
	fn := e.root
	if fn == nil || fn.Pkg == nil || fn.Parent() != nil {
		res.Note = "not a top-level function"
		return res
	}
	if strings.Contains(o.Base, "@") && o.Kind == "nopanic" {
		// panic inside an inlined callee: still a panic of the root call
	}
	root := e.rootEntry
	// every model value costs one solver call: a model with a long slice must not turn
	// the replay into hours of queries (the violation is reported either way)
	b := &goValBuilder{e: e, o: o, h: root, inpkg: fn.Pkg.Pkg, deadline: time.Now().Add(90 * time.Second)}
	inputs := map[string]string{}
	var argExprs []string
	sig := fn.Signature
	recvExpr := ""
	for i, p := range fn.Params {
		if i >= len(e.paramOps) || e.paramOps[i].v.T == "" {
			res.Note = "parameter " + p.Name() + " is not a value the replay can build"
			return res
		}
		ex := b.build(p.Type(), e.paramOps[i].v.T, 0)
		if b.err != nil {
			res.Note = "cannot build argument " + p.Name() + ": " + b.err.Error()
			return res
		}
		inputs[p.Name()] = ex
		if sig.Recv() != nil && i == 0 {
			recvExpr = ex
		} else {
			argExprs = append(argExprs, ex)
		}
	}
	res.Inputs = inputs
	// variadic last parameter
	call := ""
	args := strings.Join(argExprs, ", ")
	if sig.Variadic() && len(argExprs) > 0 {
		args += "..."
	}
	if sig.Recv() != nil {
		call = fmt.Sprintf("(%s).%s(%s)", recvExpr, fn.Name(), args)
	} else {
		call = fmt.Sprintf("%s(%s)", fn.Name(), args)
	}
	// predicted results
	expected := map[string]string{}
	var resNames, checks []string
	if o.Kind == "post" {
		for i, ov := range o.Outputs {
			g := b.build(ov.GoT, ov.Term, 0)
			if b.err != nil {
				res.Note = "cannot read predicted result: " + b.err.Error()
				return res
			}
			name := fmt.Sprintf("r%d", i)
			resNames = append(resNames, name)
			expected[name] = g
			checks = append(checks, fmt.Sprintf("\tif !reflect.DeepEqual(%s, %s) {\n\t\tt.Fatalf(\"GOCV-DIVERGE result %d: real=%%#v model=%%#v\", %s, %s)\n\t}", name, g, i, name, g))
		}
		if len(o.Outputs) == 0 {
			res.Note = "postcondition over heap state only; no scalar result to compare"
			return res
		}
	}
	res.Expected = expected
	var src bytes.Buffer
	fmt.Fprintf(&src, "package %s\n\nimport (\n\t\"reflect\"\n\t\"testing\"\n)\n\nvar _ = reflect.DeepEqual\n\n", fn.Pkg.Pkg.Name())
	fmt.Fprintf(&src, "// replay of obligation %s\n// %s\nfunc TestGocvReplay(t *testing.T) {\n", o.ID, o.Text)
	if o.Kind == "nopanic" {
		fmt.Fprintf(&src, "\tdefer func() {\n\t\tif r := recover(); r != nil {\n\t\t\tt.Logf(\"GOCV-PANIC %%v\", r)\n\t\t\treturn\n\t\t}\n\t\tt.Fatalf(\"GOCV-NOPANIC\")\n\t}()\n")
		fmt.Fprintf(&src, "\t%s\n}\n", discardCall(call, sig.Results().Len()))
	} else {
		fmt.Fprintf(&src, "\t%s := %s\n", strings.Join(resNames, ", "), call)
		for _, c := range checks {
			fmt.Fprintln(&src, c)
		}
		fmt.Fprintf(&src, "\tt.Logf(\"GOCV-SAME\")\n}\n")
	}
	dir := filepath.Join(verif, "out", "replay", prop)
	os.MkdirAll(dir, 0o755)
	testFile := filepath.Join(dir, mangle(o.ID)+"_test.go")
	os.WriteFile(testFile, src.Bytes(), 0o644)
	res.TestFile = testFile
	pkgDir := filepath.Dir(w.fset.Position(fn.Pos()).Filename)
	ov := map[string]map[string]string{"Replace": {filepath.Join(pkgDir, "zz_gocv_replay_test.go"): testFile}}
	ovData, _ := json.Marshal(ov)
	ovFile := filepath.Join(dir, mangle(o.ID)+".overlay.json")
	os.WriteFile(ovFile, ovData, 0o644)
	rel, _ := filepath.Rel(repo, pkgDir)
	ctx, cancel := context.WithTimeout(context.Background(), 180*time.Second)
	defer cancel()
	cmd := exec.CommandContext(ctx, "go", "test", "-overlay", ovFile, "-vet=off", "-count=1", "-timeout", "60s", "-run", "^TestGocvReplay$", "-v", "./"+rel)
	cmd.Dir = repo
	cmd.Env = append(os.Environ(), "GOFLAGS=-mod=mod", "GOPROXY=off", "GOSUMDB=off", "GOTOOLCHAIN=local")
	out, _ := cmd.CombinedOutput()
	s := string(out)
	res.Output = truncate(s, 3000)
	switch {
	case o.Kind == "nopanic" && strings.Contains(s, "GOCV-PANIC"):
		res.Confirmed = true
		res.Note = "the real function panics on the model's input"
	case o.Kind == "nopanic" && strings.Contains(s, "GOCV-NOPANIC"):
		res.Note = "the real function did not panic on the model's input (model not reproduced)"
	case o.Kind == "post" && strings.Contains(s, "GOCV-SAME"):
		res.Confirmed = true
		res.Note = "the real function returns exactly the results of the model, on which the clause is false"
	case o.Kind == "post" && strings.Contains(s, "GOCV-DIVERGE"):
		res.Note = "the real function returned different results than the model predicts (model not reproduced)"
	default:
		res.Note = "replay test did not run to completion"
	}
	if len(b.note) > 0 {
		res.Note += " (" + strings.Join(b.note, "; ") + ")"
	}
	return res
}

func discardCall(call string, nres int) string {
	if nres == 0 {
		return call
	}
	us := make([]string, nres)
	for i := range us {
		us[i] = "_"
	}
	return strings.Join(us, ", ") + " = " + call
}

// wrapIntLiteral brings a model value into the range of the Go type: locations the
// path never reads carry no typing fact and the solver may give them any integer;
// any in-range value is as good for them.
func wrapIntLiteral(v string, u *types.Basic) string {
	n, ok := new(big.Int).SetString(strings.TrimSpace(v), 10)
	if !ok {
		return v
	}
	bits := 64
	switch u.Kind() {
	case types.Int8, types.Uint8:
		bits = 8
	case types.Int16, types.Uint16:
		bits = 16
	case types.Int32, types.Uint32:
		bits = 32
	}
	mod := new(big.Int).Lsh(big.NewInt(1), uint(bits))
	n.Mod(n, mod)
	if u.Info()&types.IsUnsigned == 0 {
		half := new(big.Int).Rsh(mod, 1)
		if n.Cmp(half) >= 0 {
			n.Sub(n, mod)
		}
	}
	return n.String()
}
