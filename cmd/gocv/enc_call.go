package main

import (
	"fmt"
	"go/token"
	"go/types"
	"strings"

	"golang.org/x/tools/go/ssa"
)

// observers: functions assumed heap-neutral for verified state and assumed not
// to panic (logging, stats, tracing, formatting, error construction).
var observerPrefixes = []string{
	"fmt.", "errors.", "github.com/pkg/errors.", "log.", "(*log.Logger).",
	"github.com/pilosa/pilosa/roaring.statsHit",
	"github.com/pilosa/pilosa/tracing.", "(github.com/pilosa/pilosa/tracing.",
	"github.com/pilosa/pilosa/stats.", "(github.com/pilosa/pilosa/stats.",
	"github.com/pilosa/pilosa/logger.", "(github.com/pilosa/pilosa/logger.",
	"(*sync.Mutex).", "(*sync.RWMutex).", "(*sync.WaitGroup).", "(*sync.Once).", "sync/atomic.",
	"time.Now", "time.Since", "(time.Time).", "(time.Duration).",
	"strings.", "strconv.", "bytes.Equal", "bytes.Compare", "math.", "math/bits.",
	"(github.com/opentracing/opentracing-go.Span).", "github.com/opentracing/opentracing-go.",
	"runtime.", "os.Getenv", "unicode.", "unicode/utf8.", "sort.SearchInts", "hash/fnv.",
	"(encoding/binary.littleEndian).Uint", "(encoding/binary.bigEndian).Uint", "encoding/binary.Size",
	"(*github.com/pilosa/pilosa/roaring.Container).String",
	"(hash.Hash32).", "(hash.Hash64).", "(hash.Hash).", "(io.Writer).Write", "(fmt.Stringer).String",
	"io/ioutil.ReadAll", "io.ReadAll", // consume a reader (state outside the modelled heap), return a fresh slice
}

func isObserver(name string) bool {
	for _, p := range observerPrefixes {
		if strings.HasPrefix(name, p) {
			return true
		}
	}
	return false
}

func (e *Enc) setResult(fr *Frame, val ssa.Value, ops []Operand) {
	if val == nil {
		return
	}
	if _, isTuple := val.Type().(*types.Tuple); isTuple {
		fr.ops[val] = Operand{tup: ops, ok: true}
		return
	}
	if len(ops) == 1 {
		fr.ops[val] = ops[0]
	}
}

func (e *Enc) havocResults(fr *Frame, val ssa.Value, sig *types.Signature, h *Heap, g string) []Operand {
	var ops []Operand
	if sig == nil {
		return nil
	}
	for i := 0; i < sig.Results().Len(); i++ {
		t := sig.Results().At(i).Type()
		v := e.havocVal("r", t, "")
		e.assumeAllocated(t, v.T, h, g)
		ops = append(ops, opVal(v))
	}
	return ops
}

// dynCallOrdinal: 1-based ordinal (by source position) of a dynamic call
// instruction among the dynamic calls of fn; 0 if not found.
func dynCallOrdinal(fn *ssa.Function, instr ssa.Instruction) int {
	if instr == nil {
		return 0
	}
	type site struct {
		in  ssa.Instruction
		pos token.Pos
	}
	var sites []site
	for _, b := range fn.Blocks {
		for _, in := range b.Instrs {
			ci, ok := in.(ssa.CallInstruction)
			if !ok {
				continue
			}
			cc := ci.Common()
			if cc.IsInvoke() || cc.StaticCallee() != nil {
				continue
			}
			if _, isB := cc.Value.(*ssa.Builtin); isB {
				continue
			}
			if _, isMC := cc.Value.(*ssa.MakeClosure); isMC {
				continue
			}
			sites = append(sites, site{in, in.Pos()})
		}
	}
	n := 0
	for _, s := range sites {
		if s.pos < instr.Pos() || (s.pos == instr.Pos() && s.in != instr) {
			n++
		}
	}
	for _, s := range sites {
		if s.in == instr {
			return n + 1
		}
	}
	return 0
}

const maxInlineDepth = 6
const maxInlineInstrs = 400

func countInstrs(fn *ssa.Function) int {
	n := 0
	for _, b := range fn.Blocks {
		n += len(b.Instrs)
	}
	return n
}

func (e *Enc) inlinable(fr *Frame, fn *ssa.Function) bool {
	if fn == nil || len(fn.Blocks) == 0 || hasLoops(fn) || fr.depth >= maxInlineDepth || countInstrs(fn) > maxInlineInstrs {
		return false
	}
	if fn.Recover != nil {
		return false
	}
	for _, s := range e.stack {
		if s == fn {
			return false
		}
	}
	if !e.w.analyzed(fn) {
		return false
	}
	return true
}

func (e *Enc) call(fr *Frame, val ssa.Value, cc *ssa.CallCommon, instr ssa.Instruction, g string, h *Heap, pos token.Pos) *Heap {
	var args []Operand
	sig := cc.Signature()
	// builtins
	if b, ok := cc.Value.(*ssa.Builtin); ok {
		return e.builtin(fr, val, b, cc, g, h, pos)
	}
	if cc.IsInvoke() {
		recv := e.operand(fr, cc.Value)
		args = append(args, recv)
		for _, a := range cc.Args {
			args = append(args, e.operand(fr, a))
		}
		key := e.w.ifaceMethodKey(cc.Value.Type(), cc.Method)
		if c := e.w.cs.Contracts[key]; c != nil {
			names := []string{"self"}
			ptypes := []types.Type{cc.Value.Type()}
			msig := cc.Method.Type().(*types.Signature)
			for i := 0; i < msig.Params().Len(); i++ {
				names = append(names, msig.Params().At(i).Name())
				ptypes = append(ptypes, msig.Params().At(i).Type())
			}
			return e.applyContract(fr, val, c, key, names, ptypes, msig, args, g, h, pos, nil)
		}
		fullName := fmt.Sprintf("(%s).%s", types.TypeString(cc.Value.Type(), nil), cc.Method.Name())
		if isObserver(fullName) {
			e.setResult(fr, val, e.havocResults(fr, val, sig, h, g))
			return h
		}
		if cc.Method.Name() == "Error" && sig.Params().Len() == 0 {
			e.setResult(fr, val, e.havocResults(fr, val, sig, h, g))
			return h
		}
		e.opaque[fullName] = true
		h2 := e.havocAll(fr, h, "interface call "+fullName)
		e.setResult(fr, val, e.havocResults(fr, val, sig, h2, g))
		return h2
	}
	callee := cc.StaticCallee()
	var clo *Closure
	if callee == nil {
		o := e.operand(fr, cc.Value)
		if o.clo == nil {
			// maybe a cell holding a closure
			if u, ok := cc.Value.(*ssa.UnOp); ok {
				if a := e.operand(fr, u.X).a; a != nil {
					if c2, ok := e.cellOps()[a.key]; ok {
						o = c2
					}
				}
			}
		}
		if o.clo != nil {
			clo = o.clo
			callee = clo.fn
		}
	} else if mc, ok := cc.Value.(*ssa.MakeClosure); ok {
		clo = e.operand(fr, mc).clo
	}
	for _, a := range cc.Args {
		args = append(args, e.operand(fr, a))
	}
	if callee == nil {
		// function-typed struct field with a (trusted) field contract: T.field
		if u, ok := cc.Value.(*ssa.UnOp); ok {
			if fa, ok := u.X.(*ssa.FieldAddr); ok {
				st := fa.X.Type().Underlying().(*types.Pointer).Elem()
				fname := st.Underlying().(*types.Struct).Field(fa.Field).Name()
				if n, ok := st.(*types.Named); ok && n.Obj().Pkg() != nil {
					key := n.Obj().Pkg().Path() + "." + n.Obj().Name() + "." + fname
					if c := e.w.cs.Contracts[key]; c != nil {
						var names []string
						var ptypes []types.Type
						for i := 0; i < sig.Params().Len(); i++ {
							pn := sig.Params().At(i).Name()
							if pn == "" {
								pn = fmt.Sprintf("arg%d", i)
							}
							names = append(names, pn)
							ptypes = append(ptypes, sig.Params().At(i).Type())
						}
						return e.applyContract(fr, val, c, key, names, ptypes, sig, args, g, h, pos, nil)
					}
				}
			}
		}
		// contract for the n-th dynamic call site of this function: <func>$dyn<n>
		if ord := dynCallOrdinal(fr.fn, instr); ord > 0 {
			key := fmt.Sprintf("%s$dyn%d", e.w.funcKey(fr.fn), ord)
			if c := e.w.cs.Contracts[key]; c != nil {
				var names []string
				var ptypes []types.Type
				for i := 0; i < sig.Params().Len(); i++ {
					pn := sig.Params().At(i).Name()
					if pn == "" {
						pn = fmt.Sprintf("arg%d", i)
					}
					names = append(names, pn)
					ptypes = append(ptypes, sig.Params().At(i).Type())
				}
				return e.applyContract(fr, val, c, key, names, ptypes, sig, args, g, h, pos, nil)
			}
		}
		e.opaque["dynamic call in "+fr.fn.Name()] = true
		h2 := e.havocAll(fr, h, "dynamic call")
		e.setResult(fr, val, e.havocResults(fr, val, sig, h2, g))
		return h2
	}
	full := callee.String()
	if h2, ok := e.special(fr, val, callee, full, cc, args, g, h, pos); ok {
		return h2
	}
	key := e.w.funcKey(callee)
	// `inlines F` in the contract of the function being verified: F's body is analysed
	// at this call instead of its (coarser, possibly trusted) contract.  Sound: the body
	// is the real code; it only makes this proof independent of F's summary.
	if e.contract != nil && e.contract.inlinesCallee(key) && e.inlinable(fr, callee) {
		return e.inline(fr, val, callee, clo, args, g, h, pos)
	}
	if e.contract != nil {
		if vk := e.contract.variantOf(key); vk != "" {
			if c := e.w.cs.Contracts[vk]; c != nil {
				var names []string
				var ptypes []types.Type
				for _, p := range callee.Params {
					names = append(names, p.Name())
					ptypes = append(ptypes, p.Type())
				}
				return e.applyContract(fr, val, c, vk, names, ptypes, callee.Signature, args, g, h, pos, callee)
			}
			e.fatalf("variant contract %s not found", vk)
		}
	}
	if c := e.w.cs.Contracts[key]; c != nil && !(clo != nil && len(clo.bindings) > 0 && false) {
		var names []string
		var ptypes []types.Type
		for _, p := range callee.Params {
			names = append(names, p.Name())
			ptypes = append(ptypes, p.Type())
		}
		return e.applyContract(fr, val, c, key, names, ptypes, callee.Signature, args, g, h, pos, callee)
	}
	if isObserver(full) {
		e.setResult(fr, val, e.havocResults(fr, val, sig, h, g))
		return h
	}
	if e.inlinable(fr, callee) {
		return e.inline(fr, val, callee, clo, args, g, h, pos)
	}
	// opaque call: havoc the inferred mod-set
	e.opaque[full] = true
	ms := e.w.modset(callee)
	var h2 *Heap
	if ms.all {
		h2 = e.havocAll(fr, h, "opaque call "+full)
	} else {
		ce := &callEffect{foot: map[string][]string{}, guard: g}
		e.regKey("$alloc", "Int", nil)
		ce.allocPre = e.hget(h, "$alloc")
		for k := range ms.keys {
			ce.foot[k] = []string{"*"}
		}
		h2 = e.newHeap(hCall, h)
		h2.call = ce
	}
	e.setResult(fr, val, e.havocResults(fr, val, sig, h2, g))
	return h2
}

func (e *Enc) inline(fr *Frame, val ssa.Value, callee *ssa.Function, clo *Closure, args []Operand, g string, h *Heap, pos token.Pos) *Heap {
	site := callee.Name()
	if !fr.isRoot {
		site = fr.site + ">" + callee.Name()
	}
	nf := e.newFrame(callee, fr, site)
	nf.clo = clo
	e.inlined[e.w.funcKey(callee)] = true
	e.stack = append(e.stack, callee)
	e.runFrame(nf, args, g, h)
	e.stack = e.stack[:len(e.stack)-1]
	if len(nf.rets) == 0 {
		// callee never returns normally
		e.setResult(fr, val, e.havocResults(fr, val, callee.Signature, h, g))
		e.assume(g, "false")
		return h
	}
	var arms []mergeArm
	for _, r := range nf.rets {
		arms = append(arms, mergeArm{r.guard, r.heap})
	}
	nres := callee.Signature.Results().Len()
	var ops []Operand
	for i := 0; i < nres; i++ {
		first := nf.rets[0].vals[i]
		if first.a != nil || (first.clo != nil && first.v.T == "") || len(nf.rets) == 1 {
			ops = append(ops, first)
			continue
		}
		term := nf.rets[len(nf.rets)-1].vals[i].v.T
		same := true
		for j := len(nf.rets) - 2; j >= 0; j-- {
			if nf.rets[j].vals[i].v.T != term {
				same = false
			}
		}
		if !same {
			for j := len(nf.rets) - 2; j >= 0; j-- {
				term = fmt.Sprintf("(ite %s %s %s)", nf.rets[j].guard, nf.rets[j].vals[i].v.T, term)
			}
		}
		s := e.d.sortOf(callee.Signature.Results().At(i).Type())
		ops = append(ops, opVal(Val{e.define("inl_"+callee.Name(), s, term), s}))
	}
	e.setResult(fr, val, ops)
	return e.mergeHeaps(arms)
}

// applyContract: assert requires, havoc modifies, assume ensures.
func (e *Enc) applyContract(fr *Frame, val ssa.Value, c *Contract, key string, names []string, ptypes []types.Type,
	sig *types.Signature, args []Operand, g string, h *Heap, pos token.Pos, callee *ssa.Function) *Heap {
	e.used[key] = true
	env := e.newSpecEnv(c.Pkg, h, h)
	for i, n := range names {
		if i < len(args) {
			env.bindOperand(n, args[i], ptypes[i])
		}
	}
	short := key[strings.LastIndex(key, "/")+1:]
	for k, cl := range c.Requires {
		f := e.evalBool(cl.Expr, env)
		e.oblige(&Oblig{Kind: "pre", Base: fmt.Sprintf("pre#%d:%s", k+1, short), Guard: g, Formula: f, Pos: pos,
			Text: "requires " + cl.Text, Props: cl.Tags})
		e.assume(g, f)
	}
	var h2 *Heap
	effPure := c.Pure
	if !effPure && c.HasMod && len(c.Modifies) == 0 {
		// `modifies nothing` with scalar results: no heap effect observable by the caller
		effPure = true
		for i := 0; i < sig.Results().Len(); i++ {
			if !scalarType(sig.Results().At(i).Type(), 0) {
				effPure = false
			}
		}
	}
	if effPure {
		h2 = h
	} else {
		ce := &callEffect{foot: map[string][]string{}, guard: g}
		e.regKey("$alloc", "Int", nil)
		ce.allocPre = e.hget(h, "$alloc")
		if !c.HasMod {
			if callee != nil {
				ms := e.w.modset(callee)
				if ms.all {
					ce.all = true
				}
				for k := range ms.keys {
					ce.foot[k] = []string{"*"}
				}
			} else {
				ce.all = true
			}
		} else {
			for _, m := range c.Modifies {
				e.addFootprint(ce, m, env)
			}
		}
		if ce.all {
			h2 = e.havocAll(fr, h, "contract modifies everything")
		} else {
			h2 = e.newHeap(hCall, h)
			h2.call = ce
		}
	}
	// results
	var ops []Operand
	penv := e.newSpecEnv(c.Pkg, h2, h)
	for i, n := range names {
		if i < len(args) {
			penv.bindOperand(n, args[i], ptypes[i])
		}
	}
	for i := 0; i < sig.Results().Len(); i++ {
		rv := sig.Results().At(i)
		v := e.havocVal("res_"+short, rv.Type(), "")
		e.assumeAllocated(rv.Type(), v.T, h2, g)
		ops = append(ops, opVal(v))
		sv := SV{T: v.T, S: v.S, GoT: rv.Type()}
		if rv.Name() != "" && rv.Name() != "_" {
			penv.names[rv.Name()] = sv
		}
		penv.names[fmt.Sprintf("result%d", i)] = sv
		if i == 0 {
			penv.names["result"] = sv
		}
	}
	for _, cl := range c.Ensures {
		f := e.evalBool(cl.Expr, penv)
		e.assume(g, f)
	}
	e.setResult(fr, val, ops)
	return h2
}

// addFootprint parses one `modifies` entry.
func (e *Enc) addFootprint(ce *callEffect, m string, env *SpecEnv) {
	m = strings.TrimSpace(m)
	switch {
	case m == "all" || m == "everything":
		ce.all = true
		return
	case m == "noalloc":
		ce.noalloc = true
		return
	case strings.HasPrefix(m, "elems(") && strings.HasSuffix(m, ")"):
		sp, err := ParseSpec(m[6 : len(m)-1])
		if err != nil {
			e.fatalf("bad modifies entry %q: %v", m, err)
			return
		}
		sv := e.evalSpec(sp, env)
		sl, ok := sv.GoT.Underlying().(*types.Slice)
		if !ok {
			e.fatalf("modifies elems(%s): not a slice", m)
			return
		}
		if e.isByRef(sl.Elem()) {
			// element objects: (coarsely) every object of the element type may change
			keys, _ := e.byrefFieldKeys(sl.Elem())
			for _, k := range keys {
				ce.foot[k] = []string{"*"}
			}
			return
		}
		key := e.elemKey(sl.Elem())
		ref := "(sref " + sv.T + ")"
		// elems(p.f) for a nil p names nothing (row 0 is never modified)
		if sp.Kind == SField && sp.A != nil {
			nf := len(e.fatal)
			if bv := e.evalSpec(sp.A, env); len(e.fatal) == nf && bv.S == "Int" && bv.GoT != nil {
				if _, isPtr := bv.GoT.Underlying().(*types.Pointer); isPtr {
					ref = fmt.Sprintf("(ite (= %s 0) 0 %s)", bv.T, ref)
				}
			} else {
				e.fatal = e.fatal[:nf]
			}
		}
		ce.foot[key] = append(ce.foot[key], ref)
		return
	case strings.HasPrefix(m, "elemtype "):
		// every slice/array element of the given type (whole heap key)
		_, gt, _, _ := e.parseType(strings.TrimSpace(m[9:]), env.pkg)
		if gt != nil {
			ce.foot[e.elemKey(gt)] = []string{"*"}
		}
		return
	case strings.HasPrefix(m, "global "):
		name := strings.TrimSpace(m[7:])
		for k := range e.keySort {
			if strings.HasPrefix(k, "G|") && strings.HasSuffix(k, "."+name) {
				ce.foot[k] = []string{"*"}
			}
		}
		key := "G|" + env.pkg.Name() + "." + name
		ce.foot[key] = []string{"*"}
		return
	}
	// x.f, x.*, T.f (whole key)
	i := strings.LastIndex(m, ".")
	if i < 0 {
		e.fatalf("bad modifies entry %q", m)
		return
	}
	base, field := m[:i], m[i+1:]
	// type-qualified whole-key form: T.f where T is a type name
	if tn := env.lookupType(base); tn != nil {
		if st, ok := tn.Underlying().(*types.Struct); ok {
			for j := 0; j < st.NumFields(); j++ {
				if field == "*" || st.Field(j).Name() == field {
					ce.foot[e.fieldKey(tn, st, j)] = []string{"*"}
				}
			}
			if strings.HasPrefix(field, "$") {
				if k := e.ghostKey(tn, field); k != "" {
					ce.foot[k] = []string{"*"}
				}
			}
			if field == "*" {
				for _, gf := range e.w.cs.Ghosts {
					if gf.Struct == typeBaseName(tn) {
						if k := e.ghostKey(tn, gf.Name); k != "" {
							ce.foot[k] = []string{"*"}
						}
					}
				}
			}
			return
		}
		if strings.HasPrefix(field, "$") {
			if k := e.ghostKey(tn, field); k != "" {
				ce.foot[k] = []string{"*"}
			}
			return
		}
	}
	sp, err := ParseSpec(base)
	if err != nil {
		e.fatalf("bad modifies entry %q: %v", m, err)
		return
	}
	sv := e.evalSpec(sp, env)
	if sv.GoT == nil {
		e.fatalf("modifies %s: untyped base", m)
		return
	}
	pt := sv.GoT
	if p, ok := pt.Underlying().(*types.Pointer); ok {
		pt = p.Elem()
	}
	if strings.HasPrefix(field, "$") {
		if k := e.ghostKey(pt, field); k != "" {
			ce.foot[k] = append(ce.foot[k], sv.T)
		} else {
			e.fatalf("modifies %s: unknown ghost field", m)
		}
		return
	}
	st, ok := pt.Underlying().(*types.Struct)
	if !ok {
		e.fatalf("modifies %s: base is not a struct pointer", m)
		return
	}
	found := false
	for j := 0; j < st.NumFields(); j++ {
		if field == "*" || st.Field(j).Name() == field {
			k := e.fieldKey(pt, st, j)
			ce.foot[k] = append(ce.foot[k], sv.T)
			found = true
		}
	}
	if field == "*" {
		for gk, gf := range e.w.cs.Ghosts {
			_ = gk
			if gf.Struct == typeBaseName(pt) {
				if k := e.ghostKey(pt, gf.Name); k != "" {
					ce.foot[k] = append(ce.foot[k], sv.T)
				}
			}
		}
	}
	if !found {
		e.fatalf("modifies %s: no such field", m)
	}
}

// scalarType: values of the type cannot reference heap objects.
func scalarType(t types.Type, depth int) bool {
	if depth > 4 {
		return false
	}
	switch u := t.Underlying().(type) {
	case *types.Basic:
		return u.Kind() != types.UnsafePointer
	case *types.Struct:
		for i := 0; i < u.NumFields(); i++ {
			if !scalarType(u.Field(i).Type(), depth+1) {
				return false
			}
		}
		return true
	case *types.Array:
		return scalarType(u.Elem(), depth+1)
	}
	return false
}

func typeBaseName(t types.Type) string {
	if n, ok := t.(*types.Named); ok {
		return n.Obj().Name()
	}
	return t.String()
}

func (e *Enc) fatalf(f string, a ...interface{}) {
	e.fatal = append(e.fatal, fmt.Sprintf(f, a...))
}

// ---------------------------------------------------------------------------
// builtins

func (e *Enc) builtin(fr *Frame, val ssa.Value, b *ssa.Builtin, cc *ssa.CallCommon, g string, h *Heap, pos token.Pos) *Heap {
	arg := func(i int) Operand { return e.operand(fr, cc.Args[i]) }
	switch b.Name() {
	case "len", "cap":
		a := arg(0)
		switch u := cc.Args[0].Type().Underlying().(type) {
		case *types.Slice:
			if b.Name() == "len" {
				e.setOp(fr, val, fmt.Sprintf("(slen %s)", a.v.T))
			} else {
				e.setOp(fr, val, fmt.Sprintf("(scap %s)", a.v.T))
			}
		case *types.Basic:
			e.setOp(fr, val, fmt.Sprintf("(strlen %s)", a.v.T))
		case *types.Array:
			e.setOp(fr, val, fmt.Sprint(u.Len()))
		case *types.Pointer:
			if arr, ok := u.Elem().Underlying().(*types.Array); ok {
				e.setOp(fr, val, fmt.Sprint(arr.Len()))
			} else {
				e.havocOp(fr, val, "len of pointer")
			}
		case *types.Map:
			kt, vt := u.Key(), u.Elem()
			key := e.mapKeys(kt, vt)[2]
			e.setOp(fr, val, fmt.Sprintf("(select %s %s)", e.hget(h, key), a.v.T))
			e.assume(g, fmt.Sprintf("(>= %s 0)", fr.ops[val].v.T))
		default:
			e.havocOp(fr, val, "len of "+cc.Args[0].Type().String())
			e.assume(g, fmt.Sprintf("(>= %s 0)", fr.ops[val].v.T))
		}
		return h
	case "append":
		return e.appendBuiltin(fr, val, cc, g, h, pos)
	case "copy":
		return e.copyBuiltin(fr, val, cc, g, h, pos)
	case "delete":
		m := arg(0)
		k := arg(1)
		mt := cc.Args[0].Type().Underlying().(*types.Map)
		keys := e.mapKeys(mt.Key(), mt.Elem())
		pres := e.hget(h, keys[0])
		was := fmt.Sprintf("(select (select %s %s) %s)", pres, m.v.T, k.v.T)
		np := e.define("S_mp", e.keySort[keys[0]], fmt.Sprintf("(store %s %s (store (select %s %s) %s false))", pres, m.v.T, pres, m.v.T, k.v.T))
		sz := e.hget(h, keys[2])
		ns := e.define("S_msz", e.keySort[keys[2]], fmt.Sprintf("(store %s %s (ite %s (- (select %s %s) 1) (select %s %s)))", sz, m.v.T, was, sz, m.v.T, sz, m.v.T))
		h = e.hset(h, keys[0], np)
		return e.hset(h, keys[2], ns)
	case "min", "max":
		t := arg(0).v.T
		for i := 1; i < len(cc.Args); i++ {
			op := "imin"
			if b.Name() == "max" {
				op = "imax"
			}
			t = fmt.Sprintf("(%s %s %s)", op, t, arg(i).v.T)
		}
		e.setOp(fr, val, t)
		return h
	case "print", "println":
		return h
	case "recover":
		if val != nil {
			fr.ops[val] = opVal(Val{"0", "Int"})
		}
		return h
	}
	if val != nil {
		e.havocOp(fr, val, "unsupported builtin "+b.Name())
	}
	return h
}

func (e *Enc) appendBuiltin(fr *Frame, val ssa.Value, cc *ssa.CallCommon, g string, h *Heap, pos token.Pos) *Heap {
	s := e.operand(fr, cc.Args[0]).v.T
	t := e.operand(fr, cc.Args[1]).v.T
	elem := cc.Args[0].Type().Underlying().(*types.Slice).Elem()
	es := e.d.sortOf(elem)
	key := e.elemKey(elem)
	// appending a string to []byte
	if bt, ok := cc.Args[1].Type().Underlying().(*types.Basic); ok && bt.Info()&types.IsString != 0 {
		e.havocOp(fr, val, "append(string) havocked")
		return h
	}
	k := e.define("app_k", "Int", fmt.Sprintf("(slen %s)", t))
	newlen := e.define("app_n", "Int", fmt.Sprintf("(+ (slen %s) %s)", s, k))
	inplace := e.define("app_inplace", "Bool", fmt.Sprintf("(<= %s (scap %s))", newlen, s))
	fref, h2 := e.freshRef(h, "app")
	ncap := e.declare("app_cap", "Int")
	e.emit(fmt.Sprintf("(assert (>= %s %s))", ncap, newlen))
	// A freshly allocated backing array is given the same element offset as s:
	// nobody else can observe the offset inside a fresh array, and it makes the
	// copied prefix sit at the same absolute positions in both cases.
	res := e.define("app_r", sliceSort, fmt.Sprintf("(ite %s (mk_slice (sref %s) (soff %s) %s (scap %s)) (mk_slice %s (soff %s) %s %s))",
		inplace, s, s, newlen, s, fref, s, newlen, ncap))
	if e.isByRef(elem) {
		// element objects: scatter the fields of the prefix (a no-op in place) and of the appended elements
		lo := e.define("app_lo", "Int", fmt.Sprintf("(+ (soff %s) (slen %s))", s, s))
		hi := e.define("app_hi", "Int", fmt.Sprintf("(+ (soff %s) %s)", s, newlen))
		hPre := h2
		h3 := e.byrefRegion(h2, elem, "(sref "+res+")", "(soff "+s+")", hi, func(fi int, fkey, j string) string {
			oldF := e.hget(hPre, fkey)
			return fmt.Sprintf("(ite (< %s %s) (select %s (elemptr (sref %s) %s)) (select %s (elemptr (sref %s) (+ (- %s %s) (soff %s)))))",
				j, lo, oldF, s, j, oldF, t, j, lo, t)
		})
		resT := e.define("app_res", sliceSort, fmt.Sprintf("(ite (= %s 0) %s %s)", k, s, res))
		fr.ops[val] = opVal(Val{resT, sliceSort})
		return e.mergeHeaps([]mergeArm{{fmt.Sprintf("(= %s 0)", k), h2}, {"true", h3}})
	}
	old := e.hget(h2, key)
	rref := fmt.Sprintf("(sref %s)", res)
	row := e.declare("app_row", "(Array Int "+es+")")
	oldRow := fmt.Sprintf("(select %s (sref %s))", old, s)
	tRow := fmt.Sprintf("(select %s (sref %s))", old, t)
	lo := e.define("app_lo", "Int", fmt.Sprintf("(+ (soff %s) (slen %s))", s, s))
	hi := e.define("app_hi", "Int", fmt.Sprintf("(+ (soff %s) %s)", s, newlen))
	// prefix
	// (the old row is named so that it can serve as a trigger: reads of the old
	// prefix then instantiate the axiom for the result row as well)
	// Only for append(s, x...) with a fresh varargs array: when the appended slice
	// may share s's row (the append(s[:i], s[i+1:]...) idiom) the extra trigger
	// would chain through the appended-elements axiom (matching loop).
	oldRowC := oldRow
	extraPat := ""
	if sl, ok := cc.Args[1].(*ssa.Slice); ok {
		if _, isAlloc := sl.X.(*ssa.Alloc); isAlloc {
			oldRowC = e.declare("app_old", "(Array Int "+es+")")
			e.emit(fmt.Sprintf("(assert (= %s %s))", oldRowC, oldRow))
			extraPat = fmt.Sprintf(" :pattern ((select %s j!a))", oldRowC)
		}
	}
	e.emit(fmt.Sprintf("(assert (forall ((j!a Int)) (! (=> (and (<= (soff %s) j!a) (< j!a %s)) (= (select %s j!a) (select %s j!a))) :pattern ((select %s j!a))%s)))",
		s, lo, row, oldRowC, row, extraPat))
	// appended elements
	e.emit(fmt.Sprintf("(assert (forall ((j!a Int)) (! (=> (and (<= %s j!a) (< j!a %s)) (= (select %s j!a) (select %s (+ (- j!a %s) (soff %s))))) :pattern ((select %s j!a)))))",
		lo, hi, row, tRow, lo, t, row))
	e.emit(fmt.Sprintf("(assert (=> (= %s 1) (= (select %s %s) (select %s (soff %s)))))", k, row, lo, tRow, t))
	// in place: every other position keeps its old contents
	e.emit(fmt.Sprintf("(assert (=> %s (forall ((j!a Int)) (! (=> (or (< j!a %s) (>= j!a %s)) (= (select %s j!a) (select %s j!a))) :pattern ((select %s j!a))))))",
		inplace, lo, hi, row, oldRow, row))
	nt := e.define("S_"+key, e.keySort[key], fmt.Sprintf("(ite (= %s 0) %s (store %s %s %s))", k, old, old, rref, row))
	h2 = e.hset(h2, key, nt)
	resT := e.define("app_res", sliceSort, fmt.Sprintf("(ite (= %s 0) %s %s)", k, s, res))
	// ground instance of the store axiom: gives quantifier instantiation the term
	// "row of the result" so reads of the old prefix carry over to the result
	e.emit(fmt.Sprintf("(assert (=> (distinct %s 0) (= (select %s (sref %s)) %s)))", k, nt, resT, row))
	fr.ops[val] = opVal(Val{resT, sliceSort})
	return h2
}

func (e *Enc) copyBuiltin(fr *Frame, val ssa.Value, cc *ssa.CallCommon, g string, h *Heap, pos token.Pos) *Heap {
	dst := e.operand(fr, cc.Args[0]).v.T
	src := e.operand(fr, cc.Args[1]).v.T
	if bt, ok := cc.Args[1].Type().Underlying().(*types.Basic); ok && bt.Info()&types.IsString != 0 {
		// copy from string: contents unknown
		elem := cc.Args[0].Type().Underlying().(*types.Slice).Elem()
		key := e.elemKey(elem)
		ce := &callEffect{foot: map[string][]string{key: {"(sref " + dst + ")"}}, noalloc: true}
		h2 := e.newHeap(hCall, h)
		h2.call = ce
		if val != nil {
			e.setOp(fr, val, fmt.Sprintf("(imin (slen %s) (strlen %s))", dst, src))
		}
		return h2
	}
	elem := cc.Args[0].Type().Underlying().(*types.Slice).Elem()
	es := e.d.sortOf(elem)
	key := e.elemKey(elem)
	n := e.define("copy_n", "Int", fmt.Sprintf("(imin (slen %s) (slen %s))", dst, src))
	if e.isByRef(elem) {
		hi := e.define("copy_hi", "Int", fmt.Sprintf("(+ (soff %s) %s)", dst, n))
		hPre := h
		h2 := e.byrefRegion(h, elem, "(sref "+dst+")", "(soff "+dst+")", hi, func(fi int, fkey, j string) string {
			return fmt.Sprintf("(select %s (elemptr (sref %s) (+ (- %s (soff %s)) (soff %s))))", e.hget(hPre, fkey), src, j, dst, src)
		})
		if val != nil {
			fr.ops[val] = opVal(Val{n, "Int"})
		}
		return e.mergeHeaps([]mergeArm{{fmt.Sprintf("(= %s 0)", n), h}, {"true", h2}})
	}
	old := e.hget(h, key)
	row := e.declare("copy_row", "(Array Int "+es+")")
	oldDst := fmt.Sprintf("(select %s (sref %s))", old, dst)
	oldSrc := fmt.Sprintf("(select %s (sref %s))", old, src)
	hi := e.define("copy_hi", "Int", fmt.Sprintf("(+ (soff %s) %s)", dst, n))
	e.emit(fmt.Sprintf("(assert (forall ((j!c Int)) (! (=> (and (<= (soff %s) j!c) (< j!c %s)) (= (select %s j!c) (select %s (+ (- j!c (soff %s)) (soff %s))))) :pattern ((select %s j!c)))))",
		dst, hi, row, oldSrc, dst, src, row))
	e.emit(fmt.Sprintf("(assert (forall ((j!c Int)) (! (=> (or (< j!c (soff %s)) (>= j!c %s)) (= (select %s j!c) (select %s j!c))) :pattern ((select %s j!c)))))",
		dst, hi, row, oldDst, row))
	nt := e.define("S_"+key, e.keySort[key], fmt.Sprintf("(ite (= %s 0) %s (store %s (sref %s) %s))", n, old, old, dst, row))
	if val != nil {
		fr.ops[val] = opVal(Val{n, "Int"})
	}
	return e.hset(h, key, nt)
}

// ---------------------------------------------------------------------------
// maps: a map value is a reference; present/value/size arrays per (K,V).

func (e *Enc) mapKeys(kt, vt types.Type) [3]string {
	ks, vs := e.d.sortOf(kt), e.d.sortOf(vt)
	name := mangle(shortTypeName(kt)) + "|" + mangle(shortTypeName(vt))
	kp, kv, kn := "MP|"+name, "MV|"+name, "MN|"+name
	e.regKey(kp, fmt.Sprintf("(Array Int (Array %s Bool))", ks), nil)
	e.regKey(kv, fmt.Sprintf("(Array Int (Array %s %s))", ks, vs), vt)
	e.regKey(kn, "(Array Int Int)", nil)
	return [3]string{kp, kv, kn}
}

func (e *Enc) makeMap(fr *Frame, x *ssa.MakeMap, g string, h *Heap) *Heap {
	mt := x.Type().Underlying().(*types.Map)
	keys := e.mapKeys(mt.Key(), mt.Elem())
	ref, h2 := e.freshRef(h, "map")
	ks := e.d.sortOf(mt.Key())
	pres := e.hget(h2, keys[0])
	np := e.define("S_mp", e.keySort[keys[0]], fmt.Sprintf("(store %s %s ((as const (Array %s Bool)) false))", pres, ref, ks))
	h2 = e.hset(h2, keys[0], np)
	sz := e.hget(h2, keys[2])
	h2 = e.hset(h2, keys[2], e.define("S_msz", e.keySort[keys[2]], fmt.Sprintf("(store %s %s 0)", sz, ref)))
	fr.ops[x] = opVal(Val{ref, "Int"})
	return h2
}

func (e *Enc) mapUpdate(fr *Frame, x *ssa.MapUpdate, g string, h *Heap) *Heap {
	m := e.operand(fr, x.Map).v.T
	k := e.operand(fr, x.Key).v.T
	v := e.operand(fr, x.Value)
	mt := x.Map.Type().Underlying().(*types.Map)
	keys := e.mapKeys(mt.Key(), mt.Elem())
	e.nopanic(fr, "nilmap", g, fmt.Sprintf("(distinct %s 0)", m), x.Pos(), "assignment to nil map")
	pres := e.hget(h, keys[0])
	vals := e.hget(h, keys[1])
	sz := e.hget(h, keys[2])
	was := fmt.Sprintf("(select (select %s %s) %s)", pres, m, k)
	ns := e.define("S_msz", e.keySort[keys[2]], fmt.Sprintf("(store %s %s (ite %s (select %s %s) (+ (select %s %s) 1)))", sz, m, was, sz, m, sz, m))
	np := e.define("S_mp", e.keySort[keys[0]], fmt.Sprintf("(store %s %s (store (select %s %s) %s true))", pres, m, pres, m, k))
	h = e.hset(h, keys[2], ns)
	h = e.hset(h, keys[0], np)
	if v.v.T != "" {
		nv := e.define("S_mv", e.keySort[keys[1]], fmt.Sprintf("(store %s %s (store (select %s %s) %s %s))", vals, m, vals, m, k, v.v.T))
		h = e.hset(h, keys[1], nv)
	}
	return h
}

func (e *Enc) lookup(fr *Frame, x *ssa.Lookup, g string, h *Heap) {
	mt, ok := x.X.Type().Underlying().(*types.Map)
	if !ok { // string index
		s := e.operand(fr, x.X).v.T
		i := e.operand(fr, x.Index).v.T
		e.nopanic(fr, "index", g, fmt.Sprintf("(and (<= 0 %s) (< %s (strlen %s)))", i, i, s), x.Pos(), "string index in range")
		e.setOp(fr, x, fmt.Sprintf("(strat %s %s)", s, i))
		e.assume(g, fmt.Sprintf("(and (<= 0 %s) (<= %s 255))", fr.ops[x].v.T, fr.ops[x].v.T))
		return
	}
	m := e.operand(fr, x.X).v.T
	k := e.operand(fr, x.Index).v.T
	keys := e.mapKeys(mt.Key(), mt.Elem())
	vs := e.d.sortOf(mt.Elem())
	pres := fmt.Sprintf("(and (distinct %s 0) (select (select %s %s) %s))", m, e.hget(h, keys[0]), m, k)
	presD := e.define("m_ok", "Bool", pres)
	val := e.define("m_v", vs, fmt.Sprintf("(ite %s (select (select %s %s) %s) %s)", presD, e.hget(h, keys[1]), m, k, e.d.zeroOf(mt.Elem())))
	if ra := e.d.rangeAssumption(mt.Elem(), val, 0); ra != "" {
		e.assume(g, ra)
	}
	e.assumeAllocated(mt.Elem(), val, h, g)
	if x.CommaOk {
		fr.ops[x] = Operand{tup: []Operand{opVal(Val{val, vs}), opVal(Val{presD, "Bool"})}, ok: true}
	} else {
		fr.ops[x] = opVal(Val{val, vs})
	}
}
