package main

import (
	"fmt"
	"go/ast"
	"go/token"
	"go/types"
	"sort"
	"strings"

	"golang.org/x/tools/go/ssa"
)

// extra Enc state (kept here to keep enc.go focused)
type encExtra struct{}

// ---------------------------------------------------------------------------
// name resolution for specifications

// varAt finds the SSA-level value of source variable `name` visible at block b
// (evaluated at the top of b), following the dominator chain upwards.
func (e *Enc) varAt(fr *Frame, name string, at *ssa.BasicBlock, pos token.Pos, phiMap map[*ssa.Phi]Operand, heap *Heap) (SV, bool) {
	fn := fr.fn
	// resolve the object the way Go would at pos
	var obj types.Object
	if pkg := fn.Pkg; pkg != nil && pos.IsValid() {
		if sc := pkg.Pkg.Scope().Innermost(pos); sc != nil {
			_, obj = sc.LookupParent(name, pos)
		}
	}
	if name == "$i" {
		for _, in := range at.Instrs {
			if phi, ok := in.(*ssa.Phi); ok && phi.Comment == "rangeindex" {
				return e.phiSV(fr, phi, phiMap), true
			}
		}
		// The loop was a range loop when the clause was written and is an index loop
		// now (for x := 0; ...; x++): at the loop head the range counter is x-1.
		if fs, ok := e.loopNode[at].(*ast.ForStmt); ok && fs.Init != nil {
			if as, ok := fs.Init.(*ast.AssignStmt); ok && as.Tok == token.DEFINE && len(as.Lhs) == 1 {
				if id, ok := as.Lhs[0].(*ast.Ident); ok {
					if v, ok := e.varAt(fr, id.Name, at, pos, phiMap, heap); ok && v.S == "Int" {
						e.warn("clause names the range counter $i of a loop that is an index loop now; read as %s-1", id.Name)
						return SV{T: fmt.Sprintf("(- %s 1)", v.T), S: "Int", GoT: types.Typ[types.Int]}, true
					}
				}
			}
		}
		return SV{}, false
	}
	if obj == nil {
		// parameters by name
		for _, p := range fn.Params {
			if p.Name() == name {
				return e.opSV(fr.ops[p], p.Type()), true
			}
		}
		if fr.isRoot {
			// The loop was an index loop over `name` when the clause was written and is a
			// range loop with that key now: at the loop head the key about to be
			// processed is the range counter + 1.
			if rs, ok := e.loopNode[at].(*ast.RangeStmt); ok && rs.Tok == token.DEFINE {
				if id, ok := rs.Key.(*ast.Ident); ok && (id.Name == name || e.renamed()[name] == id.Name) {
					if v, ok := e.varAt(fr, "$i", at, pos, phiMap, heap); ok && v.S == "Int" {
						e.warn("clause names %q, which is the key of a range loop now; read as $i+1", name)
						return SV{T: fmt.Sprintf("(+ %s 1)", v.T), S: "Int", GoT: types.Typ[types.Int]}, true
					}
				}
			}
			// The clause names the local a range loop iterated over, and the loop ranges
			// over an expression now (for _, x := range c.f()): read the name as the
			// value being ranged over.
			if _, ok := e.loopNode[at].(*ast.RangeStmt); ok && pinnedRanges[e.w.funcKey(e.root)][fmt.Sprint(e.loops[at])] == name {
				if x := rangedOperand(at); x != nil {
					op, ok := fr.ops[x]
					if !ok {
						op = e.operand(fr, x)
					}
					e.warn("clause names %q, the local the loop ranged over; the loop ranges over an expression now, read as that value", name)
					return e.opSV(op, x.Type()), true
				}
			}
			// a local that was renamed since the contract was written (locals.go)
			if to, ok := e.renamed()[name]; ok && to != name {
				e.warn("clause names local %q, which no longer exists; following the declaration order it is read as %q", name, to)
				return e.varAt(fr, to, at, pos, phiMap, heap)
			}
		}
		return SV{}, false
	}
	if _, isVar := obj.(*types.Var); !isVar {
		return SV{}, false
	}
	for b := at; b != nil; b = b.Idom() {
		var found *SV
		for _, in := range b.Instrs {
			switch x := in.(type) {
			case *ssa.Phi:
				if x.Comment == name && types.Identical(x.Type(), obj.Type()) {
					sv := e.phiSV(fr, x, phiMap)
					found = &sv
				}
			case *ssa.DebugRef:
				if b == at {
					continue // the invariant is evaluated at the top of the block
				}
				if x.Object() != obj {
					continue
				}
				op, ok := fr.ops[x.X]
				if !ok {
					if _, isC := x.X.(*ssa.Const); isC {
						op = e.operand(fr, x.X)
					} else if _, isP := x.X.(*ssa.Parameter); isP {
						op = e.operand(fr, x.X)
					} else {
						continue
					}
				}
				if x.IsAddr {
					if op.a != nil {
						sv := SV{T: e.load(heap, op.a), S: e.d.sortOf(op.a.typ), GoT: op.a.typ}
						found = &sv
					}
				} else {
					sv := e.opSV(op, obj.Type())
					found = &sv
				}
			}
		}
		if found != nil {
			return *found, true
		}
	}
	for _, p := range fn.Params {
		if p.Object() == obj {
			return e.opSV(fr.ops[p], p.Type()), true
		}
	}
	return SV{}, false
}

func (e *Enc) opSV(op Operand, t types.Type) SV {
	if op.a != nil {
		return SV{a: op.a, GoT: t}
	}
	return SV{T: op.v.T, S: op.v.S, GoT: t}
}

func (e *Enc) phiSV(fr *Frame, phi *ssa.Phi, phiMap map[*ssa.Phi]Operand) SV {
	if phiMap != nil {
		if op, ok := phiMap[phi]; ok {
			return e.opSV(op, phi.Type())
		}
	}
	return e.opSV(fr.ops[phi], phi.Type())
}

// ---------------------------------------------------------------------------
// loops

func (e *Enc) loopEnv(fr *Frame, hb *ssa.BasicBlock, phiMap map[*ssa.Phi]Operand, heap *Heap) *SpecEnv {
	env := e.newSpecEnv(e.contract.Pkg, heap, fr.entry)
	pos := token.NoPos
	if n := e.loopNode[hb]; n != nil {
		switch l := n.(type) {
		case *ast.ForStmt:
			pos = l.Body.Lbrace + 1
		case *ast.RangeStmt:
			pos = l.Body.Lbrace
			// range variables are declared in the loop scope; look names up just before the body
			pos = l.For + 1
		}
	}
	env.resolve = func(name string) (SV, bool) {
		return e.varAt(fr, name, hb, pos, phiMap, heap)
	}
	// entry values of the parameters: <name>_0 (parameters are mutable variables)
	for _, p := range fr.fn.Params {
		if op, ok := fr.ops[p]; ok {
			env.names[p.Name()+"_0"] = e.opSV(op, p.Type())
		}
	}
	return env
}

func (e *Enc) enterLoop(fr *Frame, li *loopInfo, hb *ssa.BasicBlock, gEntry string, hPre *Heap) (*Heap, string) {
	if !fr.isRoot {
		e.fatalf("loop in inlined function %s", fr.fn.Name())
		return hPre, gEntry
	}
	ord := e.loops[hb]
	c := e.contract
	// entry values of phis
	entryPhi := map[*ssa.Phi]Operand{}
	for _, in := range hb.Instrs {
		phi, ok := in.(*ssa.Phi)
		if !ok {
			break
		}
		var terms, guards []string
		var firstOp Operand
		for i, p := range hb.Preds {
			if isBackEdge(p, hb) {
				continue
			}
			eg, ok := fr.edgeG[[2]int{p.Index, hb.Index}]
			if !ok {
				continue
			}
			op := e.phiIncoming(fr, phi, i)
			if len(terms) == 0 {
				firstOp = op
			}
			terms = append(terms, op.v.T)
			guards = append(guards, eg)
		}
		if len(terms) == 0 {
			continue
		}
		if firstOp.a != nil || len(terms) == 1 {
			entryPhi[phi] = firstOp
			continue
		}
		term := terms[len(terms)-1]
		for i := len(terms) - 2; i >= 0; i-- {
			term = fmt.Sprintf("(ite %s %s %s)", guards[i], terms[i], term)
		}
		s := e.d.sortOf(phi.Type())
		entryPhi[phi] = opVal(Val{e.define(phi.Name()+"_in", s, term), s})
	}
	var invs []*Clause
	if c != nil {
		invs = c.LoopInv[ord]
	}
	if ord == 0 {
		e.fatalf("%s: cannot map loop at block %d to a source loop", fr.fn.Name(), hb.Index)
	}
	envIn := e.loopEnv(fr, hb, entryPhi, hPre)
	for k, inv := range invs {
		f := e.evalBool(inv.Expr, envIn)
		e.oblige(&Oblig{Kind: "inv-entry", Base: fmt.Sprintf("inv#%d/loop%d/entry", k+1, ord), Guard: gEntry, Formula: f,
			Pos: li.minPos, Text: "invariant " + inv.Text, Props: inv.Tags})
	}
	// havoc
	var hH *Heap
	switch {
	case e.loopAll[hb]:
		hH = e.newHeap(hHavoc, hPre)
		hH.keys = nil
	case len(e.loopMods[hb]) > 0:
		hH = e.newHeap(hHavoc, hPre)
		hH.keys = map[string]bool{}
		for k := range e.loopMods[hb] {
			hH.keys[k] = true
		}
	default:
		hH = hPre
	}
	for _, in := range hb.Instrs {
		phi, ok := in.(*ssa.Phi)
		if !ok {
			break
		}
		if ep, ok := entryPhi[phi]; ok && ep.a != nil {
			fr.ops[phi] = ep
			continue
		}
		name := phi.Name()
		if phi.Comment != "" {
			name += "_" + phi.Comment
		}
		v := e.havocVal(name, phi.Type(), "")
		e.assumeAllocated(phi.Type(), v.T, hH, gEntry)
		fr.ops[phi] = opVal(v)
	}
	envH := e.loopEnv(fr, hb, nil, hH)
	for _, inv := range invs {
		f := e.evalBool(inv.Expr, envH)
		e.assume(gEntry, f)
	}
	// automatic frame invariants: the loop maintains the function's modifies clause
	if e.rootFoot != nil && !e.rootFoot.all && hH != hPre && !e.loopAll[hb] {
		for _, key := range sortedKeys(e.loopMods[hb]) {
			if !frameKey(key) {
				continue
			}
			was := e.hget(fr.entry, key)
			if fIn := e.frameFormula(e.rootFoot, key, e.hget(hPre, key), was); fIn != "" {
				e.oblige(&Oblig{Kind: "inv-entry", Base: fmt.Sprintf("frameinv/%s/loop%d/entry", key, ord), Guard: gEntry, Formula: fIn,
					Pos: li.minPos, Text: "loop keeps " + key + " unchanged outside the modifies clause (entry)"})
			}
			if fH := e.frameFormula(e.rootFoot, key, e.hget(hH, key), was); fH != "" {
				e.assume(gEntry, fH)
			}
		}
	}
	hs := &headerState{pre: hPre, heap: hH, guard: gEntry}
	if c != nil {
		if dc := c.LoopDec[ord]; dc != nil {
			hs.entryG = e.define("variant", "Int", e.evalInt(dc.Expr, envH))
		}
	}
	fr.headerIn[hb] = hs
	return hH, gEntry
}

func (e *Enc) closeLoop(fr *Frame, li *loopInfo) {
	hb := li.header
	hs := fr.headerIn[hb]
	if hs == nil {
		return
	}
	ord := e.loops[hb]
	c := e.contract
	var invs []*Clause
	if c != nil {
		invs = c.LoopInv[ord]
	}
	type edge struct {
		g      string
		phiMap map[*ssa.Phi]Operand
		heap   *Heap
	}
	var edges []edge
	for i, p := range hb.Preds {
		if !isBackEdge(p, hb) {
			continue
		}
		eg, ok := fr.edgeG[[2]int{p.Index, hb.Index}]
		if !ok {
			continue
		}
		pm := map[*ssa.Phi]Operand{}
		for _, in := range hb.Instrs {
			phi, ok := in.(*ssa.Phi)
			if !ok {
				break
			}
			pm[phi] = e.phiIncoming(fr, phi, i)
		}
		edges = append(edges, edge{eg, pm, fr.heapOut[p]})
	}
	if len(edges) == 0 {
		return
	}
	var gs []string
	for _, ed := range edges {
		gs = append(gs, ed.g)
	}
	gAny := or(gs...)
	for k, inv := range invs {
		var parts []string
		for _, ed := range edges {
			env := e.loopEnv(fr, hb, ed.phiMap, ed.heap)
			parts = append(parts, implies(ed.g, e.evalBool(inv.Expr, env)))
		}
		e.oblige(&Oblig{Kind: "inv-back", Base: fmt.Sprintf("inv#%d/loop%d/preserve", k+1, ord), Guard: gAny, Formula: and(parts...),
			Pos: li.minPos, Text: "invariant " + inv.Text, Props: inv.Tags})
	}
	if c != nil {
		if dc := c.LoopDec[ord]; dc != nil && hs.entryG != "" {
			var parts []string
			for _, ed := range edges {
				env := e.loopEnv(fr, hb, ed.phiMap, ed.heap)
				d := e.evalInt(dc.Expr, env)
				parts = append(parts, implies(ed.g, fmt.Sprintf("(and (>= %s 0) (< %s %s))", hs.entryG, d, hs.entryG)))
			}
			e.oblige(&Oblig{Kind: "dec", Base: fmt.Sprintf("dec/loop%d", ord), Guard: gAny, Formula: and(parts...), Pos: li.minPos,
				Text: "decreases " + dc.Text, Props: dc.Tags})
		}
	}
	if e.rootFoot != nil && !e.rootFoot.all && hs.heap != hs.pre && !e.loopAll[hb] {
		for _, key := range sortedKeys(e.loopMods[hb]) {
			if !frameKey(key) {
				continue
			}
			was := e.hget(fr.entry, key)
			var parts []string
			for _, ed := range edges {
				if f := e.frameFormula(e.rootFoot, key, e.hget(ed.heap, key), was); f != "" {
					parts = append(parts, implies(ed.g, f))
				}
			}
			if len(parts) > 0 {
				e.oblige(&Oblig{Kind: "inv-back", Base: fmt.Sprintf("frameinv/%s/loop%d/preserve", key, ord), Guard: gAny, Formula: and(parts...),
					Pos: li.minPos, Text: "loop keeps " + key + " unchanged outside the modifies clause (preserve)"})
			}
		}
	}
	// mod-set discovery for the next fixpoint round
	if e.loopMods[hb] == nil {
		e.loopMods[hb] = map[string]bool{}
	}
	for _, ed := range edges {
		for _, key := range sortedKeySorts(e.keySort) {
			if strings.HasPrefix(key, "D|") {
				continue
			}
			if e.hget(ed.heap, key) != e.hget(hs.heap, key) {
				if !e.loopMods[hb][key] {
					e.loopMods[hb][key] = true
					e.modsChanged = true
				}
			}
		}
	}
	for b := range li.blocks {
		if e.havocAllBlocks[b] && !e.loopAll[hb] {
			e.loopAll[hb] = true
			e.modsChanged = true
		}
	}
}

func sortedKeySorts(m map[string]string) []string {
	var ks []string
	for k := range m {
		ks = append(ks, k)
	}
	sort.Strings(ks)
	return ks
}

// ---------------------------------------------------------------------------
// verifying one function against its contract

type FuncResult struct {
	Key       string
	Obls      []*Oblig
	Prelude   func(o *Oblig) string
	Warnings  []string
	Used      []string
	Inlined   []string
	Opaque    []string
	Fatal     []string
	Params    []ModelVar
	Loops     int
	enc       *Enc
	NoCheckFn bool
}

func (w *World) VerifyFunc(key string, c *Contract) *FuncResult {
	fn := w.funcs[key]
	res := &FuncResult{Key: key}
	if fn == nil {
		res.Fatal = append(res.Fatal, "function "+key+" not found in the current source")
		return res
	}
	if len(fn.Blocks) == 0 {
		res.Fatal = append(res.Fatal, "function "+key+" has no body")
		return res
	}
	e := newEnc(w, fn, c)
	e.loops, e.loopNode = w.loopOrdinals(fn)
	for round := 0; round < 8; round++ {
		e.reset()
		e.modsChanged = false
		e.havocAllBlocks = map[*ssa.BasicBlock]bool{}
		e.runRoot()
		if !e.modsChanged {
			break
		}
	}
	// loops without invariants
	nloops := 0
	for hb, ord := range e.loops {
		nloops++
		if c == nil || len(c.LoopInv[ord]) == 0 {
			_ = hb
			e.warn("loop %d has no invariant (state after the loop is unconstrained)", ord)
		}
	}
	if c != nil {
		for k := range c.LoopInv {
			ok := false
			for _, ord := range e.loops {
				if ord == k {
					ok = true
				}
			}
			if !ok {
				e.fatalf("contract names loop %d but the function has no such loop", k)
			}
		}
	}
	res.Loops = nloops
	res.enc = e
	res.Fatal = e.fatal
	for wn := range e.warns {
		res.Warnings = append(res.Warnings, wn)
	}
	sort.Strings(res.Warnings)
	res.Used = sortedFuncKeys(e.used)
	res.Inlined = sortedFuncKeys(e.inlined)
	res.Opaque = sortedFuncKeys(e.opaque)
	e.numberObligations()
	res.Obls = e.obls
	res.Params = e.paramVars
	return res
}

func (e *Enc) numberObligations() {
	groups := map[string][]*Oblig{}
	for _, o := range e.obls {
		groups[o.Base] = append(groups[o.Base], o)
	}
	short := e.w.funcKey(e.root)
	short = strings.TrimPrefix(short, modulePrefix+"/")
	short = strings.TrimPrefix(short, modulePrefix+".")
	for base, os := range groups {
		sort.SliceStable(os, func(i, j int) bool { return os[i].Pos < os[j].Pos })
		for i, o := range os {
			switch o.Kind {
			case "post", "nopanic", "pre", "frame", "cover":
				o.ID = fmt.Sprintf("%s/%s#%d", short, base, i+1)
				if o.Kind == "post" || o.Kind == "frame" {
					o.ID = fmt.Sprintf("%s/%s@ret%d", short, base, i+1)
				}
			default:
				if len(os) > 1 {
					o.ID = fmt.Sprintf("%s/%s#%d", short, base, i+1)
				} else {
					o.ID = fmt.Sprintf("%s/%s", short, base)
				}
			}
		}
	}
	sort.SliceStable(e.obls, func(i, j int) bool { return e.obls[i].ID < e.obls[j].ID })
}

func (e *Enc) runRoot() {
	fn := e.root
	c := e.contract
	e.regKey("$alloc", "Int", nil)
	fr := e.newFrame(fn, nil, "")
	fr.isRoot = true
	h0 := e.newHeap(hRoot, nil)
	e.alloc0 = e.hget(h0, "$alloc")
	e.paramVars = nil
	var args []Operand
	for _, p := range fn.Params {
		t := p.Type()
		if pt, ok := t.Underlying().(*types.Pointer); ok {
			if _, isStruct := pt.Elem().Underlying().(*types.Struct); !isStruct {
				if _, isArr := pt.Elem().Underlying().(*types.Array); !isArr {
					// pointer to scalar/slice: a cell of its own
					key := "C|param|" + p.Name()
					e.regKey(key, e.d.sortOf(pt.Elem()), pt.Elem())
					args = append(args, Operand{a: &Addr{key: key, typ: pt.Elem()}, ok: true})
					continue
				}
			}
		}
		v := e.havocVal("p_"+p.Name(), t, "")
		e.assumeAllocated(t, v.T, h0, "true")
		args = append(args, opVal(v))
		e.paramVars = append(e.paramVars, ModelVar{Name: p.Name(), Term: v.T, Type: t.String()})
	}
	for _, fv := range fn.FreeVars {
		// free variables of a closure verified on its own: unconstrained cells
		pt := fv.Type().Underlying().(*types.Pointer).Elem()
		key := "C|free|" + fv.Name()
		e.regKey(key, e.d.sortOf(pt), pt)
		fr.ops[fv] = Operand{a: &Addr{key: key, typ: pt}, ok: true}
	}
	// requires
	if c != nil {
		env := e.newSpecEnv(c.Pkg, h0, h0)
		for i, p := range fn.Params {
			env.bindOperand(p.Name(), args[i], p.Type())
		}
		for _, cl := range c.Requires {
			e.assume("true", e.evalBool(cl.Expr, env))
		}
		for _, ln := range c.Lemmas {
			lm := e.w.findLemma(ln)
			if lm == nil {
				e.fatalf("contract uses unknown lemma %s", ln)
				continue
			}
			e.used["lemma:"+ln] = true
			e.emit(e.lemmaAxiom(lm))
		}
	}
	e.rootEntry = h0
	e.paramOps = args
	e.rootFoot = nil
	if c != nil && c.HasMod {
		fr.entry = h0
		e.rootFoot = e.rootFootprint(fr, args)
	}
	e.preLen = len(e.body)
	e.stack = []*ssa.Function{fn}
	e.curRootBlock = nil
	e.runFrameRoot(fr, args, "true", h0)
	// ensures at each return
	if c != nil {
		for ri, r := range fr.rets {
			_ = ri
			env := e.newSpecEnv(c.Pkg, r.heap, h0)
			for i, p := range fn.Params {
				env.bindOperand(p.Name(), args[i], p.Type())
			}
			res := fn.Signature.Results()
			for i := 0; i < res.Len(); i++ {
				sv := e.opSV(r.vals[i], res.At(i).Type())
				if n := res.At(i).Name(); n != "" && n != "_" {
					env.names[n] = sv
				}
				env.names[fmt.Sprintf("result%d", i)] = sv
				if i == 0 {
					env.names["result"] = sv
				}
			}
			// ghostdef clauses: redefine the ghost field at this return, then
			// assume (not prove) its defining clause
			for _, cl := range c.Ensures {
				if cl.GhostOwner == nil {
					continue
				}
				ow := e.evalSpec(cl.GhostOwner, env)
				key := e.ghostKey(ow.GoT, cl.GhostField)
				if ow.GoT != nil {
					if pt, ok := ow.GoT.Underlying().(*types.Pointer); ok {
						key = e.ghostKey(pt.Elem(), cl.GhostField)
					}
				}
				if key == "" {
					e.fatalf("ghostdef: unknown ghost field %s", cl.GhostField)
					continue
				}
				cur := e.hget(env.heap, key)
				fresh := e.declare("ghostdef", innerSort(e.keySort[key]))
				nh := e.hset(env.heap, key, e.define("S_"+key, e.keySort[key], fmt.Sprintf("(store %s %s %s)", cur, ow.T, fresh)))
				env.heap = nh
				r.heap = nh
				e.assume(r.guard, e.evalBool(cl.Expr, env))
			}
			var earlier []*Oblig
			for k, cl := range c.Ensures {
				if cl.GhostOwner != nil {
					continue
				}
				f := e.evalBool(cl.Expr, env)
				o := &Oblig{Kind: "post", Base: fmt.Sprintf("post#%d", k+1), Guard: r.guard, Formula: f, Pos: r.pos,
					Text: "ensures " + cl.Text, Props: cl.Tags, Deps: append([]*Oblig{}, earlier...)}
				allScalar := true
				for i := 0; i < res.Len(); i++ {
					if !scalarType(res.At(i).Type(), 0) || r.vals[i].v.T == "" {
						allScalar = false
					}
				}
				if allScalar {
					for i := 0; i < res.Len(); i++ {
						o.Outputs = append(o.Outputs, OutVar{Term: r.vals[i].v.T, GoT: res.At(i).Type()})
					}
				}
				e.oblige(o)
				o.Prefix = len(e.body)
				earlier = append(earlier, o)
				// later clauses at this return may use this one (it is proved on its own;
				// a later clause counts as discharged only if every earlier one is: Deps)
				e.assume(r.guard, f)
			}
			if c.HasMod {
				e.frameObligations(fr, r, env, args)
			}
		}
	}
}

// runFrameRoot is runFrame with root-block tracking for havoc-all detection.
func (e *Enc) runFrameRoot(fr *Frame, args []Operand, guard string, heap *Heap) {
	e.runFrame(fr, args, guard, heap)
}

// rootFootprint evaluates the contract's modifies clause in the entry state.
func (e *Enc) rootFootprint(fr *Frame, args []Operand) *callEffect {
	c := e.contract
	ce := &callEffect{foot: map[string][]string{}}
	pre := e.newSpecEnv(c.Pkg, fr.entry, fr.entry)
	for i, p := range fr.fn.Params {
		if i < len(args) {
			pre.bindOperand(p.Name(), args[i], p.Type())
		}
	}
	for _, m := range c.Modifies {
		e.addFootprint(ce, m, pre)
	}
	return ce
}

// frameFormula: key is unchanged between `was` (function entry) and `now` for
// every object allocated at entry and outside the declared footprint.
// Returns "" when the key is unconstrained (whole key in the footprint).
func (e *Enc) frameFormula(ce *callEffect, key, now, was string) string {
	if ce.all || now == was {
		return ""
	}
	refs := ce.foot[key]
	for _, x := range refs {
		if x == "*" {
			return ""
		}
	}
	if strings.HasPrefix(key, "G|") {
		return fmt.Sprintf("(= %s %s)", now, was)
	}
	e.qn++
	rv := fmt.Sprintf("r%d!f", e.qn)
	cond := []string{e.allocatedCond(key, rv, e.alloc0)}
	if arrayIndexSort(e.keySort[key]) == "Int" {
		for _, x := range refs {
			cond = append(cond, fmt.Sprintf("(distinct %s %s)", rv, x))
		}
	}
	return fmt.Sprintf("(forall ((%s %s)) (! (=> %s (= (select %s %s) (select %s %s))) :pattern ((select %s %s))))",
		rv, arrayIndexSort(e.keySort[key]), and(cond...), now, rv, was, rv, now, rv)
}

func frameKey(key string) bool {
	return !(key == "$alloc" || strings.HasPrefix(key, "C|") || strings.HasPrefix(key, "D|"))
}

// frameObligations: everything outside the declared modifies clause is unchanged.
func (e *Enc) frameObligations(fr *Frame, r retRec, env *SpecEnv, args []Operand) {
	ce := e.rootFoot
	if ce == nil || ce.all {
		return
	}
	for _, key := range sortedKeySorts(e.keySort) {
		if !frameKey(key) {
			continue
		}
		f := e.frameFormula(ce, key, e.hget(r.heap, key), e.hget(fr.entry, key))
		if f == "" {
			continue
		}
		o := &Oblig{Kind: "frame", Base: "frame/" + key, Guard: r.guard, Formula: f, Pos: r.pos,
			Text: "modifies: " + key + " unchanged outside the declared footprint"}
		e.oblige(o)
	}
}

// addrEscapes reports whether the address produced by v may be observed by
// anything but direct loads, stores and field/index projections.
func addrEscapes(v ssa.Value) bool {
	refs := v.Referrers()
	if refs == nil {
		return true
	}
	for _, r := range *refs {
		switch x := r.(type) {
		case *ssa.DebugRef:
		case *ssa.UnOp:
			if x.Op != token.MUL {
				return true
			}
		case *ssa.Store:
			if x.Val == v {
				return true
			}
		case *ssa.FieldAddr:
			if addrEscapes(x) {
				return true
			}
		case *ssa.IndexAddr:
			if addrEscapes(x) {
				return true
			}
		default:
			return true
		}
	}
	return false
}

// renamed returns the rename map of the root function (pinned locals -> current locals).
func (e *Enc) renamed() map[string]string {
	if e.renameDone {
		return e.renameMap
	}
	e.renameDone = true
	if pinned, ok := pinnedLocals[e.w.funcKey(e.root)]; ok {
		e.renameMap = renameMap(pinned, e.w.localsOf(e.root))
	}
	return e.renameMap
}

// pinnedLocals is loaded by the check command from baseline/*.locals.json.
var pinnedLocals = map[string][]LocalDecl{}

// pinnedRanges: function -> loop ordinal -> name of the local a range loop iterated
// over on the pinned tree (baseline/*.ranges.json).
var pinnedRanges = map[string]map[string]string{}

// rangedOperand finds the slice a range loop with header hb iterates over: go/ssa
// compiles `for k := range x` to `n = len(x)` before the loop and `k' < n` in the header.
func rangedOperand(hb *ssa.BasicBlock) ssa.Value {
	for _, in := range hb.Instrs {
		b, ok := in.(*ssa.BinOp)
		if !ok || b.Op != token.LSS {
			continue
		}
		call, ok := b.Y.(*ssa.Call)
		if !ok {
			continue
		}
		if bi, ok := call.Call.Value.(*ssa.Builtin); ok && bi.Name() == "len" && len(call.Call.Args) == 1 {
			return call.Call.Args[0]
		}
	}
	return nil
}

// rangesOf lists, per loop ordinal, the identifier a range loop iterates over.
func (w *World) rangesOf(fn *ssa.Function) map[string]string {
	out := map[string]string{}
	_, nodes := w.loopOrdinals(fn)
	ords, _ := w.loopOrdinals(fn)
	for hb, n := range nodes {
		if rs, ok := n.(*ast.RangeStmt); ok {
			if id, ok := rs.X.(*ast.Ident); ok {
				out[fmt.Sprint(ords[hb])] = id.Name
			}
		}
	}
	return out
}
