package main

// "byref" element types: struct types whose slice elements are addressed
// (&s[i] flows into variables, phis, calls).  Their slices are modelled as
// arrays of element *objects*: the i-th element of backing array r is the
// object (elemptr r i) (negative, injective), and its fields live in the
// ordinary per-field heap arrays F|T|f.  Copying a struct value into or out of
// a slice scatters / gathers the fields.

import (
	"fmt"
	"go/types"
	"strings"
)

func (e *Enc) isByRef(t types.Type) bool {
	n, ok := t.(*types.Named)
	if !ok || n.Obj().Pkg() == nil {
		return false
	}
	if _, isStruct := n.Underlying().(*types.Struct); !isStruct {
		return false
	}
	return e.w.cs.ByRef[n.Obj().Pkg().Path()+"."+n.Obj().Name()]
}

func elemObj(ref, absIdx string) string {
	return fmt.Sprintf("(elemptr %s %s)", ref, absIdx)
}

// byrefFieldKeys registers and returns the heap keys of all fields of T.
func (e *Enc) byrefFieldKeys(t types.Type) ([]string, *types.Struct) {
	st := t.Underlying().(*types.Struct)
	var keys []string
	for i := 0; i < st.NumFields(); i++ {
		keys = append(keys, e.fieldKey(t, st, i))
	}
	return keys, st
}

// byrefLoad gathers the struct value of object obj.
func (e *Enc) byrefLoad(h *Heap, t types.Type, obj string) string {
	keys, _ := e.byrefFieldKeys(t)
	si := e.d.structInfoOf(t)
	if len(keys) == 0 {
		return si.ctor
	}
	var fs []string
	for _, k := range keys {
		fs = append(fs, fmt.Sprintf("(select %s %s)", e.hget(h, k), obj))
	}
	return "(" + si.ctor + " " + strings.Join(fs, " ") + ")"
}

// byrefRegion: new heap in which the element objects (ref, [lo,hi)) of type T
// hold the values given by valueAt(fieldIndex, j) (j the bound absolute index
// "j!b"), every other object is unchanged.  lo/hi are absolute indices.
func (e *Enc) byrefRegion(h *Heap, t types.Type, ref, lo, hi string, valueAt func(field int, key string, j string) string) *Heap {
	keys, _ := e.byrefFieldKeys(t)
	for fi, k := range keys {
		old := e.hget(h, k)
		nk := e.declare("B_"+k, e.keySort[k])
		in := fmt.Sprintf("(and (< o!b 0) (= (eref o!b) %s) (<= %s (eidx o!b)) (< (eidx o!b) %s))", ref, lo, hi)
		e.emit(fmt.Sprintf("(assert (forall ((o!b Int)) (! (=> (not %s) (= (select %s o!b) (select %s o!b))) :pattern ((select %s o!b)))))", in, nk, old, nk))
		v := valueAt(fi, k, "j!b")
		e.emit(fmt.Sprintf("(assert (forall ((j!b Int)) (! (=> (and (<= %s j!b) (< j!b %s)) (= (select %s (elemptr %s j!b)) %s)) :pattern ((select %s (elemptr %s j!b))))))",
			lo, hi, nk, ref, v, nk, ref))
		h = e.hset(h, k, nk)
	}
	return h
}

// byrefUnchanged: the element objects of slice s have the same field values in both heaps.
func (e *Enc) byrefUnchanged(now, old *Heap, t types.Type, s string) string {
	keys, _ := e.byrefFieldKeys(t)
	var parts []string
	e.qn++
	j := fmt.Sprintf("j%d!u", e.qn)
	for _, k := range keys {
		a, b := e.hget(now, k), e.hget(old, k)
		if a == b {
			continue
		}
		parts = append(parts, fmt.Sprintf("(= (select %s (elemptr (sref %s) %s)) (select %s (elemptr (sref %s) %s)))", a, s, j, b, s, j))
	}
	if len(parts) == 0 {
		return "true"
	}
	return fmt.Sprintf("(forall ((%s Int)) (=> (and (<= (soff %s) %s) (< %s (+ (soff %s) (slen %s)))) %s))", j, s, j, j, s, s, and(parts...))
}
