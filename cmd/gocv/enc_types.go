package main

// Sorts, declarations and the lazily versioned heap.

import (
	"fmt"
	"go/types"
	"math/big"
	"sort"
	"strings"
)

type Val struct {
	T string // SMT term
	S string // SMT sort
}

func (v Val) ok() bool { return v.T != "" }

const sliceSort = "Slice"

// Decls collects global declarations (sorts, uninterpreted functions, axioms).
type Decls struct {
	lines    []string
	structs  map[string]*structInfo // by sort name
	declared map[string]bool
}

type structInfo struct {
	sort   string
	ctor   string
	fields []string // selector names
	ftypes []types.Type
	fnames []string
	st     *types.Struct
}

func newDecls() *Decls {
	d := &Decls{structs: map[string]*structInfo{}, declared: map[string]bool{}}
	d.lines = append(d.lines,
		"(declare-datatypes ((Slice 0)) (((mk_slice (sref Int) (soff Int) (slen Int) (scap Int)))))",
		"(declare-fun strlen (Int) Int)",
		"(declare-fun strat (Int Int) Int)",
		"(declare-fun dyntype (Int) Int)",
		"(declare-fun ifaceval (Int) Int)",
		"(declare-fun bit (Int Int) Bool)",
		"(declare-fun band (Int Int) Int)",
		"(declare-fun bor (Int Int) Int)",
		"(declare-fun bxor (Int Int) Int)",
		"(declare-fun bandnot (Int Int) Int)",
		"(declare-fun bnot64 (Int) Int)",
		"(declare-fun popcount (Int) Int)",
		"(declare-fun pow2 (Int) Int)",
		"(declare-fun tz64 (Int) Int)",
		"(declare-fun lz64 (Int) Int)",
		"(declare-fun shl64 (Int Int) Int)",
		"(declare-fun shr64 (Int Int) Int)",
		// identity of the i-th element object of a slice backing array (byref element types):
		// negative, injective, with inverses eref/eidx
		"(declare-fun elemptr (Int Int) Int)",
		"(declare-fun eref (Int) Int)",
		"(declare-fun eidx (Int) Int)",
		"(assert (forall ((r Int) (i Int)) (! (and (< (elemptr r i) 0) (= (eref (elemptr r i)) r) (= (eidx (elemptr r i)) i)) :pattern ((elemptr r i)))))",
		"(define-fun godiv ((a Int) (b Int)) Int (ite (>= a 0) (ite (> b 0) (div a b) (- (div a (- b)))) (ite (> b 0) (- (div (- a) b)) (div (- a) (- b)))))",
		"(define-fun gomod ((a Int) (b Int)) Int (- a (* b (godiv a b))))",
		"(define-fun imin ((a Int) (b Int)) Int (ite (<= a b) a b))",
		"(define-fun imax ((a Int) (b Int)) Int (ite (>= a b) a b))",
		"(define-fun iabs ((a Int)) Int (ite (>= a 0) a (- a)))",
	)
	return d
}

// bitAxioms are the word-level facts used in Int mode.  They are facts about
// 64-bit machine words (bit k of x, for 0 <= k < 64), listed as assumptions in
// every evidence file ("machine words axiomatised pointwise").
var bitAxioms = []string{
	"(assert (forall ((a Int) (b Int) (k Int)) (! (= (bit (band a b) k) (and (bit a k) (bit b k))) :pattern ((bit (band a b) k)))))",
	"(assert (forall ((a Int) (b Int) (k Int)) (! (= (bit (bor a b) k) (or (bit a k) (bit b k))) :pattern ((bit (bor a b) k)))))",
	"(assert (forall ((a Int) (b Int) (k Int)) (! (= (bit (bxor a b) k) (xor (bit a k) (bit b k))) :pattern ((bit (bxor a b) k)))))",
	"(assert (forall ((a Int) (b Int) (k Int)) (! (= (bit (bandnot a b) k) (and (bit a k) (not (bit b k)))) :pattern ((bit (bandnot a b) k)))))",
	"(assert (forall ((a Int) (k Int)) (! (=> (and (<= 0 k) (< k 64)) (= (bit (bnot64 a) k) (not (bit a k)))) :pattern ((bit (bnot64 a) k)))))",
	"(assert (forall ((j Int) (k Int)) (! (=> (and (<= 0 j) (< j 64) (<= 0 k) (< k 64)) (= (bit (pow2 j) k) (= j k))) :pattern ((bit (pow2 j) k)))))",
	"(assert (forall ((k Int)) (! (not (bit 0 k)) :pattern ((bit 0 k)))))",
	"(assert (forall ((k Int)) (! (=> (and (<= 0 k) (< k 64)) (bit 18446744073709551615 k)) :pattern ((bit 18446744073709551615 k)))))",
	"(assert (forall ((a Int) (b Int)) (! (and (<= 0 (band a b)) (<= (band a b) 18446744073709551615)) :pattern ((band a b)))))",
	"(assert (forall ((a Int) (b Int)) (! (and (<= 0 (bor a b)) (<= (bor a b) 18446744073709551615)) :pattern ((bor a b)))))",
	"(assert (forall ((a Int) (b Int)) (! (and (<= 0 (bxor a b)) (<= (bxor a b) 18446744073709551615)) :pattern ((bxor a b)))))",
	"(assert (forall ((a Int) (b Int)) (! (and (<= 0 (bandnot a b)) (<= (bandnot a b) 18446744073709551615)) :pattern ((bandnot a b)))))",
	"(assert (forall ((a Int)) (! (and (<= 0 (bnot64 a)) (<= (bnot64 a) 18446744073709551615)) :pattern ((bnot64 a)))))",
	"(assert (forall ((a Int)) (! (and (<= 0 (popcount a)) (<= (popcount a) 64)) :pattern ((popcount a)))))",
	"(assert (= (popcount 0) 0))",
	"(assert (forall ((k Int)) (! (=> (and (<= 0 k) (< k 64)) (and (<= 1 (pow2 k)) (<= (pow2 k) 9223372036854775808))) :pattern ((pow2 k)))))",
	"(assert (= (pow2 0) 1))",
	"(assert (forall ((j Int) (k Int)) (! (=> (and (<= 0 j) (< j k) (< k 64)) (<= (* 2 (pow2 j)) (pow2 k))) :pattern ((pow2 j) (pow2 k)))))",
	"(assert (forall ((k Int)) (! (=> (and (<= 0 k) (< k 63)) (= (pow2 (+ k 1)) (* 2 (pow2 k)))) :pattern ((pow2 (+ k 1))))))",
	"(assert (and (= (pow2 1) 2) (= (pow2 8) 256) (= (pow2 16) 65536) (= (pow2 32) 4294967296) (= (pow2 62) 4611686018427387904) (= (pow2 63) 9223372036854775808)))",
	// single-bit test / set / clear
	"(assert (forall ((a Int) (k Int)) (! (=> (and (<= 0 k) (< k 64)) (= (distinct (band a (pow2 k)) 0) (bit a k))) :pattern ((band a (pow2 k))))))",
	"(assert (forall ((a Int) (k Int)) (! (=> (and (<= 0 k) (< k 64) (<= 0 a) (<= a 18446744073709551615)) (= (bor a (pow2 k)) (ite (bit a k) a (+ a (pow2 k))))) :pattern ((bor a (pow2 k))))))",
	"(assert (forall ((a Int) (k Int)) (! (=> (and (<= 0 k) (< k 64) (<= 0 a) (<= a 18446744073709551615)) (= (bandnot a (pow2 k)) (ite (bit a k) (- a (pow2 k)) a))) :pattern ((bandnot a (pow2 k))))))",
	// extensionality for words in range
	"(assert (forall ((a Int)) (! (=> (and (<= 0 a) (<= a 18446744073709551615) (forall ((k Int)) (=> (and (<= 0 k) (< k 64)) (not (bit a k))))) (= a 0)) :pattern ((popcount a)))))",
}

func (d *Decls) add(line string) {
	if !d.declared[line] {
		d.declared[line] = true
		d.lines = append(d.lines, line)
	}
}

func mangle(s string) string {
	var b strings.Builder
	for _, c := range s {
		switch {
		case c >= 'a' && c <= 'z', c >= 'A' && c <= 'Z', c >= '0' && c <= '9', c == '_', c == '$', c == '.':
			b.WriteRune(c)
		case c == '*':
			b.WriteString("P")
		case c == '[':
			b.WriteString("L")
		case c == ']':
			b.WriteString("R")
		case c == '/':
			b.WriteString("_")
		default:
			b.WriteString("_")
		}
	}
	return b.String()
}

func shortTypeName(t types.Type) string {
	return types.TypeString(t, func(p *types.Package) string { return p.Name() })
}

// sortOf maps a Go type to an SMT sort.
func (d *Decls) sortOf(t types.Type) string {
	switch u := t.Underlying().(type) {
	case *types.Basic:
		switch {
		case u.Info()&types.IsBoolean != 0:
			return "Bool"
		case u.Info()&types.IsFloat != 0:
			return "Real"
		default:
			return "Int"
		}
	case *types.Slice:
		return sliceSort
	case *types.Struct:
		return d.structSort(t, u).sort
	case *types.Array:
		return "(Array Int " + d.sortOf(u.Elem()) + ")"
	default:
		return "Int"
	}
}

func (d *Decls) structSort(t types.Type, st *types.Struct) *structInfo {
	name := "S_" + mangle(shortTypeName(t))
	if _, isNamed := t.(*types.Named); !isNamed {
		name = "S_anon_" + mangle(shortTypeName(st))
	}
	if si, ok := d.structs[name]; ok {
		return si
	}
	si := &structInfo{sort: name, ctor: "mk_" + name, st: st}
	d.structs[name] = si // before recursion
	var fl []string
	for i := 0; i < st.NumFields(); i++ {
		f := st.Field(i)
		sel := fmt.Sprintf("%s_%s", name, mangle(f.Name()))
		si.fields = append(si.fields, sel)
		si.ftypes = append(si.ftypes, f.Type())
		si.fnames = append(si.fnames, f.Name())
		fl = append(fl, fmt.Sprintf("(%s %s)", sel, d.sortOf(f.Type())))
	}
	if len(fl) == 0 {
		d.lines = append(d.lines, fmt.Sprintf("(declare-datatypes ((%s 0)) (((%s))))", name, si.ctor))
	} else {
		d.lines = append(d.lines, fmt.Sprintf("(declare-datatypes ((%s 0)) (((%s %s))))", name, si.ctor, strings.Join(fl, " ")))
	}
	return si
}

func (d *Decls) structInfoOf(t types.Type) *structInfo {
	st, ok := t.Underlying().(*types.Struct)
	if !ok {
		return nil
	}
	return d.structSort(t, st)
}

// zeroOf yields the zero value term for a Go type.
func (d *Decls) zeroOf(t types.Type) string {
	switch u := t.Underlying().(type) {
	case *types.Basic:
		switch {
		case u.Info()&types.IsBoolean != 0:
			return "false"
		case u.Info()&types.IsFloat != 0:
			return "0.0"
		case u.Info()&types.IsString != 0:
			return "0" // the empty string is interned as 0
		default:
			return "0"
		}
	case *types.Slice:
		return "(mk_slice 0 0 0 0)"
	case *types.Struct:
		si := d.structSort(t, u)
		if len(si.fields) == 0 {
			return si.ctor
		}
		var fs []string
		for _, ft := range si.ftypes {
			fs = append(fs, d.zeroOf(ft))
		}
		return "(" + si.ctor + " " + strings.Join(fs, " ") + ")"
	case *types.Array:
		return fmt.Sprintf("((as const %s) %s)", d.sortOf(t), d.zeroOf(u.Elem()))
	default:
		return "0"
	}
}

func intRange(t types.Type) (lo, hi *big.Int, ok bool) {
	b, isb := t.Underlying().(*types.Basic)
	if !isb || b.Info()&types.IsInteger == 0 {
		return nil, nil, false
	}
	bitsOf := func(k types.BasicKind) (int, bool) {
		switch k {
		case types.Int8:
			return 8, true
		case types.Int16:
			return 16, true
		case types.Int32:
			return 32, true
		case types.Int64, types.Int:
			return 64, true
		case types.Uint8:
			return 8, false
		case types.Uint16:
			return 16, false
		case types.Uint32:
			return 32, false
		case types.Uint64, types.Uint, types.Uintptr:
			return 64, false
		case types.UntypedInt, types.UntypedRune:
			return 64, true
		}
		return 64, true
	}
	w, signed := bitsOf(b.Kind())
	one := big.NewInt(1)
	if signed {
		hi = new(big.Int).Lsh(one, uint(w-1))
		lo = new(big.Int).Neg(hi)
		hi.Sub(hi, one)
	} else {
		lo = big.NewInt(0)
		hi = new(big.Int).Lsh(one, uint(w))
		hi.Sub(hi, one)
	}
	return lo, hi, true
}

func intWidth(t types.Type) (w int, signed bool) {
	lo, hi, ok := intRange(t)
	if !ok {
		return 64, true
	}
	signed = lo.Sign() < 0
	n := new(big.Int).Sub(hi, lo)
	return n.BitLen(), signed
}

func smtInt(v *big.Int) string {
	if v.Sign() < 0 {
		return "(- " + new(big.Int).Neg(v).String() + ")"
	}
	return v.String()
}

func smtIntI(v int64) string { return smtInt(big.NewInt(v)) }

// wrapTo wraps a mathematical integer term into the range of type t.
func wrapTo(t types.Type, term string) string {
	w, signed := intWidth(t)
	m := new(big.Int).Lsh(big.NewInt(1), uint(w))
	if !signed {
		return fmt.Sprintf("(mod %s %s)", term, m.String())
	}
	h := new(big.Int).Rsh(m, 1)
	// ((x + h) mod m) - h
	return fmt.Sprintf("(- (mod (+ %s %s) %s) %s)", term, h.String(), m.String(), h.String())
}

// wrap1 wraps a term known to lie within one period of the type's range
// (sum or difference of two in-range values) without using mod.
func wrap1(t types.Type, term string) string {
	lo, hi, ok := intRange(t)
	if !ok {
		return term
	}
	w, _ := intWidth(t)
	m := new(big.Int).Lsh(big.NewInt(1), uint(w)).String()
	return fmt.Sprintf("(let ((w!x %s)) (ite (> w!x %s) (- w!x %s) (ite (< w!x %s) (+ w!x %s) w!x)))", term, smtInt(hi), m, smtInt(lo), m)
}

// rangeAssumption returns a Bool term stating that `term` (of Go type t) is a
// well-typed value (integer range, slice header sanity, struct fields).
func (d *Decls) rangeAssumption(t types.Type, term string, depth int) string {
	if depth > 3 {
		return ""
	}
	switch u := t.Underlying().(type) {
	case *types.Basic:
		if lo, hi, ok := intRange(t); ok {
			return fmt.Sprintf("(and (<= %s %s) (<= %s %s))", smtInt(lo), term, term, smtInt(hi))
		}
		if u.Info()&types.IsString != 0 {
			return fmt.Sprintf("(and (>= (strlen %s) 0) (= (= %s 0) (= (strlen %s) 0)))", term, term, term)
		}
		return ""
	case *types.Slice:
		return fmt.Sprintf("(and (>= (sref %s) 0) (>= (soff %s) 0) (>= (slen %s) 0) (<= (slen %s) (scap %s)) (<= (scap %s) 9223372036854775807) (=> (= (sref %s) 0) (= (scap %s) 0)))",
			term, term, term, term, term, term, term, term)
	case *types.Pointer, *types.Map, *types.Chan, *types.Signature, *types.Interface:
		return fmt.Sprintf("(>= %s 0)", term)
	case *types.Struct:
		si := d.structSort(t, u)
		var parts []string
		for i, ft := range si.ftypes {
			if a := d.rangeAssumption(ft, fmt.Sprintf("(%s %s)", si.fields[i], term), depth+1); a != "" {
				parts = append(parts, a)
			}
		}
		if len(parts) == 0 {
			return ""
		}
		if len(parts) == 1 {
			return parts[0]
		}
		return "(and " + strings.Join(parts, " ") + ")"
	}
	return ""
}

func and(parts ...string) string {
	var ps []string
	for _, p := range parts {
		if p == "" || p == "true" {
			continue
		}
		if p == "false" {
			return "false"
		}
		ps = append(ps, p)
	}
	if len(ps) == 0 {
		return "true"
	}
	if len(ps) == 1 {
		return ps[0]
	}
	return "(and " + strings.Join(ps, " ") + ")"
}

func or(parts ...string) string {
	var ps []string
	for _, p := range parts {
		if p == "" || p == "false" {
			continue
		}
		if p == "true" {
			return "true"
		}
		ps = append(ps, p)
	}
	if len(ps) == 0 {
		return "false"
	}
	if len(ps) == 1 {
		return ps[0]
	}
	return "(or " + strings.Join(ps, " ") + ")"
}

func not(p string) string {
	if p == "true" {
		return "false"
	}
	if p == "false" {
		return "true"
	}
	return "(not " + p + ")"
}

func implies(a, b string) string {
	if a == "true" {
		return b
	}
	if b == "true" || a == "false" {
		return "true"
	}
	return "(=> " + a + " " + b + ")"
}

// ---------------------------------------------------------------------------
// Heap: persistent, lazily versioned.

type heapKind int

const (
	hRoot heapKind = iota
	hStore
	hMerge
	hHavoc // havoc a set of keys (or all)
	hCall  // effect of a contracted call: per-key frame
)

type mergeArm struct {
	guard string
	h     *Heap
}

type Heap struct {
	kind   heapKind
	id     int
	parent *Heap
	key    string
	term   string
	arms   []mergeArm
	keys   map[string]bool // hHavoc: keys; nil = all
	call   *callEffect
	memo   map[string]string
}

type callEffect struct {
	allocPre string
	// footprint per key: list of ref terms whose cell may change; "*" = whole key
	foot    map[string][]string
	all     bool
	noalloc bool
	guard   string
}

// heap key helpers
func keyField(t types.Type, field string) string {
	return "F|" + shortTypeName(t) + "|" + field
}

func elemKeyName(t types.Type) string {
	if b, ok := t.Underlying().(*types.Basic); ok {
		switch b.Kind() {
		case types.Uint8:
			return "uint8"
		case types.Int32:
			if _, named := t.(*types.Named); !named {
				return "int32"
			}
		}
		if _, named := t.(*types.Named); !named {
			return b.Name()
		}
		// named basic types share the heap of their underlying type
		return t.Underlying().(*types.Basic).Name()
	}
	return shortTypeName(t)
}

func keyElem(t types.Type) string { return "E|" + elemKeyName(t) }

func sortedKeys(m map[string]bool) []string {
	var ks []string
	for k := range m {
		ks = append(ks, k)
	}
	sort.Strings(ks)
	return ks
}
