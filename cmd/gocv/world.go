package main

import (
	"fmt"
	"go/ast"
	"go/token"
	"go/types"
	"math/big"
	"os"
	"path/filepath"
	"sort"
	"strings"

	"golang.org/x/tools/go/packages"
	"golang.org/x/tools/go/ssa"
	"golang.org/x/tools/go/ssa/ssautil"
)

type bigInt = big.Int

func newBig() *big.Int { return new(big.Int) }

const modulePrefix = "github.com/pilosa/pilosa"

type World struct {
	prog    *ssa.Program
	fset    *token.FileSet
	pkgs    map[string]*packages.Package
	spkgs   map[string]*ssa.Package
	cs      *ContractSet
	funcs   map[string]*ssa.Function
	modsets map[*ssa.Function]*ModSet
	repo    string
	loopAST map[*ssa.Function][]ast.Node

	constGlobals    map[*ssa.Global]*ssa.Const
	nonConstGlobals map[*ssa.Global]bool
	globalsScanned  bool
	allModuleFuncs  []*ssa.Function
}

type ModSet struct {
	keys map[string]bool
	all  bool
	why  string
}

func LoadWorld(repo string, patterns []string) (*World, error) {
	cfg := &packages.Config{Mode: packages.LoadAllSyntax, Dir: repo,
		Env: append(os.Environ(), "GOFLAGS=-mod=mod", "GOPROXY=off", "GOSUMDB=off", "GOTOOLCHAIN=local")}
	pkgs, err := packages.Load(cfg, patterns...)
	if err != nil {
		return nil, err
	}
	w := &World{pkgs: map[string]*packages.Package{}, spkgs: map[string]*ssa.Package{}, funcs: map[string]*ssa.Function{},
		modsets: map[*ssa.Function]*ModSet{}, repo: repo, loopAST: map[*ssa.Function][]ast.Node{}}
	var errs []string
	packages.Visit(pkgs, nil, func(p *packages.Package) {
		w.pkgs[p.PkgPath] = p
		if strings.HasPrefix(p.PkgPath, modulePrefix) {
			for _, e := range p.Errors {
				errs = append(errs, e.Error())
			}
		}
	})
	if len(errs) > 0 {
		return nil, fmt.Errorf("package errors: %s", strings.Join(errs, "; "))
	}
	prog, _ := ssautil.AllPackages(pkgs, ssa.InstantiateGenerics|ssa.GlobalDebug)
	prog.Build()
	w.prog = prog
	w.fset = prog.Fset
	for _, sp := range prog.AllPackages() {
		w.spkgs[sp.Pkg.Path()] = sp
	}
	for fn := range ssautil.AllFunctions(prog) {
		if fn.Pkg == nil || !strings.HasPrefix(fn.Pkg.Pkg.Path(), modulePrefix) {
			continue
		}
		w.funcs[w.funcKey(fn)] = fn
		w.allModuleFuncs = append(w.allModuleFuncs, fn)
	}
	dirs := map[string]string{}
	for path, p := range w.pkgs {
		if strings.HasPrefix(path, modulePrefix) && len(p.GoFiles) > 0 {
			dirs[path] = filepath.Dir(p.GoFiles[0])
		}
	}
	cs, err := LoadContracts(repo, dirs)
	if err != nil {
		return nil, err
	}
	w.cs = cs
	// contract variants: `contract F#tag` is a second contract of F (used by callers
	// that name it with `variant F#tag`) and is verified against F's body like any other
	for key := range cs.Contracts {
		if i := strings.Index(key, "#"); i >= 0 {
			if fn := w.funcs[key[:i]]; fn != nil {
				w.funcs[key] = fn
			}
		}
	}
	return w, nil
}

func (w *World) funcKey(fn *ssa.Function) string {
	if fn.Pkg == nil {
		// synthetic wrappers etc.
		if fn.Parent() != nil {
			return w.funcKey(fn.Parent()) + "$" + fn.Name()
		}
		return fn.String()
	}
	return fn.Pkg.Pkg.Path() + "." + fn.RelString(fn.Pkg.Pkg)
}

func (w *World) ifaceMethodKey(t types.Type, m *types.Func) string {
	if n, ok := t.(*types.Named); ok && n.Obj().Pkg() != nil {
		return n.Obj().Pkg().Path() + ".(" + n.Obj().Name() + ")." + m.Name()
	}
	return "(" + t.String() + ")." + m.Name()
}

func (w *World) typesPkg(path string) *types.Package {
	if p := w.pkgs[path]; p != nil {
		return p.Types
	}
	return nil
}

func (w *World) analyzed(fn *ssa.Function) bool {
	p := fn.Pkg
	if p == nil && fn.Parent() != nil {
		p = fn.Parent().Pkg
	}
	if p == nil {
		return false
	}
	return strings.HasPrefix(p.Pkg.Path(), modulePrefix)
}

// loopOrdinals maps each natural loop header of fn to the ordinal (1-based) of
// the for/range statement it comes from, in source order.
func (w *World) loopOrdinals(fn *ssa.Function) (map[*ssa.BasicBlock]int, map[*ssa.BasicBlock]ast.Node) {
	res := map[*ssa.BasicBlock]int{}
	nodes := map[*ssa.BasicBlock]ast.Node{}
	syn := fn.Syntax()
	if syn == nil {
		return res, nodes
	}
	var loopsAST []ast.Node
	var body ast.Node
	switch s := syn.(type) {
	case *ast.FuncDecl:
		body = s.Body
	case *ast.FuncLit:
		body = s.Body
	}
	if body == nil {
		return res, nodes
	}
	ast.Inspect(body, func(n ast.Node) bool {
		switch n.(type) {
		case *ast.FuncLit:
			return false
		case *ast.ForStmt, *ast.RangeStmt:
			loopsAST = append(loopsAST, n)
		}
		return true
	})
	loops := findLoops(fn)
	for hb, li := range loops {
		// innermost AST loop containing all positions of the natural loop
		best := -1
		for i, n := range loopsAST {
			if li.minPos.IsValid() && n.Pos() <= li.minPos && li.maxPos <= n.End() {
				if best < 0 || (loopsAST[best].Pos() <= n.Pos() && n.End() <= loopsAST[best].End()) {
					best = i
				}
			}
		}
		if best >= 0 {
			res[hb] = best + 1
			nodes[hb] = loopsAST[best]
		}
	}
	return res, nodes
}

// ---------------------------------------------------------------------------
// inferred mod-sets

func (w *World) modset(fn *ssa.Function) *ModSet {
	if ms, ok := w.modsets[fn]; ok {
		return ms
	}
	ms := &ModSet{keys: map[string]bool{}}
	w.modsets[fn] = ms // optimistic for recursion
	if len(fn.Blocks) == 0 {
		if !isObserver(fn.String()) {
			ms.all = true
			ms.why = "no body: " + fn.String()
		}
		return ms
	}
	addAll := func(why string) {
		if !ms.all {
			ms.all = true
			ms.why = why
		}
	}
	var rootKey func(v ssa.Value) (string, bool, bool) // key, local, ok
	rootKey = func(v ssa.Value) (string, bool, bool) {
		switch x := v.(type) {
		case *ssa.FieldAddr:
			pt := x.X.Type().Underlying().(*types.Pointer).Elem()
			st := pt.Underlying().(*types.Struct)
			switch inner := x.X.(type) {
			case *ssa.FieldAddr:
				return rootKey(inner)
			case *ssa.IndexAddr:
				return rootKey(inner)
			case *ssa.Alloc:
				_ = inner
				return "", true, true
			}
			return keyField(pt, st.Field(x.Field).Name()), false, true
		case *ssa.IndexAddr:
			switch u := x.X.Type().Underlying().(type) {
			case *types.Slice:
				return keyElem(u.Elem()), false, true
			case *types.Pointer:
				switch inner := x.X.(type) {
				case *ssa.FieldAddr:
					return rootKey(inner)
				case *ssa.Alloc:
					return "", true, true
				}
				if arr, ok := u.Elem().Underlying().(*types.Array); ok {
					return keyElem(arr.Elem()), false, true
				}
			}
		case *ssa.Alloc:
			return "", true, true
		case *ssa.Global:
			return "G|" + x.Pkg.Pkg.Name() + "." + x.Name(), false, true
		case *ssa.FreeVar:
			return "", true, true // captured variable cell of the enclosing function
		}
		return "", false, false
	}
	for _, b := range fn.Blocks {
		for _, in := range b.Instrs {
			switch x := in.(type) {
			case *ssa.Store:
				k, local, ok := rootKey(x.Addr)
				if !ok {
					addAll(fmt.Sprintf("store through %s in %s", x.Addr.Name(), fn.String()))
				} else if !local {
					ms.keys[k] = true
				}
			case *ssa.MapUpdate:
				mt := x.Map.Type().Underlying().(*types.Map)
				name := mangle(shortTypeName(mt.Key())) + "|" + mangle(shortTypeName(mt.Elem()))
				ms.keys["MP|"+name] = true
				ms.keys["MV|"+name] = true
				ms.keys["MN|"+name] = true
			case ssa.CallInstruction:
				cc := x.Common()
				if bi, ok := cc.Value.(*ssa.Builtin); ok {
					switch bi.Name() {
					case "append", "copy":
						if sl, ok := cc.Args[0].Type().Underlying().(*types.Slice); ok {
							ms.keys[keyElem(sl.Elem())] = true
						}
					case "delete":
						mt := cc.Args[0].Type().Underlying().(*types.Map)
						name := mangle(shortTypeName(mt.Key())) + "|" + mangle(shortTypeName(mt.Elem()))
						ms.keys["MP|"+name] = true
						ms.keys["MN|"+name] = true
					}
					continue
				}
				if cc.IsInvoke() {
					full := fmt.Sprintf("(%s).%s", types.TypeString(cc.Value.Type(), nil), cc.Method.Name())
					if isObserver(full) || cc.Method.Name() == "Error" {
						continue
					}
					if c := w.cs.Contracts[w.ifaceMethodKey(cc.Value.Type(), cc.Method)]; c != nil && c.HasMod {
						w.contractModKeys(c, ms)
						continue
					}
					addAll("interface call " + full + " in " + fn.String())
					continue
				}
				callee := cc.StaticCallee()
				if callee == nil {
					if mc, ok := cc.Value.(*ssa.MakeClosure); ok {
						callee = mc.Fn.(*ssa.Function)
					}
				}
				if callee == nil {
					addAll("dynamic call in " + fn.String())
					continue
				}
				if isObserver(callee.String()) {
					continue
				}
				if c := w.cs.Contracts[w.funcKey(callee)]; c != nil && c.HasMod {
					w.contractModKeys(c, ms)
					if c.Trusted {
						continue
					}
				}
				sub := w.modset(callee)
				if sub.all {
					addAll(sub.why)
				}
				for k := range sub.keys {
					ms.keys[k] = true
				}
			}
		}
	}
	// closures defined inside are analysed when called; MakeClosure passed elsewhere is a dynamic call at its use.
	return ms
}

// contractModKeys adds the (whole) heap keys named by a contract's modifies clause.
func (w *World) contractModKeys(c *Contract, ms *ModSet) {
	fn := w.funcs[c.Pkg+"."+c.Func]
	pkg := w.typesPkg(c.Pkg)
	for _, m := range c.Modifies {
		m = strings.TrimSpace(m)
		switch {
		case m == "all" || m == "everything":
			ms.all = true
			ms.why = "contract " + c.Func + " modifies all"
			continue
		case m == "noalloc":
			continue
		case strings.HasPrefix(m, "elems("):
			// type of the slice expression: only parameter names and simple field paths are supported here
			expr := m[6 : len(m)-1]
			if t := w.staticTypeOf(fn, pkg, expr); t != nil {
				if sl, ok := t.Underlying().(*types.Slice); ok {
					ms.keys[keyElem(sl.Elem())] = true
					continue
				}
			}
			ms.all = true
			ms.why = "contract " + c.Func + ": cannot type " + m
			continue
		case strings.HasPrefix(m, "global "):
			ms.keys["G|"+pkg.Name()+"."+strings.TrimSpace(m[7:])] = true
			continue
		case strings.HasPrefix(m, "elemtype "):
			if tv, err := types.Eval(w.fset, pkg, token.NoPos, strings.TrimSpace(m[9:])); err == nil && tv.IsType() {
				ms.keys[keyElem(tv.Type)] = true
			} else {
				ms.all = true
				ms.why = "contract " + c.Func + ": cannot type " + m
			}
			continue
		}
		i := strings.LastIndex(m, ".")
		if i < 0 {
			continue
		}
		base, field := m[:i], m[i+1:]
		var t types.Type
		if obj := pkg.Scope().Lookup(base); obj != nil {
			if tn, ok := obj.(*types.TypeName); ok {
				t = tn.Type()
			}
		}
		if t == nil {
			t = w.staticTypeOf(fn, pkg, base)
		}
		if t == nil {
			ms.all = true
			ms.why = "contract " + c.Func + ": cannot type " + m
			continue
		}
		if p, ok := t.Underlying().(*types.Pointer); ok {
			t = p.Elem()
		}
		if strings.HasPrefix(field, "$") {
			ms.keys["F|"+shortTypeName(t)+"|"+field] = true
			continue
		}
		if st, ok := t.Underlying().(*types.Struct); ok {
			for j := 0; j < st.NumFields(); j++ {
				if field == "*" || st.Field(j).Name() == field {
					ms.keys[keyField(t, st.Field(j).Name())] = true
				}
			}
			if field == "*" {
				for _, g := range w.cs.Ghosts {
					if g.Struct == typeBaseName(t) {
						ms.keys["F|"+shortTypeName(t)+"|"+g.Name] = true
					}
				}
			}
		}
	}
}

// staticTypeOf types a simple path expression `p.f.g` over the parameters of fn.
func (w *World) staticTypeOf(fn *ssa.Function, pkg *types.Package, expr string) types.Type {
	parts := strings.Split(strings.TrimSpace(expr), ".")
	var t types.Type
	if fn != nil {
		for _, p := range fn.Params {
			if p.Name() == parts[0] {
				t = p.Type()
			}
		}
	}
	if t == nil {
		return nil
	}
	for _, f := range parts[1:] {
		if p, ok := t.Underlying().(*types.Pointer); ok {
			t = p.Elem()
		}
		st, ok := t.Underlying().(*types.Struct)
		if !ok {
			return nil
		}
		found := false
		for j := 0; j < st.NumFields(); j++ {
			if st.Field(j).Name() == f {
				t = st.Field(j).Type()
				found = true
			}
		}
		if !found {
			return nil
		}
	}
	return t
}

// constGlobal: a package-level variable initialised with a constant and never
// stored to (or address-taken) anywhere else in its package behaves as a constant.
func (w *World) constGlobal(g *ssa.Global) (*ssa.Const, bool) {
	if w.constGlobals == nil {
		w.constGlobals = map[*ssa.Global]*ssa.Const{}
		w.nonConstGlobals = map[*ssa.Global]bool{}
	}
	if !w.globalsScanned {
		w.globalsScanned = true
		for _, fn := range w.allModuleFuncs {
			for _, b := range fn.Blocks {
				for _, in := range b.Instrs {
					for _, op := range in.Operands(nil) {
						gg, isG := (*op).(*ssa.Global)
						if !isG {
							continue
						}
						switch x := in.(type) {
						case *ssa.UnOp, *ssa.DebugRef:
						case *ssa.Store:
							c, isC := x.Val.(*ssa.Const)
							if x.Addr == ssa.Value(gg) && isC && fn.Name() == "init" && w.constGlobals[gg] == nil {
								w.constGlobals[gg] = c
							} else {
								w.nonConstGlobals[gg] = true
							}
						default:
							w.nonConstGlobals[gg] = true
						}
					}
				}
			}
		}
	}
	if w.nonConstGlobals[g] {
		return nil, false
	}
	c, ok := w.constGlobals[g]
	return c, ok
}

func sortedFuncKeys(m map[string]bool) []string {
	var ks []string
	for k := range m {
		ks = append(ks, k)
	}
	sort.Strings(ks)
	return ks
}
