package main

import (
	"fmt"
	"go/constant"
	"go/token"
	"go/types"
	"math/big"
	"sort"
	"strings"

	"golang.org/x/tools/go/ssa"
)

func constBig(c *ssa.Const) (*big.Int, bool) {
	if c.Value == nil {
		return big.NewInt(0), true
	}
	v := constant.ToInt(c.Value)
	if v.Kind() != constant.Int {
		return nil, false
	}
	if i, ok := constant.Int64Val(v); ok {
		return big.NewInt(i), true
	}
	bi, ok := new(big.Int).SetString(v.ExactString(), 10)
	return bi, ok
}

func constString(c *ssa.Const) string {
	if c.Value == nil || c.Value.Kind() != constant.String {
		return ""
	}
	return constant.StringVal(c.Value)
}

func constReal(c *ssa.Const) string {
	if c.Value == nil {
		return "0.0"
	}
	f := constant.ToFloat(c.Value)
	num := constant.Num(f)
	den := constant.Denom(f)
	ns, ds := num.ExactString(), den.ExactString()
	neg := strings.HasPrefix(ns, "-")
	ns = strings.TrimPrefix(ns, "-")
	t := fmt.Sprintf("(/ %s.0 %s.0)", ns, ds)
	if neg {
		t = "(- " + t + ")"
	}
	return t
}

func (e *Enc) setOp(fr *Frame, v ssa.Value, term string) {
	s := e.d.sortOf(v.Type())
	name := v.Name()
	fr.ops[v] = opVal(Val{e.define(fmt.Sprintf("f%d_%s", fr.id, name), s, term), s})
}

func (e *Enc) havocOp(fr *Frame, v ssa.Value, why string) {
	if why != "" {
		e.warn("%s: %s", fr.fn.Name(), why)
	}
	fr.ops[v] = opVal(e.havocVal(fmt.Sprintf("f%d_%s", fr.id, v.Name()), v.Type(), ""))
}

func (e *Enc) nopanic(fr *Frame, kind string, g, formula string, pos token.Pos, text string) {
	if formula == "true" {
		return
	}
	base := "nopanic/" + kind
	if !fr.isRoot {
		base = "nopanic/" + kind + "@" + fr.site
	}
	e.oblige(&Oblig{Kind: "nopanic", Base: base, Guard: g, Formula: formula, Pos: pos, Text: text})
	// subsequent code may assume the check passed
	e.assume(g, formula)
}

func isConstInt(v ssa.Value) (*big.Int, bool) {
	if c, ok := v.(*ssa.Const); ok {
		if b, isb := c.Type().Underlying().(*types.Basic); isb && b.Info()&types.IsInteger != 0 {
			return constBig(c)
		}
	}
	return nil, false
}

func isSentinelError(g *ssa.Global) bool {
	t, ok := g.Type().(*types.Pointer)
	if !ok {
		return false
	}
	if n, ok := t.Elem().(*types.Named); !ok || n.Obj().Name() != "error" || n.Obj().Pkg() != nil {
		return false
	}
	return g.Name() == "EOF" || strings.HasPrefix(g.Name(), "Err") || strings.HasPrefix(g.Name(), "err")
}

func isSingleBit(b *big.Int) bool {
	return b.Sign() > 0 && b.BitLen()-1 == int(b.TrailingZeroBits())
}

func pow2big(k int) *big.Int { return new(big.Int).Lsh(big.NewInt(1), uint(k)) }

func isPow2Minus1(b *big.Int) (int, bool) {
	if b.Sign() <= 0 {
		return 0, false
	}
	x := new(big.Int).Add(b, big.NewInt(1))
	if x.BitLen()-1 == int(x.TrailingZeroBits()) {
		return x.BitLen() - 1, true
	}
	return 0, false
}

func (e *Enc) binop(fr *Frame, b *ssa.BinOp, g string) {
	x, y := e.operand(fr, b.X), e.operand(fr, b.Y)
	xt, yt := x.v.T, y.v.T
	t := b.X.Type()
	rt := b.Type()
	bx, isBasic := t.Underlying().(*types.Basic)
	isInt := isBasic && bx.Info()&types.IsInteger != 0
	isBool := isBasic && bx.Info()&types.IsBoolean != 0
	isFloat := isBasic && bx.Info()&types.IsFloat != 0
	isStr := isBasic && bx.Info()&types.IsString != 0
	cmp := func(op string) { e.setOp(fr, b, fmt.Sprintf("(%s %s %s)", op, xt, yt)) }
	switch b.Op {
	case token.EQL:
		if x.a != nil || y.a != nil || x.v.S != y.v.S {
			e.havocOp(fr, b, "pointer/mixed comparison havocked")
			return
		}
		if x.v.S == sliceSort { // only comparison with nil is legal
			e.setOp(fr, b, fmt.Sprintf("(= (sref %s) (sref %s))", xt, yt))
			return
		}
		cmp("=")
		return
	case token.NEQ:
		if x.a != nil || y.a != nil || x.v.S != y.v.S {
			e.havocOp(fr, b, "pointer/mixed comparison havocked")
			return
		}
		if x.v.S == sliceSort {
			e.setOp(fr, b, fmt.Sprintf("(not (= (sref %s) (sref %s)))", xt, yt))
			return
		}
		cmp("distinct")
		return
	}
	switch {
	case isInt:
		switch b.Op {
		case token.LSS:
			cmp("<")
		case token.LEQ:
			cmp("<=")
		case token.GTR:
			cmp(">")
		case token.GEQ:
			cmp(">=")
		case token.ADD:
			e.setOp(fr, b, wrap1(rt, fmt.Sprintf("(+ %s %s)", xt, yt)))
		case token.SUB:
			e.setOp(fr, b, wrap1(rt, fmt.Sprintf("(- %s %s)", xt, yt)))
		case token.MUL:
			e.setOp(fr, b, wrapTo(rt, fmt.Sprintf("(* %s %s)", xt, yt)))
		case token.QUO, token.REM:
			if c, ok := isConstInt(b.Y); !ok || c.Sign() == 0 {
				e.nopanic(fr, "div", g, fmt.Sprintf("(distinct %s 0)", yt), b.Pos(), "division by zero")
			}
			_, signed := intWidth(t)
			var term string
			if b.Op == token.QUO {
				if signed {
					term = wrapTo(rt, fmt.Sprintf("(godiv %s %s)", xt, yt))
				} else {
					term = fmt.Sprintf("(div %s %s)", xt, yt)
				}
			} else {
				if signed {
					term = fmt.Sprintf("(gomod %s %s)", xt, yt)
				} else {
					term = fmt.Sprintf("(mod %s %s)", xt, yt)
				}
			}
			e.setOp(fr, b, term)
		case token.AND:
			if c, ok := isConstInt(b.Y); ok {
				if k, ok2 := isPow2Minus1(c); ok2 {
					e.setOp(fr, b, fmt.Sprintf("(mod %s %s)", xt, pow2big(k).String()))
					return
				}
			}
			if c, ok := isConstInt(b.X); ok {
				if k, ok2 := isPow2Minus1(c); ok2 {
					e.setOp(fr, b, fmt.Sprintf("(mod %s %s)", yt, pow2big(k).String()))
					return
				}
			}
			if c, ok := isConstInt(b.Y); ok && isSingleBit(c) {
				e.setOp(fr, b, fmt.Sprintf("(* %s (mod (div %s %s) 2))", c.String(), xt, c.String()))
				return
			}
			if c, ok := isConstInt(b.X); ok && isSingleBit(c) {
				e.setOp(fr, b, fmt.Sprintf("(* %s (mod (div %s %s) 2))", c.String(), yt, c.String()))
				return
			}
			e.setOp(fr, b, fmt.Sprintf("(band %s %s)", xt, yt))
		case token.OR:
			if c, ok := isConstInt(b.Y); ok && isSingleBit(c) {
				e.setOp(fr, b, fmt.Sprintf("(+ %s (* %s (- 1 (mod (div %s %s) 2))))", xt, c.String(), xt, c.String()))
				return
			}
			e.setOp(fr, b, fmt.Sprintf("(bor %s %s)", xt, yt))
		case token.XOR:
			e.setOp(fr, b, fmt.Sprintf("(bxor %s %s)", xt, yt))
		case token.AND_NOT:
			if c, ok := isConstInt(b.Y); ok && isSingleBit(c) {
				e.setOp(fr, b, fmt.Sprintf("(- %s (* %s (mod (div %s %s) 2)))", xt, c.String(), xt, c.String()))
				return
			}
			e.setOp(fr, b, fmt.Sprintf("(bandnot %s %s)", xt, yt))
		case token.SHL:
			w, _ := intWidth(rt)
			if c, ok := isConstInt(b.Y); ok {
				if c.IsInt64() && c.Int64() < int64(w) {
					e.setOp(fr, b, wrapTo(rt, fmt.Sprintf("(* %s %s)", xt, pow2big(int(c.Int64())).String())))
				} else {
					e.setOp(fr, b, "0")
				}
				return
			}
			if c, ok := isConstInt(b.X); ok && c.IsInt64() && c.Int64() == 1 {
				e.setOp(fr, b, fmt.Sprintf("(ite (< %s %d) %s 0)", yt, w, wrapTo(rt, fmt.Sprintf("(pow2 %s)", yt))))
				return
			}
			e.setOp(fr, b, fmt.Sprintf("(ite (< %s %d) %s 0)", yt, w, wrapTo(rt, fmt.Sprintf("(shl64 %s %s)", xt, yt))))
		case token.SHR:
			w, signed := intWidth(rt)
			if c, ok := isConstInt(b.Y); ok {
				if c.IsInt64() && c.Int64() < int64(w) {
					e.setOp(fr, b, fmt.Sprintf("(div %s %s)", xt, pow2big(int(c.Int64())).String()))
				} else if signed {
					e.setOp(fr, b, fmt.Sprintf("(ite (< %s 0) (- 1) 0)", xt))
				} else {
					e.setOp(fr, b, "0")
				}
				return
			}
			if signed {
				e.havocOp(fr, b, "signed shift by variable havocked")
				return
			}
			e.setOp(fr, b, fmt.Sprintf("(ite (< %s %d) (shr64 %s %s) 0)", yt, w, xt, yt))
			// shr64 result range
			e.assume("true", fmt.Sprintf("(and (<= 0 (shr64 %s %s)) (<= (shr64 %s %s) %s))", xt, yt, xt, yt, xt))
		default:
			e.havocOp(fr, b, "unsupported int binop "+b.Op.String())
		}
	case isBool:
		switch b.Op {
		case token.AND, token.LAND:
			cmp("and")
		case token.OR, token.LOR:
			cmp("or")
		case token.XOR:
			cmp("xor")
		default:
			e.havocOp(fr, b, "unsupported bool binop "+b.Op.String())
		}
	case isFloat:
		switch b.Op {
		case token.LSS:
			cmp("<")
		case token.LEQ:
			cmp("<=")
		case token.GTR:
			cmp(">")
		case token.GEQ:
			cmp(">=")
		case token.ADD:
			cmp("+")
		case token.SUB:
			cmp("-")
		case token.MUL:
			cmp("*")
		case token.QUO:
			cmp("/")
		default:
			e.havocOp(fr, b, "unsupported float binop")
		}
	case isStr:
		switch b.Op {
		case token.ADD:
			e.d.add("(declare-fun strcat (Int Int) Int)")
			e.setOp(fr, b, fmt.Sprintf("(strcat %s %s)", xt, yt))
			r := fr.ops[b].v.T
			e.assume("true", fmt.Sprintf("(= (strlen %s) (+ (strlen %s) (strlen %s)))", r, xt, yt))
			e.assume("true", fmt.Sprintf("(= (= %s 0) (= (strlen %s) 0))", r, r))
		case token.LSS, token.LEQ, token.GTR, token.GEQ:
			e.declStrlt()
			switch b.Op {
			case token.LSS:
				e.setOp(fr, b, fmt.Sprintf("(strlt %s %s)", xt, yt))
			case token.GTR:
				e.setOp(fr, b, fmt.Sprintf("(strlt %s %s)", yt, xt))
			case token.LEQ:
				e.setOp(fr, b, fmt.Sprintf("(not (strlt %s %s))", yt, xt))
			case token.GEQ:
				e.setOp(fr, b, fmt.Sprintf("(not (strlt %s %s))", xt, yt))
			}
		default:
			e.havocOp(fr, b, "unsupported string binop")
		}
	default:
		e.havocOp(fr, b, fmt.Sprintf("unsupported binop %s on %s", b.Op, t))
	}
}

func (e *Enc) convert(fr *Frame, c *ssa.Convert) {
	x := e.operand(fr, c.X)
	from, to := c.X.Type(), c.Type()
	fb, fok := from.Underlying().(*types.Basic)
	tb, tok := to.Underlying().(*types.Basic)
	if fok && tok {
		fi, ti := fb.Info()&types.IsInteger != 0, tb.Info()&types.IsInteger != 0
		ff, tf := fb.Info()&types.IsFloat != 0, tb.Info()&types.IsFloat != 0
		switch {
		case fi && ti:
			flo, fhi, _ := intRange(from)
			tlo, thi, _ := intRange(to)
			if flo.Cmp(tlo) >= 0 && fhi.Cmp(thi) <= 0 {
				fr.ops[c] = x
				return
			}
			e.setOp(fr, c, wrapTo(to, x.v.T))
			return
		case fi && tf:
			e.setOp(fr, c, fmt.Sprintf("(to_real %s)", x.v.T))
			return
		case ff && ti:
			// truncation toward zero; out-of-range is implementation-defined: assume in range
			e.setOp(fr, c, fmt.Sprintf("(ite (>= %s 0.0) (to_int %s) (- (to_int (- %s))))", x.v.T, x.v.T, x.v.T))
			return
		case ff && tf:
			fr.ops[c] = x
			return
		}
		if fb.Kind() == types.UnsafePointer || tb.Kind() == types.UnsafePointer {
			e.havocOp(fr, c, "unsafe pointer conversion havocked")
			return
		}
	}
	// string <-> []byte, etc.
	e.havocOp(fr, c, fmt.Sprintf("conversion %s -> %s havocked", from, to))
	if _, ok := to.Underlying().(*types.Slice); ok {
		if fok && fb.Info()&types.IsString != 0 {
			r := fr.ops[c].v.T
			e.assume("true", fmt.Sprintf("(= (slen %s) (strlen %s))", r, x.v.T))
		}
	}
	if tok && tb.Info()&types.IsString != 0 {
		if _, ok := from.Underlying().(*types.Slice); ok {
			r := fr.ops[c].v.T
			e.assume("true", fmt.Sprintf("(= (strlen %s) (slen %s))", r, x.v.T))
		}
	}
}

// instr encodes one non-phi instruction.
func (e *Enc) instr(fr *Frame, b *ssa.BasicBlock, in ssa.Instruction, g string, h *Heap) *Heap {
	switch x := in.(type) {
	case *ssa.DebugRef:
		return h
	case *ssa.BinOp:
		e.binop(fr, x, g)
	case *ssa.UnOp:
		switch x.Op {
		case token.NOT:
			e.setOp(fr, x, not(e.operand(fr, x.X).v.T))
		case token.SUB:
			o := e.operand(fr, x.X)
			if o.v.S == "Real" {
				e.setOp(fr, x, fmt.Sprintf("(- %s)", o.v.T))
			} else {
				e.setOp(fr, x, wrap1(x.Type(), fmt.Sprintf("(- %s)", o.v.T)))
			}
		case token.XOR:
			o := e.operand(fr, x.X)
			lo, hi, _ := intRange(x.Type())
			if lo.Sign() == 0 {
				e.setOp(fr, x, fmt.Sprintf("(- %s %s)", hi.String(), o.v.T))
			} else {
				e.setOp(fr, x, fmt.Sprintf("(- (- %s) 1)", o.v.T))
			}
		case token.MUL: // load
			if g0, ok := x.X.(*ssa.Global); ok {
				if cv, ok := e.w.constGlobal(g0); ok {
					// package-level variable that is never assigned outside its initialiser
					fr.ops[x] = opVal(e.constVal(cv))
					return h
				}
			}
			p := e.operand(fr, x.X)
			a := p.a
			if a != nil && len(a.path) == 0 {
				if co, ok := e.cellOps()[a.key]; ok {
					fr.ops[x] = co
					return h
				}
			}
			if a == nil && p.v.T != "" {
				if pt, ok := x.X.Type().Underlying().(*types.Pointer); ok {
					if st, ok := pt.Elem().Underlying().(*types.Struct); ok {
						// whole-struct load through a struct pointer
						e.nopanic(fr, "nil", g, fmt.Sprintf("(distinct %s 0)", p.v.T), x.Pos(), "nil pointer dereference")
						si := e.d.structInfoOf(pt.Elem())
						var fs []string
						for i := 0; i < st.NumFields(); i++ {
							key := e.fieldKey(pt.Elem(), st, i)
							fs = append(fs, fmt.Sprintf("(select %s %s)", e.hget(h, key), p.v.T))
						}
						if len(fs) == 0 {
							e.setOp(fr, x, si.ctor)
						} else {
							e.setOp(fr, x, "("+si.ctor+" "+strings.Join(fs, " ")+")")
						}
						return h
					}
				}
			}
			if a == nil {
				a = e.derefValue(fr, x.X, p, g, x.Pos())
			}
			if a == nil {
				e.havocOp(fr, x, fmt.Sprintf("load through untracked pointer %s", x.X.Name()))
				return h
			}
			// loading a pointer-to-array row etc.
			e.setOp(fr, x, e.load(h, a))
			v := fr.ops[x].v
			if g0, ok := x.X.(*ssa.Global); ok && len(a.path) == 0 && isSentinelError(g0) {
				// sentinel error variables (io.EOF, ErrXxx) are non-nil and never reassigned
				e.assume(g, fmt.Sprintf("(distinct %s 0)", v.T))
			}
			if ra := e.d.rangeAssumption(x.Type(), v.T, 0); ra != "" {
				e.assume(g, ra)
			}
			e.assumeAllocated(x.Type(), v.T, h, g)
		case token.ARROW:
			e.havocOp(fr, x, "channel receive havocked")
		default:
			e.havocOp(fr, x, "unsupported unop")
		}
	case *ssa.Store:
		p := e.operand(fr, x.Addr)
		a := p.a
		if a == nil {
			a = e.derefValue(fr, x.Addr, p, g, x.Pos())
		}
		v := e.operand(fr, x.Val)
		if a == nil && p.v.T != "" && v.v.T != "" {
			if pt, ok := x.Addr.Type().Underlying().(*types.Pointer); ok {
				if st, ok := pt.Elem().Underlying().(*types.Struct); ok {
					// whole-struct store through a struct pointer
					e.nopanic(fr, "nil", g, fmt.Sprintf("(distinct %s 0)", p.v.T), x.Pos(), "nil pointer dereference")
					si := e.d.structInfoOf(pt.Elem())
					for i := 0; i < st.NumFields(); i++ {
						key := e.fieldKey(pt.Elem(), st, i)
						fa := &Addr{key: key, idx: []string{p.v.T}, typ: st.Field(i).Type()}
						h = e.store(h, fa, fmt.Sprintf("(%s %s)", si.fields[i], v.v.T))
					}
					return h
				}
			}
		}
		if a == nil {
			e.warn("%s: store through untracked pointer %s", fr.fn.Name(), x.Addr.Name())
			return e.havocAll(fr, h, "store through untracked pointer")
		}
		if v.a != nil || (v.clo != nil && v.v.T == "") {
			// storing an address/closure into memory: only cells keep it symbolic
			if strings.HasPrefix(a.key, "C|") && len(a.path) == 0 {
				e.cellOps()[a.key] = v
				return h
			}
			e.warn("%s: address stored to memory", fr.fn.Name())
			return h
		}
		if strings.HasPrefix(a.key, "C|") && len(a.path) == 0 {
			delete(e.cellOps(), a.key)
			if v.clo != nil {
				e.cellOps()[a.key] = v
			}
		}
		return e.store(h, a, v.v.T)
	case *ssa.Alloc:
		return e.alloc(fr, x, g, h)
	case *ssa.FieldAddr:
		e.fieldAddr(fr, x, g, h)
	case *ssa.Field:
		o := e.operand(fr, x.X)
		si := e.d.structInfoOf(x.X.Type())
		if si == nil || o.v.T == "" {
			e.havocOp(fr, x, "field of non-struct value")
			return h
		}
		e.setOp(fr, x, fmt.Sprintf("(%s %s)", si.fields[x.Field], o.v.T))
	case *ssa.IndexAddr:
		e.indexAddr(fr, x, g, h)
	case *ssa.Index:
		o := e.operand(fr, x.X)
		i := e.operand(fr, x.Index)
		switch u := x.X.Type().Underlying().(type) {
		case *types.Array:
			e.nopanic(fr, "index", g, fmt.Sprintf("(and (<= 0 %s) (< %s %d))", i.v.T, i.v.T, u.Len()), x.Pos(), "array index in range")
			e.setOp(fr, x, fmt.Sprintf("(select %s %s)", o.v.T, i.v.T))
		case *types.Basic: // string
			e.nopanic(fr, "index", g, fmt.Sprintf("(and (<= 0 %s) (< %s (strlen %s)))", i.v.T, i.v.T, o.v.T), x.Pos(), "string index in range")
			e.setOp(fr, x, fmt.Sprintf("(strat %s %s)", o.v.T, i.v.T))
			e.assume(g, fmt.Sprintf("(and (<= 0 %s) (<= %s 255))", fr.ops[x].v.T, fr.ops[x].v.T))
		default:
			e.havocOp(fr, x, "unsupported Index")
		}
	case *ssa.Slice:
		e.sliceInstr(fr, x, g, h)
	case *ssa.Phi:
		// handled elsewhere
	case *ssa.Convert:
		e.convert(fr, x)
	case *ssa.ChangeType:
		fr.ops[x] = e.operand(fr, x.X)
	case *ssa.ChangeInterface:
		fr.ops[x] = e.operand(fr, x.X)
	case *ssa.MakeInterface:
		o := e.operand(fr, x.X)
		s := o.v.S
		if o.v.T == "" {
			e.havocOp(fr, x, "MakeInterface of address")
			return h
		}
		fn := "mkiface_" + mangle(s)
		e.d.add(fmt.Sprintf("(declare-fun %s (Int %s) Int)", fn, s))
		e.d.add(fmt.Sprintf("(declare-fun ifaceval_%s (Int) %s)", mangle(s), s))
		t := fmt.Sprintf("(%s %s %s)", fn, e.typeID(x.X.Type()), o.v.T)
		e.setOp(fr, x, t)
		r := fr.ops[x].v.T
		e.assume("true", fmt.Sprintf("(and (> %s 0) (= (dyntype %s) %s) (= (ifaceval_%s %s) %s))", r, r, e.typeID(x.X.Type()), mangle(s), r, o.v.T))
	case *ssa.TypeAssert:
		e.typeAssert(fr, x, g)
	case *ssa.Extract:
		t := e.operand(fr, x.Tuple)
		if x.Index < len(t.tup) {
			fr.ops[x] = t.tup[x.Index]
		} else {
			e.havocOp(fr, x, "extract from unknown tuple")
		}
	case *ssa.Call:
		return e.call(fr, x, &x.Call, x, g, h, x.Pos())
	case *ssa.MakeSlice:
		ln := e.operand(fr, x.Len).v.T
		cp := e.operand(fr, x.Cap).v.T
		e.nopanic(fr, "makeslice", g, fmt.Sprintf("(and (<= 0 %s) (<= %s %s))", ln, ln, cp), x.Pos(), "make: len in range")
		elem := x.Type().Underlying().(*types.Slice).Elem()
		ref, h2 := e.freshRef(h, "mk")
		if e.isByRef(elem) {
			st := elem.Underlying().(*types.Struct)
			h2 = e.byrefRegion(h2, elem, ref, "0", cp, func(fi int, key, j string) string { return e.d.zeroOf(st.Field(fi).Type()) })
			e.setOp(fr, x, fmt.Sprintf("(mk_slice %s 0 %s %s)", ref, ln, cp))
			return h2
		}
		key := e.elemKey(elem)
		base := e.hget(h2, key)
		nt := e.define("S_"+key, e.keySort[key], fmt.Sprintf("(store %s %s ((as const (Array Int %s)) %s))", base, ref, e.d.sortOf(elem), e.d.zeroOf(elem)))
		h2 = e.hset(h2, key, nt)
		e.setOp(fr, x, fmt.Sprintf("(mk_slice %s 0 %s %s)", ref, ln, cp))
		return h2
	case *ssa.MakeClosure:
		var bs []Operand
		for _, bnd := range x.Bindings {
			bs = append(bs, e.operand(fr, bnd))
		}
		fr.ops[x] = Operand{clo: &Closure{fn: x.Fn.(*ssa.Function), bindings: bs}, ok: true}
	case *ssa.MakeMap:
		return e.makeMap(fr, x, g, h)
	case *ssa.MapUpdate:
		return e.mapUpdate(fr, x, g, h)
	case *ssa.Lookup:
		e.lookup(fr, x, g, h)
	case *ssa.If, *ssa.Jump:
		e.terminator(fr, b, in, g)
	case *ssa.Return:
		var vals []Operand
		for _, r := range x.Results {
			vals = append(vals, e.operand(fr, r))
		}
		fr.rets = append(fr.rets, retRec{guard: g, vals: vals, heap: h, pos: x.Pos(), instr: x})
	case *ssa.Panic:
		if fr.isRoot && e.contract != nil && e.contract.MayPanic {
			return h
		}
		e.nopanic(fr, "explicit", g, "false", x.Pos(), "explicit panic unreachable")
	case *ssa.Defer:
		key := fmt.Sprintf("D|%d|%d", fr.id, len(fr.defers))
		e.regKey(key, "Bool", types.Typ[types.Bool])
		fr.defers = append(fr.defers, &deferRec{call: &x.Call, flag: key, fr: fr, pos: x.Pos()})
		return e.hset(h, key, "true")
	case *ssa.RunDefers:
		for i := len(fr.defers) - 1; i >= 0; i-- {
			d := fr.defers[i]
			flag := e.hget(h, d.flag)
			if flag == "false" {
				continue
			}
			dg := e.define("g_defer", "Bool", and(g, flag))
			h2 := e.call(fr, nil, d.call, nil, dg, h, d.pos)
			if h2 != h {
				h = e.mergeHeaps([]mergeArm{{flag, h2}, {"true", h}})
			}
		}
	case *ssa.Go:
		e.warn("%s: go statement ignored (goroutine body not modelled)", fr.fn.Name())
	case *ssa.Send:
		e.warn("%s: channel send ignored", fr.fn.Name())
	case *ssa.Range:
		fr.ops[x] = Operand{ok: true}
		e.warn("%s: range over map/string: iteration order abstracted", fr.fn.Name())
	case *ssa.Next:
		// (ok, k, v) fully havocked
		tup := x.Type().(*types.Tuple)
		var ops []Operand
		for i := 0; i < tup.Len(); i++ {
			ops = append(ops, opVal(e.havocVal("next", tup.At(i).Type(), "")))
		}
		fr.ops[x] = Operand{tup: ops, ok: true}
	case *ssa.Select:
		tup, _ := x.Type().(*types.Tuple)
		var ops []Operand
		if tup != nil {
			for i := 0; i < tup.Len(); i++ {
				ops = append(ops, opVal(e.havocVal("sel", tup.At(i).Type(), "")))
			}
		}
		fr.ops[x] = Operand{tup: ops, ok: true}
		e.warn("%s: select havocked", fr.fn.Name())
	case *ssa.SliceToArrayPointer, *ssa.MakeChan, *ssa.MultiConvert:
		if v, ok := in.(ssa.Value); ok {
			e.havocOp(fr, v, fmt.Sprintf("unsupported instruction %T", in))
		}
	default:
		if v, ok := in.(ssa.Value); ok {
			e.havocOp(fr, v, fmt.Sprintf("unsupported instruction %T", in))
		} else {
			e.warn("%s: unsupported instruction %T", fr.fn.Name(), in)
		}
	}
	return h
}

func (e *Enc) cellOps() map[string]Operand {
	if e.cellOp == nil {
		e.cellOp = map[string]Operand{}
	}
	return e.cellOp
}

func (e *Enc) terminator(fr *Frame, b *ssa.BasicBlock, in ssa.Instruction, g string) {
	switch x := in.(type) {
	case *ssa.Jump:
		fr.edgeG[[2]int{b.Index, b.Succs[0].Index}] = g
	case *ssa.If:
		c := e.operand(fr, x.Cond).v.T
		if t := and(g, c); t != "false" {
			fr.edgeG[[2]int{b.Index, b.Succs[0].Index}] = e.define(fmt.Sprintf("e_%d_%d", b.Index, b.Succs[0].Index), "Bool", t)
		}
		if t := and(g, not(c)); t != "false" {
			fr.edgeG[[2]int{b.Index, b.Succs[1].Index}] = e.define(fmt.Sprintf("e_%d_%d", b.Index, b.Succs[1].Index), "Bool", t)
		}
	}
}

func (e *Enc) freshRef(h *Heap, hint string) (string, *Heap) {
	e.regKey("$alloc", "Int", nil)
	cur := e.hget(h, "$alloc")
	r := e.declare("ref_"+hint, "Int")
	e.emit(fmt.Sprintf("(assert (> %s %s))", r, cur))
	return r, e.hset(h, "$alloc", r)
}

// assumeAllocated: pointers / slices read from the heap refer to allocated objects.
func (e *Enc) assumeAllocated(t types.Type, term string, h *Heap, g string) {
	switch t.Underlying().(type) {
	case *types.Pointer, *types.Map:
		e.regKey("$alloc", "Int", nil)
		e.assume(g, fmt.Sprintf("(<= %s %s)", term, e.hget(h, "$alloc")))
	case *types.Slice:
		e.regKey("$alloc", "Int", nil)
		e.assume(g, fmt.Sprintf("(<= (sref %s) %s)", term, e.hget(h, "$alloc")))
	}
}

func (e *Enc) alloc(fr *Frame, x *ssa.Alloc, g string, h *Heap) *Heap {
	t := x.Type().(*types.Pointer).Elem()
	switch u := t.Underlying().(type) {
	case *types.Struct:
		if !addrEscapes(x) {
			// non-escaping struct local: a cell holding the struct value
			key := fmt.Sprintf("C|%d|%s", fr.id, x.Name())
			e.regKey(key, e.d.sortOf(t), t)
			fr.ops[x] = Operand{a: &Addr{key: key, typ: t}, ok: true}
			return e.hset(h, key, e.d.zeroOf(t))
		}
		ref, h2 := e.freshRef(h, x.Name())
		for i := 0; i < u.NumFields(); i++ {
			key := e.fieldKey(t, u, i)
			a := &Addr{key: key, idx: []string{ref}, typ: u.Field(i).Type()}
			h2 = e.store(h2, a, e.d.zeroOf(u.Field(i).Type()))
		}
		// ghost fields of a new object start at their zero value too
		if n, ok := t.(*types.Named); ok && n.Obj().Pkg() != nil {
			prefix := n.Obj().Pkg().Path() + "." + n.Obj().Name() + "."
			var names []string
			for k, g := range e.w.cs.Ghosts {
				if strings.HasPrefix(k, prefix) {
					names = append(names, g.Name)
				}
			}
			sort.Strings(names)
			for _, name := range names {
				key := e.ghostKey(t, name)
				if key == "" {
					continue
				}
				srt, goT, _, _, _ := e.ghostInfo(t, name)
				zero := zeroOfSort(srt)
				if goT != nil {
					zero = e.d.zeroOf(goT)
				}
				if zero == "" {
					continue
				}
				a := &Addr{key: key, idx: []string{ref}, typ: goT}
				h2 = e.store(h2, a, zero)
			}
		}
		fr.ops[x] = opVal(Val{ref, "Int"})
		return h2
	case *types.Array:
		ref, h2 := e.freshRef(h, x.Name())
		key := e.elemKey(u.Elem())
		base := e.hget(h2, key)
		nt := e.define("S_"+key, e.keySort[key], fmt.Sprintf("(store %s %s ((as const (Array Int %s)) %s))", base, ref, e.d.sortOf(u.Elem()), e.d.zeroOf(u.Elem())))
		h2 = e.hset(h2, key, nt)
		fr.ops[x] = opVal(Val{ref, "Int"})
		return h2
	default:
		key := fmt.Sprintf("C|%d|%s", fr.id, x.Name())
		e.regKey(key, e.d.sortOf(t), t)
		fr.ops[x] = Operand{a: &Addr{key: key, typ: t}, ok: true}
		return e.hset(h, key, e.d.zeroOf(t))
	}
}

// derefValue turns a pointer *value* (Int ref) into an address when the
// pointee is an array (E-row) or a struct (whole-struct load/store).
func (e *Enc) derefValue(fr *Frame, pv ssa.Value, p Operand, g string, pos token.Pos) *Addr {
	pt, ok := pv.Type().Underlying().(*types.Pointer)
	if !ok || p.v.T == "" {
		return nil
	}
	switch u := pt.Elem().Underlying().(type) {
	case *types.Array:
		e.nopanic(fr, "nil", g, fmt.Sprintf("(distinct %s 0)", p.v.T), pos, "nil pointer dereference")
		return &Addr{key: e.elemKey(u.Elem()), idx: []string{p.v.T}, typ: pt.Elem()}
	}
	return nil
}

func (e *Enc) fieldAddr(fr *Frame, x *ssa.FieldAddr, g string, h *Heap) {
	p := e.operand(fr, x.X)
	pt := x.X.Type().Underlying().(*types.Pointer).Elem()
	st := pt.Underlying().(*types.Struct)
	ft := st.Field(x.Field).Type()
	if p.a != nil {
		// nested struct cell
		si := e.d.structInfoOf(pt)
		na := &Addr{key: p.a.key, idx: p.a.idx, typ: ft}
		na.path = append(append([]pathElem{}, p.a.path...), pathElem{isField: true, field: x.Field, si: si})
		fr.ops[x] = Operand{a: na, ok: true}
		return
	}
	ref := p.v.T
	e.nopanic(fr, "nil", g, fmt.Sprintf("(distinct %s 0)", ref), x.Pos(), fmt.Sprintf("nil dereference of %s (field %s)", x.X.Name(), st.Field(x.Field).Name()))
	key := e.fieldKey(pt, st, x.Field)
	fr.ops[x] = Operand{a: &Addr{key: key, idx: []string{ref}, typ: ft}, ok: true}
}

func (e *Enc) indexAddr(fr *Frame, x *ssa.IndexAddr, g string, h *Heap) {
	o := e.operand(fr, x.X)
	i := e.operand(fr, x.Index).v.T
	switch u := x.X.Type().Underlying().(type) {
	case *types.Slice:
		s := o.v.T
		e.nopanic(fr, "index", g, fmt.Sprintf("(and (<= 0 %s) (< %s (slen %s)))", i, i, s), x.Pos(), fmt.Sprintf("index %s in range of %s", x.Index.Name(), x.X.Name()))
		if e.isByRef(u.Elem()) {
			// element object with identity: the pointer is a value
			e.setOp(fr, x, elemObj("(sref "+s+")", fmt.Sprintf("(+ (soff %s) %s)", s, i)))
			return
		}
		key := e.elemKey(u.Elem())
		fr.ops[x] = Operand{a: &Addr{key: key, idx: []string{"(sref " + s + ")", fmt.Sprintf("(+ (soff %s) %s)", s, i)}, typ: u.Elem()}, ok: true}
	case *types.Pointer:
		arr := u.Elem().Underlying().(*types.Array)
		e.nopanic(fr, "index", g, fmt.Sprintf("(and (<= 0 %s) (< %s %d))", i, i, arr.Len()), x.Pos(), "array index in range")
		if o.a != nil {
			na := &Addr{key: o.a.key, idx: o.a.idx, typ: arr.Elem()}
			na.path = append(append([]pathElem{}, o.a.path...), pathElem{index: i})
			fr.ops[x] = Operand{a: na, ok: true}
			return
		}
		e.nopanic(fr, "nil", g, fmt.Sprintf("(distinct %s 0)", o.v.T), x.Pos(), "nil array pointer")
		key := e.elemKey(arr.Elem())
		fr.ops[x] = Operand{a: &Addr{key: key, idx: []string{o.v.T, i}, typ: arr.Elem()}, ok: true}
	default:
		e.warn("%s: unsupported IndexAddr on %s", fr.fn.Name(), x.X.Type())
		fr.ops[x] = Operand{ok: true}
	}
}

func (e *Enc) sliceInstr(fr *Frame, x *ssa.Slice, g string, h *Heap) {
	o := e.operand(fr, x.X)
	get := func(v ssa.Value, def string) string {
		if v == nil {
			return def
		}
		return e.operand(fr, v).v.T
	}
	switch u := x.X.Type().Underlying().(type) {
	case *types.Slice:
		s := o.v.T
		lo := get(x.Low, "0")
		hi := get(x.High, fmt.Sprintf("(slen %s)", s))
		mx := get(x.Max, fmt.Sprintf("(scap %s)", s))
		e.nopanic(fr, "slice", g, fmt.Sprintf("(and (<= 0 %s) (<= %s %s) (<= %s %s) (<= %s (scap %s)))", lo, lo, hi, hi, mx, mx, s), x.Pos(),
			fmt.Sprintf("slice bounds of %s", x.X.Name()))
		e.setOp(fr, x, fmt.Sprintf("(mk_slice (sref %s) (+ (soff %s) %s) (- %s %s) (- %s %s))", s, s, lo, hi, lo, mx, lo))
	case *types.Basic: // string
		s := o.v.T
		lo := get(x.Low, "0")
		hi := get(x.High, fmt.Sprintf("(strlen %s)", s))
		e.nopanic(fr, "slice", g, fmt.Sprintf("(and (<= 0 %s) (<= %s %s) (<= %s (strlen %s)))", lo, lo, hi, hi, s), x.Pos(), "string slice bounds")
		e.d.add("(declare-fun substr (Int Int Int) Int)")
		e.setOp(fr, x, fmt.Sprintf("(substr %s %s %s)", s, lo, hi))
		r := fr.ops[x].v.T
		e.assume(g, fmt.Sprintf("(and (= (strlen %s) (- %s %s)) (= (= %s 0) (= %s %s)))", r, hi, lo, r, hi, lo))
	case *types.Pointer:
		arr := u.Elem().Underlying().(*types.Array)
		if o.a != nil || o.v.T == "" {
			e.havocOp(fr, x, "slice of array embedded in a struct/cell")
			return
		}
		n := fmt.Sprint(arr.Len())
		lo := get(x.Low, "0")
		hi := get(x.High, n)
		mx := get(x.Max, n)
		e.nopanic(fr, "slice", g, fmt.Sprintf("(and (<= 0 %s) (<= %s %s) (<= %s %s) (<= %s %s))", lo, lo, hi, hi, mx, mx, n), x.Pos(), "array slice bounds")
		e.setOp(fr, x, fmt.Sprintf("(mk_slice %s %s (- %s %s) (- %s %s))", o.v.T, lo, hi, lo, mx, lo))
	default:
		e.havocOp(fr, x, "unsupported Slice")
	}
}

func (e *Enc) typeAssert(fr *Frame, x *ssa.TypeAssert, g string) {
	o := e.operand(fr, x.X)
	_, toIface := x.AssertedType.Underlying().(*types.Interface)
	var okT, valT string
	s := e.d.sortOf(x.AssertedType)
	if toIface {
		okV := e.havocVal("taok", types.Typ[types.Bool], "")
		okT = okV.T
		valT = o.v.T
		e.assume("true", implies(okT, fmt.Sprintf("(distinct %s 0)", o.v.T)))
	} else {
		okT = fmt.Sprintf("(and (distinct %s 0) (= (dyntype %s) %s))", o.v.T, o.v.T, e.typeID(x.AssertedType))
		e.d.add(fmt.Sprintf("(declare-fun ifaceval_%s (Int) %s)", mangle(s), s))
		valT = fmt.Sprintf("(ifaceval_%s %s)", mangle(s), o.v.T)
	}
	if x.CommaOk {
		okD := e.define("taok", "Bool", okT)
		v := e.define("taval", s, fmt.Sprintf("(ite %s %s %s)", okD, valT, e.d.zeroOf(x.AssertedType)))
		if ra := e.d.rangeAssumption(x.AssertedType, v, 0); ra != "" && !toIface {
			e.assume(and(g, okD), ra)
		}
		fr.ops[x] = Operand{tup: []Operand{opVal(Val{v, s}), opVal(Val{okD, "Bool"})}, ok: true}
		return
	}
	e.nopanic(fr, "assert", g, okT, x.Pos(), "type assertion holds")
	e.setOp(fr, x, valT)
	if ra := e.d.rangeAssumption(x.AssertedType, fr.ops[x].v.T, 0); ra != "" && !toIface {
		e.assume(g, ra)
	}
}

func (e *Enc) havocAll(fr *Frame, h *Heap, why string) *Heap {
	nh := e.newHeap(hHavoc, h)
	nh.keys = nil
	if e.curRootBlock != nil {
		if e.havocAllBlocks == nil {
			e.havocAllBlocks = map[*ssa.BasicBlock]bool{}
		}
		e.havocAllBlocks[e.curRootBlock] = true
	}
	return nh
}

// zeroOfSort: the zero value of a ghost field that has no Go type (sets, maps).
func zeroOfSort(srt string) string {
	switch {
	case srt == "Int":
		return "0"
	case srt == "Bool":
		return "false"
	case srt == sliceSort:
		return "(mk_slice 0 0 0 0)"
	case strings.HasPrefix(srt, "(Array Int "):
		inner := zeroOfSort(strings.TrimSuffix(strings.TrimPrefix(srt, "(Array Int "), ")"))
		if inner == "" {
			return ""
		}
		return fmt.Sprintf("((as const %s) %s)", srt, inner)
	}
	return ""
}
