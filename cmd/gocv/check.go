package main

import (
	"encoding/json"
	"flag"
	"fmt"
	"os"
	"path/filepath"
	"regexp"
	"sort"
	"strconv"
	"strings"
	"sync"
	"time"
)

type Finding struct {
	Property   string `json:"property"`
	Obligation string `json:"obligation"`
	Status     string `json:"status"` // open | fixed
	What       string `json:"what"`
	Commit     string `json:"commit,omitempty"`
	Input      string `json:"input,omitempty"`
}

type FindingsFile struct {
	Findings []Finding `json:"findings"`
}

type FuncEvidence struct {
	Func        string   `json:"func"`
	Status      string   `json:"status"` // proved | partial | assumed(trusted) | failed
	Obligations int      `json:"obligations"`
	Discharged  int      `json:"discharged"`
	Loops       int      `json:"loops"`
	Unclaimed   int      `json:"stated_not_discharged,omitempty"`
	UsesContr   []string `json:"callee_contracts_used,omitempty"`
	Inlined     []string `json:"inlined_callees,omitempty"`
	Opaque      []string `json:"opaque_callees_havocked,omitempty"`
	Abstracted  []string `json:"abstractions,omitempty"`
}

type Evidence struct {
	PropertyID  string                 `json:"property_id"`
	Tier        string                 `json:"tier"`
	Seed        int                    `json:"seed"`
	Level       string                 `json:"level"`
	Coverage    map[string]interface{} `json:"coverage"`
	Assumptions []string               `json:"assumptions"`
	WallS       float64                `json:"wall_s"`
	Violations  int                    `json:"violations"`
}

// scanContractProps finds the packages (as ./rel patterns) whose contract files mention the property.
func scanContractPackages(repo, prop string) []string {
	var pats []string
	seen := map[string]bool{}
	filepath.Walk(repo, func(p string, info os.FileInfo, err error) error {
		if err != nil {
			return nil
		}
		if info.IsDir() && (info.Name() == ".git" || info.Name() == "vendor" || info.Name() == "node_modules") {
			return filepath.SkipDir
		}
		if !info.IsDir() && strings.HasPrefix(info.Name(), "verif_contracts") && strings.HasSuffix(info.Name(), ".go") {
			data, _ := os.ReadFile(p)
			if prop == "" || strings.Contains(string(data), prop) {
				rel, _ := filepath.Rel(repo, filepath.Dir(p))
				pat := "./" + rel
				if rel == "." {
					pat = "."
				}
				if !seen[pat] {
					seen[pat] = true
					pats = append(pats, pat)
				}
			}
		}
		return nil
	})
	sort.Strings(pats)
	return pats
}

func hasProp(list []string, p string) bool {
	for _, x := range list {
		if strings.TrimSpace(x) == p {
			return true
		}
	}
	return false
}

type checkedObl struct {
	o   *Oblig
	r   SolveResult
	fr  *FuncResult
	key string
}

func cmdCheck(args []string) int {
	fs := flag.NewFlagSet("check", flag.ExitOnError)
	repo := fs.String("repo", "/repo", "repository")
	prop := fs.String("prop", "", "property id")
	tier := fs.String("tier", "", "quick|thorough")
	verif := fs.String("verif", "/verif", "verif dir")
	writeBaseline := fs.Bool("write-baseline", false, "record discharged obligation IDs as the baseline ledger")
	noEvidence := fs.Bool("no-evidence", false, "do not write evidence (scratch runs)")
	verbose := fs.Bool("v", false, "verbose")
	writeShape := fs.Bool("write-shape", false, "record the IDs of all obligations generated on this tree (claimed or not) next to the ledger and stop before solving")
	strict := fs.Bool("strict", false, "treat every generated obligation as claimed (ignore the ledger)")
	noBounded := fs.Bool("no-bounded", false, "skip the bounded stand-ins (ledger maintenance runs)")
	fs.Parse(args)
	if *prop == "" {
		fmt.Fprintln(os.Stderr, "check: --prop required")
		return 2
	}
	if *tier == "" {
		*tier = os.Getenv("VERIF_TIER")
	}
	if *tier == "" {
		*tier = "quick"
	}
	seed := 0
	if s := os.Getenv("VERIF_SEED"); s != "" {
		seed, _ = strconv.Atoi(s)
	}
	secs := 10
	allSolvers := false
	if *tier == "thorough" {
		secs = 60
		allSolvers = true
	}
	t0 := time.Now()
	pinnedLocals = loadPinnedLocals(*verif)
	pinnedRanges = loadPinnedRanges(*verif)
	pats := scanContractPackages(*repo, *prop)
	idx := loadRcIndex(*verif)
	if len(pats) == 0 && len(idx.Props[*prop]) > 0 {
		return checkBoundedOnly(*verif, *repo, *prop, *tier, seed, idx, *noEvidence, t0)
	}
	if len(pats) == 0 {
		fmt.Printf("VIOLATION property=%s replay=%s no-failing-input-found\n", *prop, "none(no contract files mention the property)")
		return 1
	}
	w, err := LoadWorld(*repo, pats)
	if err != nil {
		fmt.Fprintln(os.Stderr, "load:", err)
		rp := writeReplay(*verif, *prop, "load-failure", map[string]interface{}{"error": err.Error()})
		fmt.Printf("VIOLATION property=%s replay=%s no-failing-input-found\n", *prop, rp)
		return 1
	}
	loadS := time.Since(t0).Seconds()
	// contracts of this property
	var keys []string
	for k, c := range w.cs.Contracts {
		if hasProp(c.Props, *prop) {
			keys = append(keys, k)
		}
	}
	sort.Strings(keys)
	outDir := filepath.Join(*verif, "out", *prop)
	os.RemoveAll(outDir)
	os.MkdirAll(outDir, 0o755)

	var mu sync.Mutex
	var all []checkedObl
	var funcs []FuncEvidence
	var fatals []string
	trusted := map[string]bool{}
	var assumptions []string
	byBackend := map[string]*struct {
		N     int
		Total float64
		Max   float64
	}{}
	// verify functions in parallel (VC generation is single threaded per function; solving is the cost)
	type job struct {
		key string
		c   *Contract
	}
	var jobs []job
	for _, k := range keys {
		c := w.cs.Contracts[k]
		if c.Trusted {
			trusted[k] = true
			funcs = append(funcs, FuncEvidence{Func: k, Status: "assumed (trusted contract, body not verified)"})
			continue
		}
		if strings.Contains(k, ".(") && w.funcs[k] == nil && isIfaceContract(k) {
			funcs = append(funcs, FuncEvidence{Func: k, Status: "interface-level contract (assumed at call sites)"})
			continue
		}
		jobs = append(jobs, job{k, c})
	}
	nLemmas := 0
	for _, lm := range w.cs.Lemmas {
		if hasProp(lm.Props, *prop) {
			nLemmas++
		}
	}
	if len(jobs)+nLemmas == 0 && len(idx.Props[*prop]) > 0 {
		// only trusted contracts mention the property: it is decided by the bounded stand-in alone
		return checkBoundedOnly(*verif, *repo, *prop, *tier, seed, idx, *noEvidence, t0)
	}
	// VC generation sequentially (shared World caches are not thread safe), solving in parallel
	var results []*FuncResult
	for _, j := range jobs {
		fr := w.VerifyFunc(j.key, j.c)
		results = append(results, fr)
	}
	for _, lm := range w.cs.Lemmas {
		if hasProp(lm.Props, *prop) {
			results = append(results, w.VerifyLemma(lm))
		}
	}
	genS := time.Since(t0).Seconds() - loadS
	if *writeShape {
		var ids []string
		for _, fr := range results {
			for _, o := range fr.Obls {
				if !o.Negate && (len(o.Props) == 0 || hasProp(o.Props, *prop)) {
					ids = append(ids, o.ID)
				}
			}
		}
		sort.Strings(ids)
		data, _ := json.MarshalIndent(ids, "", " ")
		f := filepath.Join(*verif, "baseline", *prop+".shape.json")
		os.WriteFile(f, data, 0o644)
		fmt.Printf("shape: %d obligation IDs written to %s\n", len(ids), f)
		locals := map[string][]LocalDecl{}
		ranges := map[string]map[string]string{}
		for _, j := range jobs {
			if fn := w.funcs[j.key]; fn != nil {
				if l := w.localsOf(fn); len(l) > 0 {
					locals[w.funcKey(fn)] = l
				}
				if r := w.rangesOf(fn); len(r) > 0 {
					ranges[w.funcKey(fn)] = r
				}
			}
		}
		data, _ = json.MarshalIndent(locals, "", " ")
		os.WriteFile(filepath.Join(*verif, "baseline", *prop+".locals.json"), data, 0o644)
		data, _ = json.MarshalIndent(ranges, "", " ")
		os.WriteFile(filepath.Join(*verif, "baseline", *prop+".ranges.json"), data, 0o644)
		return 0
	}
	var wg sync.WaitGroup
	sem := make(chan struct{}, 14)
	for _, fr := range results {
		fr := fr
		for _, f := range fr.Fatal {
			fatals = append(fatals, fr.Key+": "+f)
		}
		if fr.enc == nil {
			continue
		}
		e := fr.enc
		// vacuity covers
		if e.root != nil {
			covers := e.coverObligations()
			fr.Obls = append(fr.Obls, covers...)
		}
		dir := filepath.Join(outDir, mangle(strings.TrimPrefix(fr.Key, modulePrefix)))
		os.MkdirAll(dir, 0o755)
		for _, o := range fr.Obls {
			o := o
			if len(o.Props) > 0 && !hasProp(o.Props, *prop) {
				continue
			}
			file := filepath.Join(dir, mangle(o.ID)+".smt2")
			os.WriteFile(file, []byte(e.smtFor(o, false, nil)), 0o644)
			wg.Add(1)
			sem <- struct{}{}
			go func() {
				defer wg.Done()
				defer func() { <-sem }()
				r := solveOne(file, secs, allSolvers && !o.Negate)
				r.ID = o.ID
				mu.Lock()
				all = append(all, checkedObl{o, r, fr, fr.Key})
				mu.Unlock()
			}()
		}
	}
	wg.Wait()
	sort.Slice(all, func(i, j int) bool { return all[i].o.ID < all[j].o.ID })

	// findings / baseline
	var ff FindingsFile
	if data, err := os.ReadFile(filepath.Join(*verif, "known_findings.json")); err == nil {
		json.Unmarshal(data, &ff)
	}
	known := map[string]Finding{}
	for _, f := range ff.Findings {
		if f.Property == *prop && f.Status == "open" {
			known[f.Obligation] = f
		}
	}
	baselineFile := filepath.Join(*verif, "baseline", *prop+".json")
	var baseline []string
	if data, err := os.ReadFile(baselineFile); err == nil {
		json.Unmarshal(data, &baseline)
		sort.Strings(baseline)
	}

	// The ledger names obligations by site ordinal (post#2@ret3, nopanic/index#5).  A
	// harmless edit that adds or removes a return or an index expression renumbers the
	// sites, so exact names are only trusted for a clause whose number of sites is what
	// it was on the pinned tree (shape file).  For a clause whose site count changed the
	// rule is by count: no more sites may fail than were unclaimed on the pinned tree.
	var shape []string
	if data, err := os.ReadFile(filepath.Join(*verif, "baseline", *prop+".shape.json")); err == nil {
		json.Unmarshal(data, &shape)
	}
	haveShape := len(shape) > 0 && len(baseline) > 0 && !*strict
	baseCount, baseUnclaimed, nowCount := map[string]int{}, map[string]int{}, map[string]int{}
	for _, id := range shape {
		k := clauseKey(id)
		baseCount[k]++
		if !inList(baseline, id) {
			baseUnclaimed[k]++
		}
	}
	for _, co := range all {
		if !co.o.Negate {
			nowCount[clauseKey(co.o.ID)]++
		}
	}
	shapeChanged := func(k string) bool { return haveShape && nowCount[k] != baseCount[k] }
	pending := map[string][]checkedObl{}

	nObl, nDis := 0, 0
	retried := 0
	perFunc := map[string]*FuncEvidence{}
	for _, fr := range results {
		fe := &FuncEvidence{Func: fr.Key, Loops: fr.Loops, UsesContr: fr.Used, Inlined: fr.Inlined, Opaque: fr.Opaque, Abstracted: fr.Warnings}
		perFunc[fr.Key] = fe
	}
	var violations []string
	var unclaimed []interface{}
	var knownLines []string
	var samples []interface{}
	seenIDs := map[string]bool{}
	vacuous := 0
	// An ensures clause may assume the earlier clauses of the same return; it
	// counts as discharged only if those are discharged as well.
	verdictOf := map[string]string{}
	for _, co := range all {
		verdictOf[co.o.ID] = co.r.Verdict
	}
	for changed := true; changed; {
		changed = false
		for i := range all {
			co := &all[i]
			if co.r.Verdict != "unsat" || co.o.Negate {
				continue
			}
			for _, dep := range co.o.Deps {
				d := dep.ID
				if v, ok := verdictOf[d]; ok && v != "unsat" {
					co.r.Verdict = "assumes-undischarged:" + d
					verdictOf[co.o.ID] = co.r.Verdict
					changed = true
					break
				}
			}
		}
	}
	notClaimed := func(co checkedObl) {
		o, fe := co.o, perFunc[co.key]
		unclaimed = append(unclaimed, map[string]interface{}{"obligation": o.ID, "clause": o.Text, "at": o.PosStr, "verdict": co.r.Verdict})
		nObl--
		fe.Obligations--
		fe.Unclaimed++
	}
	violation := func(co checkedObl, note string) {
		o, r := co.o, co.r
		info := map[string]interface{}{"obligation": o.ID, "kind": o.Kind, "clause": o.Text, "at": o.PosStr, "function": co.key,
			"verdict": r.Verdict, "solver": r.Solver, "attempts": r.Attempts, "smt_file": r.File, "solver_output": truncate(r.Output, 4000)}
		if note != "" {
			info["note"] = note
		}
		suffix := " no-failing-input-found"
		if r.Verdict == "sat" {
			if rep := replayModel(w, co.fr, o, r, *verif, *prop, *repo); rep != nil {
				info["replay"] = rep
				if rep.Confirmed {
					suffix = ""
				}
			}
		}
		rp := writeReplay(*verif, *prop, o.ID, info)
		violations = append(violations, fmt.Sprintf("VIOLATION property=%s replay=%s%s", *prop, rp, suffix))
		if *verbose {
			fmt.Printf("  %-8s %s [%s] %s\n", r.Verdict, o.ID, o.PosStr, o.Text)
		}
	}
	for _, co := range all {
		o, r := co.o, co.r
		seenIDs[o.ID] = true
		fe := perFunc[co.key]
		if r.Solver != "" {
			b := byBackend[r.Solver]
			if b == nil {
				b = &struct {
					N     int
					Total float64
					Max   float64
				}{}
				byBackend[r.Solver] = b
			}
			b.N++
			b.Total += r.Seconds
			if r.Seconds > b.Max {
				b.Max = r.Seconds
			}
		}
		if o.Negate {
			// cover: unsat means vacuous
			if r.Verdict == "unsat" {
				vacuous++
				rp := writeReplay(*verif, *prop, o.ID, map[string]interface{}{"obligation": o.ID, "kind": "vacuity", "text": o.Text,
					"explanation": "the assumptions at this point are contradictory: everything after it would verify vacuously", "smt_file": r.File})
				violations = append(violations, fmt.Sprintf("VIOLATION property=%s replay=%s no-failing-input-found", *prop, rp))
			}
			continue
		}
		nObl++
		fe.Obligations++
		ok := r.Verdict == "unsat"
		if ok {
			nDis++
			fe.Discharged++
			if len(samples) < 6 {
				samples = append(samples, map[string]interface{}{"obligation": o.ID, "clause": o.Text, "at": o.PosStr, "verdict": r.Verdict, "solver": r.Solver, "seconds": round2(r.Seconds), "smt_file": r.File})
			}
			continue
		}
		if kf, isKnown := known[o.ID]; isKnown {
			knownLines = append(knownLines, fmt.Sprintf("KNOWN-FINDING: property=%s %s %s", *prop, o.ID, kf.What))
			nObl-- // known findings are reported separately, not in the claimed count
			fe.Obligations--
			continue
		}
		if strings.HasPrefix(r.Verdict, "assumes-undischarged:") {
			// proved only under an earlier clause that is itself not discharged: the
			// failure is reported on that clause; this one is not counted
			unclaimed = append(unclaimed, map[string]interface{}{"obligation": o.ID, "clause": o.Text, "at": o.PosStr, "verdict": r.Verdict})
			nObl--
			fe.Obligations--
			fe.Unclaimed++
			continue
		}
		// A claimed obligation that ends in timeout/unknown (no model) gets one more
		// attempt with three times the budget on all solvers before it is reported: on
		// a loaded machine a quantified query that usually takes a second can miss the
		// quick budget, and an alarm on a tree where the proof exists is a false alarm.
		if r.Verdict != "sat" && !*strict && len(baseline) > 0 && (inList(baseline, o.ID) || shapeChanged(clauseKey(o.ID))) {
			if r2 := solveOne(r.File, 3*secs, true); r2.Verdict == "unsat" {
				retried++
				nDis++
				fe.Discharged++
				continue
			}
		}
		if k := clauseKey(o.ID); shapeChanged(k) {
			pending[k] = append(pending[k], co) // decided by count below
			continue
		}
		if len(baseline) > 0 && !inList(baseline, o.ID) && !*strict {
			// stated but not part of the claim (never discharged robustly on the pinned tree)
			notClaimed(co)
			continue
		}
		violation(co, "")
	}
	var pkeys []string
	for k := range pending {
		pkeys = append(pkeys, k)
	}
	sort.Strings(pkeys)
	for _, k := range pkeys {
		for _, co := range pending[k] {
			if len(pending[k]) > baseUnclaimed[k] {
				violation(co, fmt.Sprintf("the sites of this clause were renumbered by the change (%d on the pinned tree, %d now); %d of them fail now, %d were unclaimed on the pinned tree", baseCount[k], nowCount[k], len(pending[k]), baseUnclaimed[k]))
			} else {
				notClaimed(co)
			}
		}
	}
	for _, f := range fatals {
		rp := writeReplay(*verif, *prop, "contract-error-"+fmt.Sprint(len(violations)), map[string]interface{}{"error": f,
			"explanation": "a contract could not be applied to the current source (function missing, loop missing, name unresolved): the property is not shown for this tree"})
		violations = append(violations, fmt.Sprintf("VIOLATION property=%s replay=%s no-failing-input-found", *prop, rp))
		if *verbose {
			fmt.Println("  fatal:", f)
		}
	}
	missingKey := map[string]bool{}
	for _, id := range baseline {
		if !seenIDs[id] {
			if _, isKnown := known[id]; isKnown {
				continue
			}
			if haveShape {
				// A renumbered clause is still checked at every site it has now.  A clause
				// with no site left is an alarm only if it states something (ensures,
				// invariant, decreases, lemma); a no-panic, precondition or frame class
				// without sites has nothing left that could go wrong.
				k := clauseKey(id)
				if nowCount[k] > 0 || missingKey[k] || !statesSomething(k) {
					continue
				}
				missingKey[k] = true
			}
			rp := writeReplay(*verif, *prop, "missing-"+id, map[string]interface{}{"obligation": id,
				"explanation": "this obligation was discharged on the pinned tree and is no longer generated (function or clause removed/renamed)"})
			violations = append(violations, fmt.Sprintf("VIOLATION property=%s replay=%s no-failing-input-found", *prop, rp))
		}
	}
	if *writeBaseline {
		robust := map[string]bool{}
		for _, co := range all {
			if !co.o.Negate && co.r.Verdict == "unsat" && co.r.Seconds <= float64(secs)*0.3 {
				robust[co.o.ID] = true
			}
		}
		for changed := true; changed; {
			changed = false
			for _, co := range all {
				if !robust[co.o.ID] {
					continue
				}
				for _, dep := range co.o.Deps {
					if d := dep.ID; d != "" && !robust[d] {
						delete(robust, co.o.ID)
						changed = true
						break
					}
				}
			}
		}
		var ids []string
		for id := range robust {
			ids = append(ids, id)
		}
		sort.Strings(ids)
		os.MkdirAll(filepath.Dir(baselineFile), 0o755)
		data, _ := json.MarshalIndent(ids, "", " ")
		os.WriteFile(baselineFile, data, 0o644)
		fmt.Printf("baseline: %d obligation IDs written to %s\n", len(ids), baselineFile)
	}

	// evidence
	for _, fr := range results {
		fe := perFunc[fr.Key]
		switch {
		case len(fr.Fatal) > 0:
			fe.Status = "failed: " + strings.Join(fr.Fatal, "; ")
		case fe.Unclaimed > 0 && fe.Obligations == fe.Discharged:
			fe.Status = fmt.Sprintf("partial: %d obligations stated but not discharged (not claimed)", fe.Unclaimed)
		case fe.Obligations == fe.Discharged && len(fr.Opaque) == 0:
			fe.Status = "proved"
		case fe.Obligations == fe.Discharged:
			fe.Status = "proved (modulo havocked opaque callees)"
		default:
			fe.Status = "not all obligations discharged"
		}
		funcs = append(funcs, *fe)
	}
	sort.Slice(funcs, func(i, j int) bool { return funcs[i].Func < funcs[j].Func })
	usedTrusted := map[string]bool{}
	for _, fr := range results {
		for _, u := range fr.Used {
			if c := w.cs.Contracts[u]; c != nil && (c.Trusted || isIfaceContract(u)) {
				usedTrusted[u] = true
			}
		}
	}
	var tb []string
	for k := range trusted {
		usedTrusted[k] = true
	}
	for k := range usedTrusted {
		tb = append(tb, "trusted contract: "+strings.TrimPrefix(k, modulePrefix+"/"))
	}
	sort.Strings(tb)
	tb = append(tb, "Go compiler/runtime, go/ssa construction, z3 4.8.12 / z3 5.1.0 / cvc5 1.0.3",
		"gocv translation (Int-mode integers with explicit wrap-around; heap as per-field arrays; see DESIGN.md 3.2)")
	assumptions = append(assumptions, w.cs.Scan...)
	assumptions = append(assumptions,
		"sequential execution: mutex operations are no-ops; no interference from other goroutines",
		"logging/stats/tracing/fmt/errors calls are heap-neutral and do not panic",
		"machine words: &,|,^,&^ and popcount axiomatised pointwise over bits 0..63 (bitAxioms), not bit-blasted",
		"uncontracted callees outside the inlining limits are havocked over their inferred mod-set and assumed not to panic",
	)
	backend := map[string]interface{}{}
	for k, b := range byBackend {
		backend[k] = map[string]interface{}{"decided": b.N, "total_s": round2(b.Total), "max_s": round2(b.Max)}
	}
	// bounded stand-ins registered for this property (separate block, never counted as discharged)
	var bounded *boundedOutcome
	if len(idx.Props[*prop]) > 0 && !*noBounded {
		knownB := map[string]Finding{}
		for k, v := range known {
			knownB[k] = v
		}
		bounded = runBounded(*verif, *repo, *prop, *tier, seed, idx, knownB)
		violations = append(violations, bounded.Violations...)
		knownLines = append(knownLines, bounded.KnownLines...)
	}
	level := "proof"
	cov := map[string]interface{}{
		"obligations":              nObl,
		"discharged":               nDis,
		"checker_cmd":              fmt.Sprintf("gocv check --prop %s --tier %s  (per obligation: z3-new -T:%d | z3 -T:%d | cvc5 --tlimit=%d, raced; files under %s)", *prop, *tier, secs, secs, secs*1000, outDir),
		"trusted_base":             tb,
		"functions_under_contract": funcs,
		"by_backend":               backend,
		"samples":                  samples,
		"known_findings":           knownLines,
		"stated_not_discharged":    unclaimed,
		"vacuity_checks_failed":    vacuous,
		"load_s":                   round2(loadS),
		"vcgen_s":                  round2(genS),
		"contract_files":           w.cs.Files,
	}
	if bounded != nil {
		cov["bounded"] = bounded.Blocks
	}
	ev := Evidence{PropertyID: *prop, Tier: *tier, Seed: seed, Level: level, Coverage: cov, Assumptions: assumptions,
		WallS: round2(time.Since(t0).Seconds()), Violations: len(violations)}
	// bounded blocks (rcheck) are merged by the caller script when present
	if !*noEvidence {
		os.MkdirAll(filepath.Join(*verif, "evidence"), 0o755)
		data, _ := json.MarshalIndent(ev, "", " ")
		os.WriteFile(filepath.Join(*verif, "evidence", *prop+".json"), data, 0o644)
	}
	for _, l := range knownLines {
		fmt.Println(l)
	}
	for _, v := range violations {
		fmt.Println(v)
	}
	if retried > 0 {
		fmt.Printf("note: %d obligation(s) discharged only on the second attempt (three times the solver budget)\n", retried)
	}
	fmt.Printf("property %s: %d/%d obligations discharged over %d functions (%d trusted), %d known findings, %d violations, %.1fs\n",
		*prop, nDis, nObl, len(results), len(trusted), len(knownLines), len(violations), time.Since(t0).Seconds())
	if len(violations) > 0 {
		return 1
	}
	if nObl == 0 {
		fmt.Printf("VIOLATION property=%s replay=none no-failing-input-found (zero obligations generated)\n", *prop)
		return 1
	}
	return 0
}

func inList(l []string, x string) bool {
	i := sort.SearchStrings(l, x)
	return i < len(l) && l[i] == x
}

func isIfaceContract(key string) bool {
	// pkg.(Iface).Method without '*'
	i := strings.Index(key, ".(")
	if i < 0 {
		return false
	}
	return !strings.HasPrefix(key[i+2:], "*") && strings.Contains(key[i+2:], ").")
}

func round2(f float64) float64 { return float64(int(f*100+0.5)) / 100 }

func truncate(s string, n int) string {
	if len(s) > n {
		return s[:n] + "...[truncated]"
	}
	return s
}

func writeReplay(verif, prop, id string, info map[string]interface{}) string {
	dir := filepath.Join(verif, "out", "replay", prop)
	os.MkdirAll(dir, 0o755)
	p := filepath.Join(dir, mangle(id)+".json")
	info["property"] = prop
	data, _ := json.MarshalIndent(info, "", " ")
	os.WriteFile(p, data, 0o644)
	return p
}

// coverObligations: reachability / non-vacuity queries (want SAT).
func (e *Enc) coverObligations() []*Oblig {
	var out []*Oblig
	short := strings.TrimPrefix(strings.TrimPrefix(e.w.funcKey(e.root), modulePrefix+"/"), modulePrefix+".")
	out = append(out, &Oblig{ID: short + "/cover/entry", Kind: "cover", Guard: "true", Formula: "true", Prefix: e.preLen, Negate: true,
		Text: "precondition is satisfiable", Func: e.w.funcKey(e.root)})
	out = append(out, &Oblig{ID: short + "/cover/body", Kind: "cover", Guard: "true", Formula: "true", Prefix: len(e.body), Negate: true,
		Text: "assumptions of the whole body (callee postconditions, invariants) are consistent", Func: e.w.funcKey(e.root)})
	return out
}

var siteOrdinal = regexp.MustCompile(`(@ret\d+|#\d+)$`)

// clauseKey strips the site ordinal from an obligation ID: post#2@ret3 -> post#2,
// nopanic/index#5 -> nopanic/index, pre#1:callee#2 -> pre#1:callee.
func clauseKey(id string) string { return siteOrdinal.ReplaceAllString(id, "") }

func statesSomething(key string) bool {
	for _, m := range []string{"/post#", "/inv#", "/dec/", ".lemma/", "/frameinv/"} {
		if strings.Contains(key, m) {
			return true
		}
	}
	return false
}
