package main

import (
	"encoding/json"
	"go/ast"
	"go/token"
	"go/types"
	"os"
	"path/filepath"
	"sort"

	"golang.org/x/tools/go/ssa"
)

// Loop invariants live in a comment file and name local variables of the function
// they annotate.  A tool that keeps the invariant in the code would have it renamed
// together with the variable; here a pure rename would leave the invariant pointing at
// a name that no longer exists.  To keep such a harmless edit from raising an alarm the
// declared locals of every function under contract are recorded on the pinned tree
// (baseline/<prop>.locals.json, written by --write-shape); when a name in a clause does
// not resolve, the recorded declaration sequence is aligned with the current one and the
// name is followed to the local that took its place.  The alignment only proposes a
// name; every obligation is still generated from, and proved over, the current source,
// so a wrong proposal can make a proof fail but never makes one pass that should not.

// LocalDecl is one declared local variable in source order.
type LocalDecl struct {
	Name string `json:"name"`
	Type string `json:"type"`
}

// localsOf lists the local variable declarations of fn (:=, var, range) in source order.
func (w *World) localsOf(fn *ssa.Function) []LocalDecl {
	syn := fn.Syntax()
	if syn == nil || fn.Pkg == nil {
		return nil
	}
	var body *ast.BlockStmt
	switch n := syn.(type) {
	case *ast.FuncDecl:
		body = n.Body
	case *ast.FuncLit:
		body = n.Body
	}
	if body == nil {
		return nil
	}
	scope := fn.Pkg.Pkg.Scope()
	type decl struct {
		LocalDecl
		pos token.Pos
	}
	var out []decl
	seen := map[token.Pos]bool{}
	add := func(id *ast.Ident) {
		if id == nil || id.Name == "_" || seen[id.Pos()] {
			return
		}
		sc := scope.Innermost(id.Pos())
		if sc == nil {
			return
		}
		// the object is visible right after the declaring statement; look it up from
		// the end of the innermost scope and keep it only if this ident declares it
		for s := sc; s != nil && s != scope; s = s.Parent() {
			if obj := s.Lookup(id.Name); obj != nil {
				if v, ok := obj.(*types.Var); ok && v.Pos() == id.Pos() {
					seen[id.Pos()] = true
					out = append(out, decl{LocalDecl{id.Name, types.TypeString(v.Type(), func(p *types.Package) string { return p.Name() })}, id.Pos()})
				}
				return
			}
		}
	}
	ast.Inspect(body, func(n ast.Node) bool {
		switch x := n.(type) {
		case *ast.FuncLit:
			return false // closures are functions of their own
		case *ast.AssignStmt:
			if x.Tok == token.DEFINE {
				for _, l := range x.Lhs {
					if id, ok := l.(*ast.Ident); ok {
						add(id)
					}
				}
			}
		case *ast.RangeStmt:
			if x.Tok == token.DEFINE {
				if id, ok := x.Key.(*ast.Ident); ok {
					add(id)
				}
				if id, ok := x.Value.(*ast.Ident); ok {
					add(id)
				}
			}
		case *ast.ValueSpec:
			for _, id := range x.Names {
				add(id)
			}
		}
		return true
	})
	sort.SliceStable(out, func(i, j int) bool { return out[i].pos < out[j].pos })
	res := make([]LocalDecl, len(out))
	for i, d := range out {
		res[i] = d.LocalDecl
	}
	return res
}

// loadPinnedLocals merges baseline/*.locals.json.
func loadPinnedLocals(verif string) map[string][]LocalDecl {
	out := map[string][]LocalDecl{}
	files, _ := filepath.Glob(filepath.Join(verif, "baseline", "*.locals.json"))
	sort.Strings(files)
	for _, f := range files {
		data, err := os.ReadFile(f)
		if err != nil {
			continue
		}
		var m map[string][]LocalDecl
		if json.Unmarshal(data, &m) == nil {
			for k, v := range m {
				out[k] = v
			}
		}
	}
	return out
}

// renameMap aligns the pinned declaration sequence with the current one and returns,
// for every pinned name that no longer exists, the new name that took its place.
// Two declarations can be aligned when they have the same type and either the same name
// or (old name gone, new name not known on the pinned tree).  The alignment is a longest
// common subsequence; ties are broken towards the end of the function (helper variables
// are usually introduced at the top).
func renameMap(pinned, current []LocalDecl) map[string]string {
	curNames, pinNames := map[string]bool{}, map[string]bool{}
	for _, d := range current {
		curNames[d.Name] = true
	}
	for _, d := range pinned {
		pinNames[d.Name] = true
	}
	gone := false
	for _, d := range pinned {
		if !curNames[d.Name] {
			gone = true
		}
	}
	if !gone {
		return nil
	}
	match := func(a, b LocalDecl) bool {
		if a.Type != b.Type {
			return false
		}
		if a.Name == b.Name {
			return true
		}
		return !curNames[a.Name] && !pinNames[b.Name]
	}
	n, m := len(pinned), len(current)
	// L[i][j]: LCS of pinned[:i], current[:j]; backtracking from the end prefers matches
	// near the end.
	L := make([][]int, n+1)
	for i := range L {
		L[i] = make([]int, m+1)
	}
	for i := 1; i <= n; i++ {
		for j := 1; j <= m; j++ {
			L[i][j] = L[i-1][j]
			if L[i][j-1] > L[i][j] {
				L[i][j] = L[i][j-1]
			}
			if match(pinned[i-1], current[j-1]) && L[i-1][j-1]+1 > L[i][j] {
				L[i][j] = L[i-1][j-1] + 1
			}
		}
	}
	out := map[string]string{}
	for i, j := n, m; i > 0 && j > 0; {
		switch {
		case match(pinned[i-1], current[j-1]) && L[i][j] == L[i-1][j-1]+1:
			if pinned[i-1].Name != current[j-1].Name {
				if _, dup := out[pinned[i-1].Name]; !dup {
					out[pinned[i-1].Name] = current[j-1].Name
				}
			}
			i, j = i-1, j-1
		case L[i][j] == L[i][j-1]:
			j--
		default:
			i--
		}
	}
	return out
}

// loadPinnedRanges merges baseline/*.ranges.json.
func loadPinnedRanges(verif string) map[string]map[string]string {
	out := map[string]map[string]string{}
	files, _ := filepath.Glob(filepath.Join(verif, "baseline", "*.ranges.json"))
	sort.Strings(files)
	for _, f := range files {
		data, err := os.ReadFile(f)
		if err != nil {
			continue
		}
		var m map[string]map[string]string
		if json.Unmarshal(data, &m) == nil {
			for k, v := range m {
				out[k] = v
			}
		}
	}
	return out
}
