package main

import (
	"flag"
	"fmt"
	"os"
	"sort"
	"strings"
	"time"
)

func usage() {
	fmt.Fprintln(os.Stderr, "usage: gocv func|dump|check|baseline|replay ...")
	os.Exit(2)
}

func main() {
	if len(os.Args) < 2 {
		usage()
	}
	switch os.Args[1] {
	case "func", "dump":
		cmdFunc(os.Args[1], os.Args[2:])
	case "check":
		os.Exit(cmdCheck(os.Args[2:]))
	default:
		usage()
	}
}

func pkgOfKey(key string) string {
	// github.com/pilosa/pilosa/roaring.(*Container).x -> ./roaring
	rest := strings.TrimPrefix(key, modulePrefix)
	i := strings.Index(rest, ".")
	if i < 0 {
		return "."
	}
	p := rest[:i]
	if p == "" {
		return "."
	}
	return "." + p
}

func cmdFunc(mode string, args []string) {
	fs := flag.NewFlagSet("func", flag.ExitOnError)
	repo := fs.String("repo", "/repo", "repository")
	secs := fs.Int("t", 10, "solver timeout")
	out := fs.String("out", "/verif/out/dbg", "output dir")
	verbose := fs.Bool("v", false, "verbose")
	fs.Parse(args)
	keys := fs.Args()
	pats := map[string]bool{}
	for i, k := range keys {
		if strings.HasPrefix(k, ".") {
			keys[i] = modulePrefix + k
		} else if !strings.HasPrefix(k, modulePrefix) {
			keys[i] = modulePrefix + "/" + k
			if strings.HasPrefix(k, ".") || !strings.Contains(k, "/") && !strings.Contains(strings.SplitN(k, ".", 2)[0], "(") && false {
			}
		}
		pats[pkgOfKey(keys[i])] = true
	}
	var pl []string
	for p := range pats {
		pl = append(pl, p)
	}
	t0 := time.Now()
	w, err := LoadWorld(*repo, pl)
	if err != nil {
		fmt.Fprintln(os.Stderr, "load:", err)
		os.Exit(2)
	}
	fmt.Printf("loaded in %.1fs, %d contracts\n", time.Since(t0).Seconds(), len(w.cs.Contracts))
	for _, key := range keys {
		c := w.cs.Contracts[key]
		if mode == "dump" {
			if fn := w.funcs[key]; fn != nil {
				fn.WriteTo(os.Stdout)
			}
		}
		var fr *FuncResult
		if i := strings.Index(key, "lemma:"); i >= 0 {
			lm := w.findLemma(key[i+6:])
			if lm == nil {
				fmt.Println("no such lemma", key)
				continue
			}
			fr = w.VerifyLemma(lm)
		} else {
			fr = w.VerifyFunc(key, c)
		}
		for _, f := range fr.Fatal {
			fmt.Println("FATAL:", f)
		}
		for _, wn := range fr.Warnings {
			fmt.Println("warn:", wn)
		}
		fmt.Printf("%s: %d obligations; used=%v inlined=%d opaque=%v\n", key, len(fr.Obls), fr.Used, len(fr.Inlined), fr.Opaque)
		if fr.enc == nil {
			continue
		}
		res := solveAll(fr, *out, *secs, false, 8)
		var ids []string
		for id := range res {
			ids = append(ids, id)
		}
		sort.Strings(ids)
		nok := 0
		for _, id := range ids {
			r := res[id]
			if r.Verdict == "unsat" {
				nok++
				if !*verbose {
					continue
				}
			}
			var o *Oblig
			for _, x := range fr.Obls {
				if x.ID == id {
					o = x
				}
			}
			fmt.Printf("  %-8s %-60s %s %.2fs  [%s] %s\n", r.Verdict, id, r.Solver, r.Seconds, o.PosStr, o.Text)
		}
		fmt.Printf("  discharged %d/%d\n", nok, len(ids))
	}
}
