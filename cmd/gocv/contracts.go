package main

// Contract files: comment-only Go files `verif_contracts*.go` (build tag verif) in
// the package directories of /repo.  Every directive is a `//@` comment line.
//
//   //@ spec name(p T, q U) = expr                 macro spec function (expanded at use)
//   //@ rec name(p sort, ...) sort = expr          recursive spec function (UF + unfolding axiom)
//   //@ axiom name(p sort, ...) :: expr            assumed fact (listed in evidence)
//   //@ lemma name(p sort, ...) :: requires e :: ensures e :: induction k
//   //@ ghost T.$name type                         ghost field on struct T
//   //@ contract <func> [props C01,C02] [trusted] [opaque]
//   //@   requires e
//   //@   ensures e
//   //@   modifies a, b.f, elems(s), nothing
//   //@   loop k invariant e
//   //@   loop k decreases e
//   //@   assert at <label> e                      (unused for now)
//   //@ | continuation of the previous clause
//
// <func> is `Name`, `(*T).Name`, `(T).Name`, `Outer$1` (closure), or
// `(Iface).Method` for interface-level contracts.

import (
	"bufio"
	"fmt"
	"os"
	"path/filepath"
	"regexp"
	"sort"
	"strings"
)

type Clause struct {
	Kind string // requires ensures modifies invariant decreases
	Text string
	Expr *Spec
	Loop int
	Tags []string // property tags on the clause (override function tags)
	Line int
	File string
	Name string // optional clause label
	// ghostdef: this ensures clause defines a ghost field pointwise at return
	GhostOwner *Spec
	GhostField string
}

type ParamDecl struct {
	Name string
	Type string
}

type SpecFunc struct {
	Name     string
	Params   []ParamDecl
	Ret      string
	Body     *Spec
	Text     string
	Rec      bool
	Uninterp bool
	Pkg      string
	File     string
	Line     int
}

type Axiom struct {
	Name   string
	Params []ParamDecl
	Body   *Spec
	Text   string
	Pkg    string
}

type Lemma struct {
	Name     string
	Params   []ParamDecl
	Requires []*Spec
	Ensures  []*Spec
	Induct   string
	Uses     []string
	Props    []string
	Pattern  []*Spec
	Pkg      string
	Text     string
}

type GhostField struct {
	Struct string
	Name   string
	Type   string
	Pkg    string
}

type Contract struct {
	Pkg      string // package path
	Func     string // as written
	Props    []string
	Trusted  bool // contract assumed, body not verified
	Opaque   bool // never inline
	MayPanic bool
	Pure     bool
	Requires []*Clause
	Ensures  []*Clause
	Modifies []string
	HasMod   bool
	LoopInv  map[int][]*Clause
	LoopDec  map[int]*Clause
	File     string
	Line     int
	Bounded  string
	Lemmas   []string
	Inlines  []string // callees analysed by body at call sites of this function
	Variants []string // callee contract variants (F#tag) to use at call sites of this function
}

type ContractSet struct {
	Contracts map[string]*Contract // key: pkgpath + "." + Func
	Specs     map[string]*SpecFunc // by name (global namespace)
	Axioms    []*Axiom
	Lemmas    []*Lemma
	Ghosts    map[string]*GhostField // pkg.T.$name
	ByRef     map[string]bool        // pkg.T
	Files     []string
	Scan      []string // mechanically scanned assumptions (trusted / axiom lines)
}

func parseParams(s string) ([]ParamDecl, error) {
	s = strings.TrimSpace(s)
	if s == "" {
		return nil, nil
	}
	var out []ParamDecl
	depth := 0
	start := 0
	var parts []string
	for i, c := range s {
		switch c {
		case '(', '[', '<':
			depth++
		case ')', ']', '>':
			depth--
		case ',':
			if depth == 0 {
				parts = append(parts, s[start:i])
				start = i + 1
			}
		}
	}
	parts = append(parts, s[start:])
	for _, p := range parts {
		p = strings.TrimSpace(p)
		f := strings.SplitN(p, " ", 2)
		if len(f) != 2 {
			return nil, fmt.Errorf("bad param %q", p)
		}
		out = append(out, ParamDecl{Name: strings.TrimSpace(f[0]), Type: strings.TrimSpace(f[1])})
	}
	// allow "a, b int": fill types backwards
	return out, nil
}

// splitHead parses `name(params) rest`.
func splitHead(s string) (name, params, rest string, err error) {
	i := strings.Index(s, "(")
	if i < 0 {
		return "", "", "", fmt.Errorf("expected ( in %q", s)
	}
	name = strings.TrimSpace(s[:i])
	depth := 0
	for j := i; j < len(s); j++ {
		if s[j] == '(' {
			depth++
		} else if s[j] == ')' {
			depth--
			if depth == 0 {
				return name, s[i+1 : j], strings.TrimSpace(s[j+1:]), nil
			}
		}
	}
	return "", "", "", fmt.Errorf("unbalanced ( in %q", s)
}

func LoadContracts(repo string, pkgDirs map[string]string) (*ContractSet, error) {
	cs := &ContractSet{Contracts: map[string]*Contract{}, Specs: map[string]*SpecFunc{}, Ghosts: map[string]*GhostField{}, ByRef: map[string]bool{}}
	var pkgs []string
	for p := range pkgDirs {
		pkgs = append(pkgs, p)
	}
	sort.Strings(pkgs)
	for _, pkg := range pkgs {
		files, _ := filepath.Glob(filepath.Join(pkgDirs[pkg], "verif_contracts*.go"))
		sort.Strings(files)
		for _, f := range files {
			if err := cs.loadFile(pkg, f); err != nil {
				return nil, err
			}
			cs.Files = append(cs.Files, f)
		}
	}
	return cs, nil
}

func (cs *ContractSet) loadFile(pkg, file string) error {
	fh, err := os.Open(file)
	if err != nil {
		return err
	}
	defer fh.Close()
	type rawLine struct {
		text string
		line int
	}
	var lines []rawLine
	sc := bufio.NewScanner(fh)
	sc.Buffer(make([]byte, 1<<20), 1<<20)
	ln := 0
	for sc.Scan() {
		ln++
		t := strings.TrimSpace(sc.Text())
		if !strings.HasPrefix(t, "//@") {
			continue
		}
		t = strings.TrimPrefix(t, "//@")
		// strip trailing comment  "  // ..."
		if i := strings.Index(t, " // "); i >= 0 {
			t = t[:i]
		}
		tt := strings.TrimSpace(t)
		if tt == "" {
			continue
		}
		if strings.HasPrefix(tt, "|") && len(lines) > 0 {
			lines[len(lines)-1].text += " " + strings.TrimSpace(tt[1:])
			continue
		}
		lines = append(lines, rawLine{tt, ln})
	}
	var cur *Contract
	var curLemma *Lemma
	for _, rl := range lines {
		t := rl.text
		word := t
		rest := ""
		if i := strings.IndexAny(t, " \t"); i >= 0 {
			word, rest = t[:i], strings.TrimSpace(t[i+1:])
		}
		fail := func(e error) error { return fmt.Errorf("%s:%d: %v", file, rl.line, e) }
		if word != "requires" && word != "ensures" && word != "induction" && word != "pattern" {
			curLemma = nil
		}
		switch word {
		case "spec", "rec":
			name, params, r, err := splitHead(rest)
			if err != nil {
				return fail(err)
			}
			pd, err := parseParams(params)
			if err != nil {
				return fail(err)
			}
			i := strings.Index(r, "=")
			if i < 0 {
				return fail(fmt.Errorf("spec needs '='"))
			}
			ret := strings.TrimSpace(r[:i])
			body, err := ParseSpec(r[i+1:])
			if err != nil {
				return fail(err)
			}
			if _, dup := cs.Specs[name]; dup {
				return fail(fmt.Errorf("duplicate spec %s", name))
			}
			cs.Specs[name] = &SpecFunc{Name: name, Params: pd, Ret: ret, Body: body, Text: r[i+1:], Rec: word == "rec", Pkg: pkg, File: file, Line: rl.line}
			cur = nil
		case "axiom":
			name, params, r, err := splitHead(rest)
			if err != nil {
				return fail(err)
			}
			pd, err := parseParams(params)
			if err != nil {
				return fail(err)
			}
			r = strings.TrimPrefix(r, "::")
			body, err := ParseSpec(r)
			if err != nil {
				return fail(err)
			}
			cs.Axioms = append(cs.Axioms, &Axiom{Name: name, Params: pd, Body: body, Text: r, Pkg: pkg})
			cs.Scan = append(cs.Scan, fmt.Sprintf("axiom %s (%s:%d): %s", name, filepath.Base(file), rl.line, strings.TrimSpace(r)))
			cur = nil
		case "lemma":
			name, params, r, err := splitHead(rest)
			if err != nil {
				return fail(err)
			}
			pd, err := parseParams(params)
			if err != nil {
				return fail(err)
			}
			lm := &Lemma{Name: name, Params: pd, Pkg: pkg, Text: r}
			f := strings.Fields(r)
			for i := 0; i < len(f); i++ {
				if f[i] == "props" && i+1 < len(f) {
					lm.Props = strings.Split(f[i+1], ",")
					i++
				}
			}
			cs.Lemmas = append(cs.Lemmas, lm)
			cur = nil
			curLemma = lm
			continue
		case "induction", "pattern":
			if curLemma == nil {
				return fail(fmt.Errorf("%s outside lemma", word))
			}
			if word == "induction" {
				curLemma.Induct = rest
			} else {
				e, err := ParseSpec("pat(" + rest + ")")
				if err != nil {
					return fail(err)
				}
				curLemma.Pattern = e.Args
			}
			continue
		case "uf":
			// uninterpreted spec function: uf name(p sort, ...) sort
			name, params, r, err := splitHead(rest)
			if err != nil {
				return fail(err)
			}
			pd, err := parseParams(params)
			if err != nil {
				return fail(err)
			}
			if _, dup := cs.Specs[name]; dup {
				return fail(fmt.Errorf("duplicate spec %s", name))
			}
			cs.Specs[name] = &SpecFunc{Name: name, Params: pd, Ret: strings.TrimSpace(r), Rec: true, Uninterp: true, Pkg: pkg, File: file, Line: rl.line}
			cur = nil
		case "byref":
			// struct type whose slice elements are addressed (&s[i] escapes):
			// elements are modelled as objects with identity
			for _, tn := range strings.Fields(rest) {
				cs.ByRef[pkg+"."+tn] = true
			}
			cur = nil
		case "ghost":
			f := strings.SplitN(rest, " ", 2)
			if len(f) != 2 {
				return fail(fmt.Errorf("ghost T.$name type"))
			}
			i := strings.Index(f[0], ".")
			if i < 0 {
				return fail(fmt.Errorf("ghost T.$name type"))
			}
			g := &GhostField{Struct: f[0][:i], Name: f[0][i+1:], Type: strings.TrimSpace(f[1]), Pkg: pkg}
			cs.Ghosts[pkg+"."+g.Struct+"."+g.Name] = g
			cur = nil
		case "contract":
			f := strings.Fields(rest)
			if len(f) == 0 {
				return fail(fmt.Errorf("contract needs a function"))
			}
			c := &Contract{Pkg: pkg, Func: f[0], LoopInv: map[int][]*Clause{}, LoopDec: map[int]*Clause{}, File: file, Line: rl.line}
			for i := 1; i < len(f); i++ {
				switch f[i] {
				case "props":
					if i+1 < len(f) {
						c.Props = strings.Split(f[i+1], ",")
						i++
					}
				case "trusted":
					c.Trusted = true
					cs.Scan = append(cs.Scan, fmt.Sprintf("trusted contract %s.%s (%s:%d)", pkg, c.Func, filepath.Base(file), rl.line))
				case "opaque":
					c.Opaque = true
				case "maypanic":
					c.MayPanic = true
				case "pure":
					c.Pure = true
				default:
					return fail(fmt.Errorf("unknown contract attribute %q", f[i]))
				}
			}
			key := pkg + "." + c.Func
			if _, dup := cs.Contracts[key]; dup {
				return fail(fmt.Errorf("duplicate contract %s", key))
			}
			cs.Contracts[key] = c
			cur = c
		case "requires", "ensures":
			if curLemma != nil {
				e, err := ParseSpec(rest)
				if err != nil {
					return fail(err)
				}
				if word == "requires" {
					curLemma.Requires = append(curLemma.Requires, e)
				} else {
					curLemma.Ensures = append(curLemma.Ensures, e)
				}
				continue
			}
			if cur == nil {
				return fail(fmt.Errorf("%s outside contract", word))
			}
			cl := &Clause{Kind: word, Line: rl.line, File: file}
			// optional [C01,C02] tag and optional name:
			if strings.HasPrefix(rest, "[") {
				j := strings.Index(rest, "]")
				cl.Tags = strings.Split(rest[1:j], ",")
				rest = strings.TrimSpace(rest[j+1:])
			}
			cl.Text = rest
			e, err := ParseSpec(rest)
			if err != nil {
				return fail(err)
			}
			cl.Expr = e
			if word == "requires" {
				cur.Requires = append(cur.Requires, cl)
			} else {
				cur.Ensures = append(cur.Ensures, cl)
			}
		case "ghostdef":
			// ghostdef OWNER.$f[x] := EXPR   -- at return the ghost set/map OWNER.$f is
			// redefined pointwise: for all x, OWNER.$f[x] == EXPR (EXPR may use old()).
			// For callers it reads: modifies OWNER.$f, ensures forall x :: OWNER.$f[x] == EXPR.
			if cur == nil {
				return fail(fmt.Errorf("ghostdef outside contract"))
			}
			parts := strings.SplitN(rest, ":=", 2)
			gm := regexp.MustCompile(`^(.+)\.(\$\w+)\[(\w+)\]$`).FindStringSubmatch(strings.TrimSpace(parts[0]))
			if len(parts) != 2 || gm == nil {
				return fail(fmt.Errorf("ghostdef: want OWNER.$f[x] := EXPR"))
			}
			owner, err := ParseSpec(gm[1])
			if err != nil {
				return fail(err)
			}
			text := fmt.Sprintf("forall %s :: (%s.%s[%s]) == (%s)", gm[3], gm[1], gm[2], gm[3], strings.TrimSpace(parts[1]))
			ex, err := ParseSpec(text)
			if err != nil {
				return fail(err)
			}
			cur.Ensures = append(cur.Ensures, &Clause{Kind: "ensures", Line: rl.line, File: file, Text: "ghostdef " + rest, Expr: ex, GhostOwner: owner, GhostField: gm[2]})
			cur.HasMod = cur.HasMod || cur.Trusted
			cur.Modifies = append(cur.Modifies, gm[1]+"."+gm[2])
		case "modifies":
			if cur == nil {
				return fail(fmt.Errorf("modifies outside contract"))
			}
			cur.HasMod = true
			for _, m := range splitTopLevel(rest) {
				m = strings.TrimSpace(m)
				if m != "" && m != "nothing" {
					cur.Modifies = append(cur.Modifies, m)
				}
			}
		case "variant":
			if cur == nil {
				return fail(fmt.Errorf("variant outside contract"))
			}
			for _, l := range strings.Split(rest, ",") {
				cur.Variants = append(cur.Variants, strings.TrimSpace(l))
			}
		case "inlines":
			if cur == nil {
				return fail(fmt.Errorf("inlines outside contract"))
			}
			for _, l := range strings.Split(rest, ",") {
				cur.Inlines = append(cur.Inlines, strings.TrimSpace(l))
			}
		case "lemma!", "uses":
			if cur == nil {
				return fail(fmt.Errorf("uses outside contract"))
			}
			for _, l := range strings.Split(rest, ",") {
				cur.Lemmas = append(cur.Lemmas, strings.TrimSpace(l))
			}
		case "bounded":
			if cur == nil {
				return fail(fmt.Errorf("bounded outside contract"))
			}
			cur.Bounded = rest
		case "loop":
			if cur == nil {
				return fail(fmt.Errorf("loop outside contract"))
			}
			var k int
			var kw string
			n, _ := fmt.Sscanf(rest, "%d %s", &k, &kw)
			if n != 2 {
				return fail(fmt.Errorf("loop <k> invariant|decreases e"))
			}
			i := strings.Index(rest, kw)
			body := strings.TrimSpace(rest[i+len(kw):])
			cl := &Clause{Kind: kw, Loop: k, Line: rl.line, File: file}
			if strings.HasPrefix(body, "[") {
				j := strings.Index(body, "]")
				cl.Tags = strings.Split(body[1:j], ",")
				body = strings.TrimSpace(body[j+1:])
			}
			cl.Text = body
			e, err := ParseSpec(body)
			if err != nil {
				return fail(err)
			}
			cl.Expr = e
			switch kw {
			case "invariant":
				cur.LoopInv[k] = append(cur.LoopInv[k], cl)
			case "decreases":
				cur.LoopDec[k] = cl
			default:
				return fail(fmt.Errorf("loop <k> invariant|decreases e"))
			}
		default:
			return fail(fmt.Errorf("unknown directive %q", word))
		}
	}
	return nil
}

// splitTopLevel splits at commas that are not inside parentheses or brackets.
func splitTopLevel(t string) []string {
	var out []string
	depth, start := 0, 0
	for i, ch := range t {
		switch ch {
		case '(', '[':
			depth++
		case ')', ']':
			depth--
		case ',':
			if depth == 0 {
				out = append(out, t[start:i])
				start = i + 1
			}
		}
	}
	return append(out, t[start:])
}

// inlinesCallee reports whether the contract asks for callee key (full function key) to
// be inlined; entries are written like contract names, e.g. (*op).apply.
func (c *Contract) inlinesCallee(key string) bool {
	for _, n := range c.Inlines {
		if n != "" && strings.HasSuffix(key, "."+n) {
			return true
		}
	}
	return false
}

// variantOf returns the key of the contract variant this contract wants for callee key.
func (c *Contract) variantOf(key string) string {
	for _, v := range c.Variants {
		if i := strings.Index(v, "#"); i > 0 && strings.HasSuffix(key, "."+v[:i]) {
			return key + v[i:]
		}
	}
	return ""
}
