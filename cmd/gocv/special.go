package main

// Built-in models for a fixed list of library functions.

import (
	"fmt"
	"go/token"
	"go/types"
	"math/big"
	"strings"

	"golang.org/x/tools/go/ssa"
)

func (e *Enc) special(fr *Frame, val ssa.Value, callee *ssa.Function, full string, cc *ssa.CallCommon, args []Operand, g string, h *Heap, pos token.Pos) (*Heap, bool) {
	set := func(term string) {
		if val != nil {
			e.setOp(fr, val, term)
		}
	}
	byteKey := func() string { return e.elemKey(types.Typ[types.Uint8]) }
	switch full {
	case "sort.Search":
		return e.sortSearch(fr, val, args, g, h, pos), true
	case "math/bits.OnesCount64", "math/bits.OnesCount32", "math/bits.OnesCount16", "math/bits.OnesCount8", "math/bits.OnesCount":
		set(fmt.Sprintf("(popcount %s)", args[0].v.T))
		return h, true
	case "math/bits.TrailingZeros64":
		set(fmt.Sprintf("(tz64 %s)", args[0].v.T))
		x, r := args[0].v.T, fr.ops[val].v.T
		e.assume(g, fmt.Sprintf("(ite (= %s 0) (= %s 64) (and (<= 0 %s) (< %s 64) (bit %s %s) (forall ((j!t Int)) (=> (and (<= 0 j!t) (< j!t %s)) (not (bit %s j!t))))))", x, r, r, r, x, r, r, x))
		return h, true
	case "math/bits.LeadingZeros64":
		set(fmt.Sprintf("(lz64 %s)", args[0].v.T))
		x, r := args[0].v.T, fr.ops[val].v.T
		e.assume(g, fmt.Sprintf("(ite (= %s 0) (= %s 64) (and (<= 0 %s) (< %s 64) (bit %s (- 63 %s)) (forall ((j!t Int)) (=> (and (< (- 63 %s) j!t) (< j!t 64)) (not (bit %s j!t))))))", x, r, r, r, x, r, r, x))
		return h, true
	case "(encoding/binary.littleEndian).Uint16", "(encoding/binary.littleEndian).Uint32", "(encoding/binary.littleEndian).Uint64",
		"(encoding/binary.bigEndian).Uint16", "(encoding/binary.bigEndian).Uint32", "(encoding/binary.bigEndian).Uint64":
		n := 2
		if strings.HasSuffix(full, "32") {
			n = 4
		} else if strings.HasSuffix(full, "64") {
			n = 8
		}
		b := args[len(args)-1].v.T
		e.nopanic(fr, "index", g, fmt.Sprintf("(>= (slen %s) %d)", b, n), pos, fmt.Sprintf("binary.Uint%d: buffer has %d bytes", n*8, n))
		row := fmt.Sprintf("(select %s (sref %s))", e.hget(h, byteKey()), b)
		var parts []string
		for i := 0; i < n; i++ {
			sh := i
			if strings.Contains(full, "bigEndian") {
				sh = n - 1 - i
			}
			parts = append(parts, fmt.Sprintf("(* %s (select %s (+ (soff %s) %d)))", new(big.Int).Lsh(big.NewInt(1), uint(8*sh)).String(), row, b, i))
		}
		set("(+ " + strings.Join(parts, " ") + ")")
		// bytes are in range => result in range (help the solver)
		if val != nil {
			if ra := e.d.rangeAssumption(val.Type(), fr.ops[val].v.T, 0); ra != "" {
				e.assume(g, ra)
			}
		}
		return h, true
	case "(encoding/binary.littleEndian).PutUint16", "(encoding/binary.littleEndian).PutUint32", "(encoding/binary.littleEndian).PutUint64",
		"(encoding/binary.bigEndian).PutUint16", "(encoding/binary.bigEndian).PutUint32", "(encoding/binary.bigEndian).PutUint64":
		n := 2
		if strings.HasSuffix(full, "32") {
			n = 4
		} else if strings.HasSuffix(full, "64") {
			n = 8
		}
		b := args[len(args)-2].v.T
		v := args[len(args)-1].v.T
		e.nopanic(fr, "index", g, fmt.Sprintf("(>= (slen %s) %d)", b, n), pos, fmt.Sprintf("binary.PutUint%d: buffer has %d bytes", n*8, n))
		key := byteKey()
		old := e.hget(h, key)
		row := fmt.Sprintf("(select %s (sref %s))", old, b)
		for i := 0; i < n; i++ {
			sh := i
			if strings.Contains(full, "bigEndian") {
				sh = n - 1 - i
			}
			row = fmt.Sprintf("(store %s (+ (soff %s) %d) (mod (div %s %s) 256))", row, b, i, v, new(big.Int).Lsh(big.NewInt(1), uint(8*sh)).String())
		}
		nt := e.define("S_"+key, e.keySort[key], fmt.Sprintf("(store %s (sref %s) %s)", old, b, row))
		return e.hset(h, key, nt), true
	case "errors.New", "fmt.Errorf", "github.com/pkg/errors.New", "github.com/pkg/errors.Errorf":
		if val != nil {
			v := e.havocVal("err", val.Type(), "")
			e.emit(fmt.Sprintf("(assert (> %s 0))", v.T))
			fr.ops[val] = opVal(v)
		}
		return h, true
	case "github.com/pkg/errors.Wrap", "github.com/pkg/errors.Wrapf", "github.com/pkg/errors.WithStack", "github.com/pkg/errors.WithMessage":
		if val != nil {
			v := e.havocVal("err", val.Type(), "")
			e.emit(fmt.Sprintf("(assert (= (= %s 0) (= %s 0)))", v.T, args[0].v.T))
			fr.ops[val] = opVal(v)
		}
		return h, true
	case "github.com/pkg/errors.Cause":
		if val != nil {
			v := e.havocVal("err", val.Type(), "")
			e.emit(fmt.Sprintf("(assert (= (= %s 0) (= %s 0)))", v.T, args[0].v.T))
			fr.ops[val] = opVal(v)
		}
		return h, true
	case "bytes.Equal":
		a, b := args[0].v.T, args[1].v.T
		key := byteKey()
		hk := e.hget(h, key)
		e.bytesEqDecl()
		set(fmt.Sprintf("(bytes_eq %s %s %s)", hk, a, b))
		return h, true
	}
	return h, false
}

// sort.Search(n, f): the result r satisfies 0 <= r <= n, (r < n => f(r)) and
// (r > 0 => !f(r-1)) for ANY predicate f (binary-search invariant), given that
// f does not panic on [0,n) — which is an obligation generated here.
func (e *Enc) sortSearch(fr *Frame, val ssa.Value, args []Operand, g string, h *Heap, pos token.Pos) *Heap {
	n := args[0].v.T
	clo := args[1].clo
	r := e.havocVal("search", types.Typ[types.Int], "")
	e.assume(g, fmt.Sprintf("(and (<= 0 %s) (<= %s %s))", r.T, r.T, n))
	if val != nil {
		fr.ops[val] = opVal(r)
	}
	if clo == nil || !e.inlinable(fr, clo.fn) {
		e.warn("%s: sort.Search with unknown predicate", fr.fn.Name())
		return h
	}
	evalPred := func(arg string, guard string, quiet bool) string {
		nf := e.newFrame(clo.fn, fr, "sort.Search$pred")
		nf.clo = clo
		wasQuiet := e.quiet
		e.quiet = e.quiet || quiet
		e.stack = append(e.stack, clo.fn)
		e.runFrame(nf, []Operand{opVal(Val{arg, "Int"})}, guard, h)
		e.stack = e.stack[:len(e.stack)-1]
		e.quiet = wasQuiet
		if len(nf.rets) == 0 {
			return "true"
		}
		term := nf.rets[len(nf.rets)-1].vals[0].v.T
		for j := len(nf.rets) - 2; j >= 0; j-- {
			term = fmt.Sprintf("(ite %s %s %s)", nf.rets[j].guard, nf.rets[j].vals[0].v.T, term)
		}
		return term
	}
	// no-panic for an arbitrary index in [0,n)
	i0 := e.declare("search_i", "Int")
	gi := e.define("g_search", "Bool", and(g, fmt.Sprintf("(and (<= 0 %s) (< %s %s))", i0, i0, n)))
	evalPred(i0, gi, false)
	// characterisation of the result
	g1 := e.define("g_search1", "Bool", and(g, fmt.Sprintf("(< %s %s)", r.T, n)))
	p1 := evalPred(r.T, g1, true)
	e.assume(g1, p1)
	g2 := e.define("g_search2", "Bool", and(g, fmt.Sprintf("(> %s 0)", r.T)))
	p2 := evalPred(fmt.Sprintf("(- %s 1)", r.T), g2, true)
	e.assume(g2, not(p2))
	return h
}

// bytesEqDecl declares bytes_eq(heap row map, a, b): slices a and b hold the same
// bytes.  It is a named predicate (with its definition as a triggered axiom) so
// that specifications mentioning byte equality stay small.
func (e *Enc) bytesEqDecl() {
	e.d.add("(declare-fun bytes_eq ((Array Int (Array Int Int)) Slice Slice) Bool)")
	e.d.add("(assert (forall ((h!b (Array Int (Array Int Int))) (a!b Slice) (b!b Slice)) (! (= (bytes_eq h!b a!b b!b) (and (= (slen a!b) (slen b!b)) (forall ((i!e Int)) (=> (and (<= 0 i!e) (< i!e (slen a!b))) (= (select (select h!b (sref a!b)) (+ (soff a!b) i!e)) (select (select h!b (sref b!b)) (+ (soff b!b) i!e))))))) :pattern ((bytes_eq h!b a!b b!b)))))")
}

// declStrlt declares the string order used for < on strings: a strict total order
// on string identities (strings are interned: equal contents = equal identity).
func (e *Enc) declStrlt() {
	e.d.add("(declare-fun strlt (Int Int) Bool)")
	e.d.add("(assert (forall ((x!s Int)) (! (not (strlt x!s x!s)) :pattern ((strlt x!s x!s)))))")
	e.d.add("(assert (forall ((x!s Int) (y!s Int)) (! (=> (strlt x!s y!s) (and (distinct x!s y!s) (not (strlt y!s x!s)))) :pattern ((strlt x!s y!s)))))")
	e.d.add("(assert (forall ((x!s Int) (y!s Int)) (! (or (strlt x!s y!s) (= x!s y!s) (strlt y!s x!s)) :pattern ((strlt x!s y!s)))))")
	e.d.add("(assert (forall ((x!s Int) (y!s Int) (z!s Int)) (! (=> (and (strlt x!s y!s) (strlt y!s z!s)) (strlt x!s z!s)) :pattern ((strlt x!s y!s) (strlt y!s z!s)))))")
}
