package main

// Encoder: go/ssa function -> guarded SMT definitions + proof obligations.

import (
	"fmt"
	"go/ast"
	"go/token"
	"go/types"
	"os"
	"sort"
	"strings"

	"golang.org/x/tools/go/ssa"
)

type pathElem struct {
	isField bool
	field   int
	si      *structInfo
	index   string
	arrSort string
}

// Addr is a statically tracked address (pointer to a non-struct thing or to a
// nested cell).
type Addr struct {
	key  string     // root heap key
	idx  []string   // indices from the heap array to the root cell
	path []pathElem // path inside the root cell
	typ  types.Type // pointee type
}

type Closure struct {
	fn       *ssa.Function
	bindings []Operand
}

type Operand struct {
	v   Val
	a   *Addr
	tup []Operand
	clo *Closure
	ok  bool
}

func opVal(v Val) Operand { return Operand{v: v, ok: true} }

type Oblig struct {
	ID       string
	Kind     string // pre post inv-entry inv-back dec frame nopanic lemma cover
	Base     string // id without ordinal
	Func     string
	Guard    string
	Formula  string
	Prefix   int // number of body lines visible
	Pos      token.Pos
	PosStr   string
	Text     string // human description (clause text)
	Props    []string
	Extra    []string // additional commands (lemma obligations)
	Inputs   []ModelVar
	Negate   bool // cover obligations: want SAT
	Outputs  []OutVar
	SiteDesc string
	Deps     []*Oblig // earlier ensures of the same return that this obligation assumes (IDs are assigned later)
}

// OutVar is a scalar result of the function at one return (for replay).
type OutVar struct {
	Term string
	GoT  types.Type
}

// ModelVar names an SMT term whose model value is interesting for replay.
type ModelVar struct {
	Name string
	Term string
	Type string // go type
}

type Frame struct {
	fn       *ssa.Function
	ops      map[ssa.Value]Operand
	depth    int
	id       int
	parent   *Frame
	site     string
	guards   map[*ssa.BasicBlock]string
	heapOut  map[*ssa.BasicBlock]*Heap
	edgeG    map[[2]int]string
	defers   []*deferRec
	rets     []retRec
	headerIn map[*ssa.BasicBlock]*headerState
	entry    *Heap
	isRoot   bool
	clo      *Closure
	phiEdge  map[*ssa.Phi]map[int]Operand
}

type deferRec struct {
	call *ssa.CallCommon
	flag string // cell key
	fr   *Frame
	pos  token.Pos
}

type retRec struct {
	guard string
	vals  []Operand
	heap  *Heap
	pos   token.Pos
	instr *ssa.Return
}

type headerState struct {
	pre    *Heap // merged heap of entry edges
	heap   *Heap // havocked heap at header
	guard  string
	entryG string
}

type Enc struct {
	renameDone bool
	renameMap  map[string]string
	w          *World
	d          *Decls
	root       *ssa.Function
	contract   *Contract
	body       []string
	n          int
	obls       []*Oblig
	warns      map[string]bool
	keySort    map[string]string
	keyType    map[string]types.Type
	loopMods   map[*ssa.BasicBlock]map[string]bool
	loopAll    map[*ssa.BasicBlock]bool
	used       map[string]bool // contracts applied (callee keys)
	inlined    map[string]bool
	opaque     map[string]bool
	hid        int
	frameN     int
	strs       map[string]string
	alloc0     string
	quiet      bool // do not record obligations (dry evaluation)
	stack      []*ssa.Function
	specUsed   map[string]bool
	axiomsIn   bool
	loops      map[*ssa.BasicBlock]int // header -> ordinal (root only)
	fatal      []string
	ghostT     map[string]types.Type
	typeIDs    map[string]int

	cellOp         map[string]Operand
	curRootBlock   *ssa.BasicBlock
	havocAllBlocks map[*ssa.BasicBlock]bool
	recDeclared    map[string]bool
	recAxioms      []string
	loopNode       map[*ssa.BasicBlock]ast.Node
	modsChanged    bool
	paramVars      []ModelVar
	preLen         int
	qn             int
	rootFoot       *callEffect
	typedArr       map[string]bool
	allocArr       map[string]bool
	ifaceKey       map[string]bool
	rootEntry      *Heap
	paramOps       []Operand
	byrefKey       map[string]bool
}

func newEnc(w *World, fn *ssa.Function, c *Contract) *Enc {
	e := &Enc{w: w, d: newDecls(), root: fn, contract: c,
		warns: map[string]bool{}, keySort: map[string]string{}, keyType: map[string]types.Type{},
		loopMods: map[*ssa.BasicBlock]map[string]bool{}, loopAll: map[*ssa.BasicBlock]bool{},
		used: map[string]bool{}, inlined: map[string]bool{}, opaque: map[string]bool{},
		strs: map[string]string{}, specUsed: map[string]bool{}, ghostT: map[string]types.Type{}, typeIDs: map[string]int{}}
	return e
}

func (e *Enc) reset() {
	// declarations, heap-key registrations and recursive-spec axioms persist
	// across fixpoint rounds (they are identities, not per-run state)
	e.body = nil
	e.n = 0
	e.obls = nil
	e.hid = 0
	e.frameN = 0
	e.strs = map[string]string{}
	e.axiomsIn = false
	e.fatal = nil
	e.cellOp = nil
	e.typedArr = nil
	e.allocArr = nil
	e.warns = map[string]bool{}
	e.used = map[string]bool{}
	e.inlined = map[string]bool{}
	e.opaque = map[string]bool{}
}

func (e *Enc) warn(f string, a ...interface{}) {
	e.warns[fmt.Sprintf(f, a...)] = true
}

func (e *Enc) emit(line string) { e.body = append(e.body, line) }

func (e *Enc) fresh(hint string) string {
	e.n++
	h := mangle(hint)
	if len(h) > 24 {
		h = h[:24]
	}
	return fmt.Sprintf("%s!%d", h, e.n)
}

func (e *Enc) declare(hint, sort string) string {
	n := e.fresh(hint)
	e.emit(fmt.Sprintf("(declare-const %s %s)", n, sort))
	return n
}

func (e *Enc) define(hint, sort, term string) string {
	// avoid renaming atoms
	if !strings.HasPrefix(term, "(") {
		return term
	}
	n := e.fresh(hint)
	e.emit(fmt.Sprintf("(define-fun %s () %s %s)", n, sort, term))
	return n
}

func (e *Enc) assume(guard, fact string) {
	if fact == "" || fact == "true" {
		return
	}
	e.emit("(assert " + implies(guard, fact) + ")")
}

// havocVal creates a fresh well-typed value of Go type t.
func (e *Enc) havocVal(hint string, t types.Type, guard string) Val {
	s := e.d.sortOf(t)
	n := e.declare(hint, s)
	if ra := e.d.rangeAssumption(t, n, 0); ra != "" {
		e.emit("(assert " + ra + ")")
	}
	return Val{n, s}
}

func (e *Enc) oblige(o *Oblig) {
	if e.quiet {
		return
	}
	o.Prefix = len(e.body)
	o.Func = e.w.funcKey(e.root)
	if o.Pos.IsValid() {
		p := e.w.fset.Position(o.Pos)
		o.PosStr = fmt.Sprintf("%s:%d", shortPath(p.Filename), p.Line)
	}
	e.obls = append(e.obls, o)
}

func shortPath(p string) string {
	return strings.TrimPrefix(p, "/repo/")
}

// ---------------------------------------------------------------------------
// heap

func (e *Enc) newHeap(kind heapKind, parent *Heap) *Heap {
	e.hid++
	return &Heap{kind: kind, id: e.hid, parent: parent, memo: map[string]string{}}
}

func (e *Enc) regKey(key, sort string, t types.Type) {
	if s, ok := e.keySort[key]; ok {
		if s != sort {
			e.warn("heap key %s used at two sorts %s / %s", key, s, sort)
		}
		return
	}
	e.keySort[key] = sort
	e.keyType[key] = t
}

func (e *Enc) hset(h *Heap, key, term string) *Heap {
	nh := e.newHeap(hStore, h)
	nh.key = key
	nh.term = term
	return nh
}

func (e *Enc) hget(h *Heap, key string) string {
	if t, ok := h.memo[key]; ok {
		return t
	}
	sortK, ok := e.keySort[key]
	if !ok {
		panic("unregistered heap key " + key)
	}
	var t string
	switch h.kind {
	case hRoot:
		t = e.declare(fmt.Sprintf("H_%s_%d", key, h.id), sortK)
		if key == "$alloc" {
			e.emit(fmt.Sprintf("(assert (>= %s 0))", t))
		}
	case hStore:
		if h.key == key {
			t = h.term
		} else {
			t = e.hget(h.parent, key)
		}
	case hMerge:
		var ts []string
		same := true
		for _, a := range h.arms {
			x := e.hget(a.h, key)
			if len(ts) > 0 && x != ts[0] {
				same = false
			}
			ts = append(ts, x)
		}
		if same {
			t = ts[0]
		} else {
			term := ts[len(ts)-1]
			for i := len(ts) - 2; i >= 0; i-- {
				term = fmt.Sprintf("(ite %s %s %s)", h.arms[i].guard, ts[i], term)
			}
			t = e.define("M_"+key, sortK, term)
		}
	case hHavoc:
		if h.keys == nil || h.keys[key] {
			if strings.HasPrefix(key, "D|") { // defer flags are never havocked
				t = e.hget(h.parent, key)
				break
			}
			t = e.declare(fmt.Sprintf("V_%s_%d", key, h.id), sortK)
			if key == "$alloc" {
				e.emit(fmt.Sprintf("(assert (>= %s %s))", t, e.hget(h.parent, key)))
			}
		} else {
			t = e.hget(h.parent, key)
		}
	case hCall:
		ce := h.call
		old := e.hget(h.parent, key)
		switch {
		case key == "$alloc":
			if ce.noalloc {
				t = old
			} else {
				t = e.declare("alloc", "Int")
				e.emit(fmt.Sprintf("(assert (>= %s %s))", t, old))
			}
		case strings.HasPrefix(key, "C|") || strings.HasPrefix(key, "D|"):
			if _, in := ce.foot[key]; in {
				t = e.declare(fmt.Sprintf("K_%s_%d", key, h.id), sortK)
			} else {
				t = old
			}
		case strings.HasPrefix(key, "G|"):
			if _, in := ce.foot[key]; in || ce.all {
				t = e.declare(fmt.Sprintf("K_%s_%d", key, h.id), sortK)
			} else {
				t = old
			}
		default:
			refs, in := ce.foot[key]
			star := false
			for _, r := range refs {
				if r == "*" {
					star = true
				}
			}
			switch {
			case ce.all || star:
				t = e.declare(fmt.Sprintf("K_%s_%d", key, h.id), sortK)
			case !in && (ce.noalloc || os.Getenv("GOCV_OLDFRAME") == ""):
				// No allocated location under this key is in the callee's footprint.
				// Objects the callee allocates have no observable pre-state (their
				// slots in the pre-state arrays are unconstrained), so the array can
				// be taken as unchanged as a whole.
				t = old
			case ce.noalloc:
				term := old
				for _, r := range refs {
					fc := e.declare("cell", innerSort(sortK))
					term = fmt.Sprintf("(store %s %s %s)", term, r, fc)
				}
				t = e.define(fmt.Sprintf("K_%s_%d", key, h.id), sortK, term)
			default:
				t = e.declare(fmt.Sprintf("K_%s_%d", key, h.id), sortK)
				cond := []string{e.allocatedCond(key, "r!f", ce.allocPre)}
				for _, r := range refs {
					cond = append(cond, fmt.Sprintf("(distinct r!f %s)", r))
				}
				idxSort := arrayIndexSort(sortK)
				e.emit(fmt.Sprintf("(assert (forall ((r!f %s)) (! (=> %s (= (select %s r!f) (select %s r!f))) :pattern ((select %s r!f)))))",
					idxSort, and(cond...), t, old, t))
				if strings.HasPrefix(key, "E|") && idxSort == "Int" {
					// no object lives at reference 0: elems(s) of a nil slice names nothing
					e.emit(fmt.Sprintf("(assert (= (select %s 0) (select %s 0)))", t, old))
				}
			}
		}
	}
	// typing invariant of freshly introduced heap arrays: every cell holds a
	// well-typed value (integer range, slice header sanity)
	if false && (strings.HasPrefix(t, "H_") || strings.HasPrefix(t, "V_") || strings.HasPrefix(t, "K_")) && !e.typedArr[t] {
		if e.typedArr == nil {
			e.typedArr = map[string]bool{}
		}
		e.typedArr[t] = true
		if kt := e.keyType[key]; kt != nil {
			switch {
			case strings.HasPrefix(key, "F|"):
				if ra := e.d.rangeAssumption(kt, fmt.Sprintf("(select %s r!t)", t), 0); ra != "" && needsTyping(kt) {
					e.emit(fmt.Sprintf("(assert (forall ((r!t Int)) (! %s :pattern ((select %s r!t)))))", ra, t))
				}
			case strings.HasPrefix(key, "E|") && false:
				// element arrays: typing is assumed at each load instead (a quantified
				// axiom per version perturbed unrelated proofs)
				if ra := e.d.rangeAssumption(kt, fmt.Sprintf("(select (select %s r!t) i!t)", t), 0); ra != "" && needsTyping(kt) {
					e.emit(fmt.Sprintf("(assert (forall ((r!t Int) (i!t Int)) (! %s :pattern ((select (select %s r!t) i!t)))))", ra, t))
				}
			}
		}
	}
	h.memo[key] = t
	return t
}

// needsTyping: integer-valued cells (and structs/slices of them) get a range axiom.
func needsTyping(t types.Type) bool {
	switch u := t.Underlying().(type) {
	case *types.Basic:
		return u.Info()&types.IsInteger != 0
	case *types.Slice:
		return true
	}
	return false
}

// innerSort of "(Array Int X)" is X.
func innerSort(s string) string {
	s = strings.TrimSpace(s)
	if !strings.HasPrefix(s, "(Array ") {
		return s
	}
	rest := s[len("(Array ") : len(s)-1]
	// skip index sort
	depth := 0
	for i, c := range rest {
		if c == '(' {
			depth++
		} else if c == ')' {
			depth--
		} else if c == ' ' && depth == 0 {
			return strings.TrimSpace(rest[i+1:])
		}
	}
	return s
}

func arrayIndexSort(s string) string {
	s = strings.TrimSpace(s)
	if !strings.HasPrefix(s, "(Array ") {
		return "Int"
	}
	rest := s[len("(Array ") : len(s)-1]
	depth := 0
	for i, c := range rest {
		if c == '(' {
			depth++
		} else if c == ')' {
			depth--
		} else if c == ' ' && depth == 0 {
			return strings.TrimSpace(rest[:i])
		}
	}
	return "Int"
}

func (e *Enc) mergeHeaps(arms []mergeArm) *Heap {
	if len(arms) == 1 {
		return arms[0].h
	}
	same := true
	for _, a := range arms {
		if a.h != arms[0].h {
			same = false
		}
	}
	if same {
		return arms[0].h
	}
	h := e.newHeap(hMerge, nil)
	h.arms = arms
	return h
}

// ---------------------------------------------------------------------------
// addresses

// allocatedCond: object r existed when the allocation watermark was `alloc`.
// Element objects of byref types (negative ids) exist iff their backing array does.
func (e *Enc) allocatedCond(key, r, alloc string) string {
	if e.ifaceKey[key] {
		return "true"
	}
	if e.byrefKey[key] {
		return fmt.Sprintf("(ite (< %s 0) (<= (eref %s) %s) (<= %s %s))", r, r, alloc, r, alloc)
	}
	return fmt.Sprintf("(<= %s %s)", r, alloc)
}

func (e *Enc) fieldKey(structT types.Type, st *types.Struct, i int) string {
	f := st.Field(i)
	key := keyField(structT, f.Name())
	if e.isByRef(structT) {
		if e.byrefKey == nil {
			e.byrefKey = map[string]bool{}
		}
		e.byrefKey[key] = true
	}
	e.regKey(key, "(Array Int "+e.d.sortOf(f.Type())+")", f.Type())
	return key
}

func (e *Enc) elemKey(elem types.Type) string {
	key := keyElem(elem)
	e.regKey(key, "(Array Int (Array Int "+e.d.sortOf(elem)+"))", elem)
	return key
}

func (e *Enc) load(h *Heap, a *Addr) string {
	t := e.hget(h, a.key)
	for _, i := range a.idx {
		t = fmt.Sprintf("(select %s %s)", t, i)
	}
	for _, p := range a.path {
		if p.isField {
			t = fmt.Sprintf("(%s %s)", p.si.fields[p.field], t)
		} else {
			t = fmt.Sprintf("(select %s %s)", t, p.index)
		}
	}
	return t
}

func updPath(cur string, path []pathElem, v string) string {
	if len(path) == 0 {
		return v
	}
	p := path[0]
	if p.isField {
		var parts []string
		for i, sel := range p.si.fields {
			sub := fmt.Sprintf("(%s %s)", sel, cur)
			if i == p.field {
				parts = append(parts, updPath(sub, path[1:], v))
			} else {
				parts = append(parts, sub)
			}
		}
		return "(" + p.si.ctor + " " + strings.Join(parts, " ") + ")"
	}
	return fmt.Sprintf("(store %s %s %s)", cur, p.index, updPath(fmt.Sprintf("(select %s %s)", cur, p.index), path[1:], v))
}

func (e *Enc) store(h *Heap, a *Addr, v string) *Heap {
	base := e.hget(h, a.key)
	var upd func(cur string, idx []string) string
	upd = func(cur string, idx []string) string {
		if len(idx) == 0 {
			return updPath(cur, a.path, v)
		}
		return fmt.Sprintf("(store %s %s %s)", cur, idx[0], upd(fmt.Sprintf("(select %s %s)", cur, idx[0]), idx[1:]))
	}
	nt := e.define("S_"+a.key, e.keySort[a.key], upd(base, a.idx))
	return e.hset(h, a.key, nt)
}

// ---------------------------------------------------------------------------
// strings, type ids

func (e *Enc) strConst(s string) string {
	if s == "" {
		return "0"
	}
	if t, ok := e.strs[s]; ok {
		return t
	}
	id := fmt.Sprintf("%d", 1000000+len(e.strs)+1)
	e.strs[s] = id
	e.emit(fmt.Sprintf("(assert (= (strlen %s) %d))", id, len(s)))
	return id
}

func (e *Enc) typeID(t types.Type) string {
	k := types.TypeString(t, nil)
	if id, ok := e.typeIDs[k]; ok {
		return fmt.Sprint(id)
	}
	id := len(e.typeIDs) + 1
	e.typeIDs[k] = id
	return fmt.Sprint(id)
}

// ---------------------------------------------------------------------------
// blocks, loops

type loopInfo struct {
	header *ssa.BasicBlock
	blocks map[*ssa.BasicBlock]bool
	minPos token.Pos
	maxPos token.Pos
	ord    int
}

func isBackEdge(from, to *ssa.BasicBlock) bool { return to.Dominates(from) }

func findLoops(fn *ssa.Function) map[*ssa.BasicBlock]*loopInfo {
	loops := map[*ssa.BasicBlock]*loopInfo{}
	for _, b := range fn.Blocks {
		for _, s := range b.Succs {
			if isBackEdge(b, s) {
				li := loops[s]
				if li == nil {
					li = &loopInfo{header: s, blocks: map[*ssa.BasicBlock]bool{s: true}}
					loops[s] = li
				}
				// natural loop: nodes reaching b without passing s
				stack := []*ssa.BasicBlock{b}
				for len(stack) > 0 {
					x := stack[len(stack)-1]
					stack = stack[:len(stack)-1]
					if li.blocks[x] {
						continue
					}
					li.blocks[x] = true
					stack = append(stack, x.Preds...)
				}
			}
		}
	}
	for _, li := range loops {
		for b := range li.blocks {
			for _, in := range b.Instrs {
				p := in.Pos()
				if _, isPhi := in.(*ssa.Phi); isPhi {
					continue
				}
				if dr, ok := in.(*ssa.DebugRef); ok {
					p = dr.Expr.Pos()
				}
				if p.IsValid() {
					if !li.minPos.IsValid() || p < li.minPos {
						li.minPos = p
					}
					if p > li.maxPos {
						li.maxPos = p
					}
				}
			}
		}
	}
	return loops
}

func topoOrder(fn *ssa.Function) []*ssa.BasicBlock {
	// reverse postorder ignoring back edges
	var order []*ssa.BasicBlock
	seen := map[*ssa.BasicBlock]bool{}
	var dfs func(b *ssa.BasicBlock)
	dfs = func(b *ssa.BasicBlock) {
		seen[b] = true
		for _, s := range b.Succs {
			if !seen[s] && !isBackEdge(b, s) {
				dfs(s)
			}
		}
		order = append(order, b)
	}
	if len(fn.Blocks) > 0 {
		dfs(fn.Blocks[0])
	}
	for i, j := 0, len(order)-1; i < j; i, j = i+1, j-1 {
		order[i], order[j] = order[j], order[i]
	}
	return order
}

func hasLoops(fn *ssa.Function) bool {
	for _, b := range fn.Blocks {
		for _, s := range b.Succs {
			if isBackEdge(b, s) {
				return true
			}
		}
	}
	return false
}

// ---------------------------------------------------------------------------
// running a frame

func (e *Enc) newFrame(fn *ssa.Function, parent *Frame, site string) *Frame {
	e.frameN++
	fr := &Frame{fn: fn, ops: map[ssa.Value]Operand{}, id: e.frameN, parent: parent, site: site,
		guards: map[*ssa.BasicBlock]string{}, heapOut: map[*ssa.BasicBlock]*Heap{}, edgeG: map[[2]int]string{},
		headerIn: map[*ssa.BasicBlock]*headerState{}, phiEdge: map[*ssa.Phi]map[int]Operand{}}
	if parent != nil {
		fr.depth = parent.depth + 1
	}
	return fr
}

func (e *Enc) condTerm(fr *Frame, v ssa.Value) string {
	return e.operand(fr, v).v.T
}

// runFrame symbolically executes fn.  Results are the return records.
func (e *Enc) runFrame(fr *Frame, args []Operand, guard string, heap *Heap) {
	fn := fr.fn
	fr.entry = heap
	for i, p := range fn.Params {
		if i < len(args) {
			fr.ops[p] = args[i]
		}
	}
	if fr.clo != nil {
		for i, fv := range fn.FreeVars {
			if i < len(fr.clo.bindings) {
				fr.ops[fv] = fr.clo.bindings[i]
			}
		}
	}
	var loops map[*ssa.BasicBlock]*loopInfo
	if hasLoops(fn) {
		loops = findLoops(fn)
	}
	order := topoOrder(fn)
	for _, b := range order {
		var g string
		var h *Heap
		li := loops[b]
		if b == fn.Blocks[0] {
			g, h = guard, heap
		} else {
			var arms []mergeArm
			var gs []string
			for pi, p := range b.Preds {
				if isBackEdge(p, b) {
					continue
				}
				eg, ok := fr.edgeG[[2]int{p.Index, b.Index}]
				if !ok || eg == "false" {
					continue // unreachable / unprocessed predecessor
				}
				_ = pi
				gs = append(gs, eg)
				arms = append(arms, mergeArm{eg, fr.heapOut[p]})
			}
			if len(arms) == 0 {
				continue
			}
			g = e.define(fmt.Sprintf("g_b%d", b.Index), "Bool", or(gs...))
			h = e.mergeHeaps(arms)
		}
		if li != nil {
			h, g = e.enterLoop(fr, li, b, g, h)
		}
		fr.guards[b] = g
		if fr.isRoot {
			e.curRootBlock = b
		}
		// phis (non-header)
		h = e.runBlock(fr, b, g, h, li != nil)
		fr.heapOut[b] = h
	}
	// back edges: invariant preservation
	if loops != nil && fr.isRoot {
		var hs []*ssa.BasicBlock
		for hb := range loops {
			hs = append(hs, hb)
		}
		sort.Slice(hs, func(i, j int) bool { return hs[i].Index < hs[j].Index })
		for _, hb := range hs {
			e.closeLoop(fr, loops[hb])
		}
	}
}

// phiIncoming returns the operand flowing into phi along pred index i.
func (e *Enc) phiIncoming(fr *Frame, phi *ssa.Phi, i int) Operand {
	return e.operand(fr, phi.Edges[i])
}

func (e *Enc) runBlock(fr *Frame, b *ssa.BasicBlock, g string, h *Heap, isHeader bool) *Heap {
	for _, in := range b.Instrs {
		if phi, ok := in.(*ssa.Phi); ok {
			if isHeader {
				continue // handled by enterLoop
			}
			e.doPhi(fr, b, phi)
			continue
		}
		h = e.instr(fr, b, in, g, h)
	}
	return h
}

func (e *Enc) doPhi(fr *Frame, b *ssa.BasicBlock, phi *ssa.Phi) {
	var term string
	var first Operand
	n := 0
	sortP := e.d.sortOf(phi.Type())
	allSame := true
	var terms, guards []string
	for i, p := range b.Preds {
		eg, ok := fr.edgeG[[2]int{p.Index, b.Index}]
		if !ok {
			continue
		}
		op := e.phiIncoming(fr, phi, i)
		if n == 0 {
			first = op
		}
		if op.a != nil || op.clo != nil {
			// address-valued phi: only supported when all arms agree
			if n > 0 && (first.a != op.a || first.clo != op.clo) {
				e.warn("%s: phi over addresses/closures %s", fr.fn.Name(), phi.Name())
			}
			n++
			continue
		}
		if n > 0 && op.v.T != terms[0] {
			allSame = false
		}
		terms = append(terms, op.v.T)
		guards = append(guards, eg)
		n++
	}
	if first.a != nil || first.clo != nil {
		fr.ops[phi] = first
		return
	}
	if len(terms) == 0 {
		fr.ops[phi] = opVal(e.havocVal(phi.Name(), phi.Type(), ""))
		return
	}
	if allSame {
		fr.ops[phi] = opVal(Val{terms[0], sortP})
		return
	}
	term = terms[len(terms)-1]
	for i := len(terms) - 2; i >= 0; i-- {
		term = fmt.Sprintf("(ite %s %s %s)", guards[i], terms[i], term)
	}
	name := phi.Name()
	if phi.Comment != "" {
		name += "_" + phi.Comment
	}
	fr.ops[phi] = opVal(Val{e.define(name, sortP, term), sortP})
}

// operand returns the SMT operand of an SSA value.
func (e *Enc) operand(fr *Frame, v ssa.Value) Operand {
	if op, ok := fr.ops[v]; ok {
		return op
	}
	switch x := v.(type) {
	case *ssa.Const:
		return opVal(e.constVal(x))
	case *ssa.Global:
		t := x.Type().(*types.Pointer).Elem()
		key := "G|" + x.Pkg.Pkg.Name() + "." + x.Name()
		e.regKey(key, e.d.sortOf(t), t)
		return Operand{a: &Addr{key: key, typ: t}, ok: true}
	case *ssa.Function:
		return Operand{clo: &Closure{fn: x}, v: Val{"0", "Int"}, ok: true}
	case *ssa.Builtin:
		return Operand{ok: true}
	}
	// not yet defined (value from an unprocessed block or unsupported)
	e.warn("%s: value %s (%T) used before definition; havocked", fr.fn.Name(), v.Name(), v)
	op := opVal(e.havocVal(v.Name(), v.Type(), ""))
	fr.ops[v] = op
	return op
}

func (e *Enc) constVal(c *ssa.Const) Val {
	t := c.Type()
	s := e.d.sortOf(t)
	if c.Value == nil {
		return Val{e.d.zeroOf(t), s}
	}
	switch u := t.Underlying().(type) {
	case *types.Basic:
		switch {
		case u.Info()&types.IsBoolean != 0:
			if c.Value.String() == "true" {
				return Val{"true", "Bool"}
			}
			return Val{"false", "Bool"}
		case u.Info()&types.IsInteger != 0:
			if bi, ok := constBig(c); ok {
				return Val{smtInt(bi), "Int"}
			}
		case u.Info()&types.IsString != 0:
			return Val{e.strConst(constString(c)), "Int"}
		case u.Info()&types.IsFloat != 0:
			return Val{constReal(c), "Real"}
		}
	}
	return Val{e.d.zeroOf(t), s}
}
