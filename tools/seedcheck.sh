#!/bin/bash
# seedcheck.sh <seed-dir> <prop> [<prop>...]
# Everything happens in a scratch worktree of /repo's HEAD (never in /repo itself):
# 1. confirms the seeded change: the demonstration passes on the clean tree, fails with
#    the patch, and the touched packages' existing tests still pass with the patch;
# 2. runs the quick checks of the given properties against the patched worktree
#    (gocv check --repo <worktree>), no evidence written.
# A seed dir holds patch.diff and demo_test.go (first line "// place at: <path>").
# Prints one line per step; exit 0 always (results are in the output).
set -u
export GOFLAGS=-mod=mod GOPROXY=off GOSUMDB=off GOTOOLCHAIN=local
SEED=$(realpath "$1"); shift
SCRATCH=${SCRATCH:-/tmp/mut}
mkdir -p "$SCRATCH"
WT=$SCRATCH/verify-$$
LOG=$SCRATCH/verify-$$.log
git -C /repo worktree add -q --detach "$WT" HEAD || exit 1
trap 'git -C /repo worktree remove --force "$WT" >/dev/null 2>&1; rm -f "$LOG"' EXIT
PLACE=$(head -1 "$SEED/demo_test.go" | sed -n 's/.*place at: *\([^ ]*\).*/\1/p')
[ -z "$PLACE" ] && { echo "SEED $SEED: no 'place at' in demo"; exit 0; }
PKGDIR=$(dirname "$PLACE")
cd "$WT"
if ! git apply --check "$SEED/patch.diff" 2>/dev/null; then echo "SEED $SEED: patch does not apply to current HEAD"; exit 0; fi
cp "$SEED/demo_test.go" "$WT/$PLACE"
TESTS=$(grep -o '^func Test[A-Za-z0-9_]*' "$WT/$PLACE" | sed 's/func //' | paste -sd'|')
go test -vet=off -count=1 -timeout 600s -run "^($TESTS)\$" "./$PKGDIR" >"$LOG" 2>&1 && CLEAN=pass || CLEAN=FAIL
git apply "$SEED/patch.diff"
go build ./... >"$LOG" 2>&1 && BUILD=ok || BUILD=FAIL
go test -vet=off -count=1 -timeout 600s -run "^($TESTS)\$" "./$PKGDIR" >"$LOG" 2>&1 && MUT=pass || MUT=FAIL
rm -f "$WT/$PLACE"
if [ "${SKIP_EXISTING:-0}" = 1 ]; then PKG=skipped; TOUCHED=; else
TOUCHED=$(grep '^+++ b/' "$SEED/patch.diff" | sed 's#+++ b/##' | xargs -n1 dirname | sort -u | sed 's#^#./#' | paste -sd' ')
go test -vet=off -count=1 -timeout 1200s $TOUCHED >"$LOG" 2>&1 && PKG=pass || PKG=FAIL
fi
echo "SEED $SEED: demo-on-clean=$CLEAN build=$BUILD demo-with-patch=$MUT existing-tests($TOUCHED)=$PKG"
[ "${NOCHECK:-0}" = 1 ] && exit 0
for P in "$@"; do
  OUT=$(cd /verif && ./bin/gocv check --repo "$WT" --prop "$P" --tier quick --no-evidence 2>&1)
  RC=$?
  echo "  check $P: exit=$RC $(echo "$OUT" | grep -c '^VIOLATION') violation line(s)"
  echo "$OUT" | grep '^VIOLATION' | head -4 | sed 's/^/    /'
done
