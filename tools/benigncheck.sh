#!/bin/bash
# benigncheck.sh <benign-dir> <prop> [<prop>...]
# The counterpart of seedcheck.sh for changes that PRESERVE every property (harmless
# refactors: renamed locals, an added early return, reordered independent statements):
# applies <benign-dir>/patch.diff in a scratch worktree of /repo's HEAD (never in /repo
# itself), builds, and runs the quick checks of the given properties against it.
# Every check must stay quiet; a VIOLATION line here is a false alarm of the machinery.
# Prints one line per step; exit 0 always (results are in the output).
set -u
export GOFLAGS=-mod=mod GOPROXY=off GOSUMDB=off GOTOOLCHAIN=local
B=$(realpath "$1"); shift
SCRATCH=${SCRATCH:-/tmp/mut}
mkdir -p "$SCRATCH"
WT=$SCRATCH/benign-$$
git -C /repo worktree add -q --detach "$WT" HEAD || exit 1
trap 'git -C /repo worktree remove --force "$WT" >/dev/null 2>&1' EXIT
cd "$WT"
if ! git apply --check "$B/patch.diff" 2>/dev/null; then echo "BENIGN $B: patch does not apply to current HEAD"; exit 0; fi
git apply "$B/patch.diff"
go build ./... >/dev/null 2>&1 && BUILD=ok || BUILD=FAIL
echo "BENIGN $B: build=$BUILD"
for P in "$@"; do
  OUT=$(cd /verif && VERIF_SEED=${VERIF_SEED:-1} ./bin/gocv check --repo "$WT" --prop "$P" --tier quick --no-evidence 2>&1)
  RC=$?
  echo "  check $P: exit=$RC $(echo "$OUT" | grep -c '^VIOLATION') violation line(s)"
  echo "$OUT" | grep '^VIOLATION' | head -6 | sed 's/^/    /'
done
