#!/usr/bin/env python3
"""Regenerates /verif/MANIFEST.json from the table below (kept next to the checks)."""
import json, subprocess

PROPS = [json.loads(l)["id"] for l in open("/verif/properties.jsonl")]

TRUST = ("Trusted base: Go compiler/runtime and go/ssa; z3 4.8.12 / z3 5.1.0 / cvc5 1.0.3; the gocv translation "
         "(Int-mode integers with explicit wrap-around, heap as per-field arrays, machine words axiomatised pointwise); "
         "contracts marked `trusted` (listed per run in the evidence file); sequential execution (mutexes are no-ops). ")

# id -> (level, text, note, technique)
CLAIMS = {
 "C01": ("proof",
   "Container kernels of package roaring are verified against the abstract membership / normal-form counting specs "
   "(search32/64, binSearchRuns, Contains family, arrayCountRange, runCountRange with induction lemmas over cntRuns, countRange dispatch, "
   "max family, bitmapRepair, bitmapAdd, intersectArrayArray). Partial: the remaining kernels and the Bitmap-level operators are not under contract; "
   "obligations stated but not robustly discharged are listed in the evidence and are not part of the claim.",
   TRUST + "Container accessors (array/runs/bitmap/set*) and Thaw are trusted against the ghost slice headers $arr/$runs/$bm; bridge lemmas L1-L4 (normal-form counter = set cardinality) are assumed.",
   "contract-based deductive verification: WP over go/ssa, SMT (z3/cvc5)"),
 "C02": ("proof",
   "Representation invariants of both container collections: sliceContainers (shape, sortedness, look-aside coherence; Get/Put/insertAt/GetOrCreate/Remove/seek/Last/Size/Reset, sliceIterator.Next) "
   "and bTreeContainers (look-aside coherent with the tree's abstract map; Get/Put/Remove/GetOrCreate/Update/PutContainerValues/Reset/Last/Size) are preserved by every verified method and each method "
   "refines the abstract key->container map. Histories follow by induction. Bitmap-level mutators (Add/AddN/directOpN/ImportRoaringBits) are not under contract.",
   TRUST + "btree.go is trusted against the abstract-map contract (tree.$map/$has/$len).",
   "contract-based deductive verification: data-structure invariants, SMT"),
 "C04": ("proof",
   "Layout and frame of the decoders only: both roaring iterators (header parsing, per-container extents inside the buffer, `unchanged(data)` frame - the official run conversion happens in fresh storage). "
   "The encoder, the container payload reinterpretation and import==decode-then-merge are not under contract.",
   TRUST + "unsafe payload reinterpretation is outside the model.",
   "contract-based deductive verification: bounds + frame obligations, SMT"),
 "C05": ("proof",
   "Op codec sizes and decode: op.size/encodeSize/count agree with the layout read by op.UnmarshalBinary (13 / 13+8n / 17+len), UnmarshalBinary never reads outside the entry, and the replay loop of unmarshalPilosaRoaring consumes exactly op.size() bytes per entry. "
   "Checksums are uninterpreted; op.WriteTo's byte layout and the replay==live-set lemma are not under contract.",
   TRUST + "fnv hashing is an uninterpreted observer; (*op).apply is a trusted contract.",
   "contract-based deductive verification, SMT"),
 "C06": ("proof",
   "No-panic sweep over arbitrary input bytes (symbolic length and contents) for the roaring decode paths: newRoaringIterator, newPilosaRoaringIterator, pilosa/official iterator Next, readOfficialHeader, newOfficialRoaringIterator, op.UnmarshalBinary, Bitmap.UnmarshalBinary, unmarshalPilosaRoaring: "
   "every index, slice, nil and explicit-panic site is a discharged obligation. PQL parser, cluster messages, readOffsets/readWithRuns bodies and lock release are not under contract.",
   TRUST + "interface-level contracts of Containers/ContainerIterator are assumed; the generated PEG parser is not applicable to this technique.",
   "contract-based deductive verification: zero-annotation no-panic obligations, SMT"),
 "C14": ("proof",
   "Pure integer layer only: bitDepth, bitDepthInt64, bsiGroup.bitDepthMin/Max, baseValue (each comparison operator agrees with the base-relative comparison on every representable value, or the range is excluded) and baseValueBetween. "
   "The executor decision layer and the bit-sliced range algorithms are not under contract.",
   TRUST + "1<<BitDepth is modelled by pow2 with doubling axioms.",
   "contract-based deductive verification, SMT"),
 "C16": ("proof",
   "Merge kernel RowIDs.merge: result strictly ascending, at most limit elements, every element from one of the inputs, inputs unmodified. GroupBy paging, rowIterator and fragment row listing are not under contract.",
   TRUST, "contract-based deductive verification: loop invariants, SMT"),
 "C17": ("proof",
   "Reducer laws at the contract level: ValCount.add is the componentwise sum; ValCount.smaller/larger return the extreme value with the summed count on ties (the property's Min/Max clause); RowIDs.merge as in C16. "
   "mapReduce scheduling is not applicable to this technique.",
   TRUST, "contract-based deductive verification, SMT"),
 "C20": ("proof",
   "cluster.partitionNodes returns min(max(ReplicaN,1), len(nodes)) nodes at consecutive ring positions from the hashed index. Hash range is an assumed interface contract; node ordering, ownership tests and cleanup are not under contract.",
   TRUST + "(Hasher).Hash is a trusted interface contract (0 <= result < n).",
   "contract-based deductive verification, SMT"),
}

NA = {
 "C03": "contracts designed (DESIGN.md 5/C03: frozen-write typestate) but not implemented in this round; Thaw/Freeze are only trusted contracts so nothing is claimed",
 "C07": "fragment write paths (FCI ghost-state suite, DESIGN.md 4.4) not implemented: fragment.go functions need map/closure/interface contracts beyond what was built",
 "C08": "restart behaviour is I/O-history; the metadata-codec contracts (DESIGN.md 5/C08) were not implemented",
 "C09": "crash points are not a per-call notion; the two per-call proxies of DESIGN.md 5/C09 were not implemented",
 "C10": "FCI checksum conjunct not implemented (see C07)",
 "C11": "mergeBlock kernel contracts and the bounded pass check not implemented",
 "C12": "cache refinement contracts not implemented",
 "C13": "mutex invariant contracts not implemented",
 "C15": "Row algebra contracts (mergeSegmentIterator.next etc.) not implemented",
 "C18": "calendar arithmetic through time.Time is outside the verifier's subset; the bounded stand-in of DESIGN.md was not built",
 "C19": "string-ordered view skipping is outside the subset; bounded stand-in not built",
 "C21": "map/closure graph code outside the subset; bounded stand-in not built",
 "C22": "interleavings and liveness: no per-call contract expresses them (DESIGN.md section 7)",
 "C23": "decision-table contracts over package initialisers not implemented",
 "C24": "translate-store locking/restart/replication are not per-call; arithmetic kernels not implemented",
 "C25": "attrBlocks.Diff / aliasing contracts not implemented",
 "C26": "generated PEG parser is table code outside the subset; formatter totality not implemented",
 "C27": "encode/decode field-coverage obligations not implemented",
 "C28": "corollary of the FCI suite, which is not implemented",
 "C29": "data-race freedom and linearizability quantify over schedules; the generator has no thread model",
 "C30": "behaviour lives in CLI/HTTP/csv libraries and process I/O; nothing to contract",
 "C31": "precedence is implemented by viper/cobra/pflag; a contract would restate library documentation",
}

def main():
    src = []
    try:
        out = subprocess.run(["git", "-C", "/repo", "log", "--format=%H %s"], capture_output=True, text=True).stdout
        for l in out.splitlines():
            h, s = l.split(" ", 1)
            if s.startswith("verif:"):
                src.append(h)
    except Exception:
        pass
    checks = []
    for pid in PROPS:
        if pid not in CLAIMS:
            continue
        level, text, note, tech = CLAIMS[pid]
        checks.append({
            "property_id": pid,
            "quick_cmd": f"cd /verif && ./bin/gocv check --prop {pid} --tier quick",
            "thorough_cmd": f"cd /verif && ./bin/gocv check --prop {pid} --tier thorough",
            "evidence_file": f"/verif/evidence/{pid}.json",
            "replay_cmd_template": "cat {path}",
            "engine": "gocv",
            "level_claimed": {"category": level, "text": text, "design_ref": f"DESIGN.md section 5, {pid}"},
            "level_note": note,
            "technique": tech,
        })
    na = [{"property_id": p, "reason": NA[p]} for p in PROPS if p not in CLAIMS]
    m = {
        "version": 1,
        "setup_cmd": "cd /verif && GOFLAGS=-mod=mod GOPROXY=off GOSUMDB=off GOTOOLCHAIN=local go build -o bin/gocv ./cmd/gocv",
        "hooks": {
            "guard": "verif",
            "enable": "-tags verif: the hook files are comment-only contract files verif_contracts*.go (package clause + //@ lines); gocv reads them as text next to the default-tag SSA of /repo's working tree",
            "baseline_off_cmd": "cd /repo && go test -mod=mod -json -vet=off -count=1 -timeout 25m ./...",
            "source_commits": src,
            "add_only": True,
        },
        "engines": [{"name": "gocv", "path": "/verif/cmd/gocv", "serves_properties": sorted(CLAIMS),
                     "kind_free_text": "weakest-precondition VC generator over go/ssa of /repo's working tree; contracts as //@ comments; obligations raced on z3-new / z3 / cvc5; sat models replayed with go test -overlay"}],
        "checks": checks,
        "not_applicable": na,
        "notes": "Claimed obligations are those of /verif/baseline/<id>.json (robustly discharged on the pinned tree); genuine defects found and repaired are recorded in /verif/known_findings.json.",
    }
    json.dump(m, open("/verif/MANIFEST.json", "w"), indent=1)
    print("MANIFEST.json:", len(checks), "checks,", len(na), "not applicable")

if __name__ == "__main__":
    main()
