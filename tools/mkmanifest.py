#!/usr/bin/env python3
"""Regenerates /verif/MANIFEST.json from the table below (kept next to the checks)."""
import json, subprocess

PROPS = [json.loads(l)["id"] for l in open("/verif/properties.jsonl")]

TRUST = ("Trusted base: Go compiler/runtime and go/ssa; z3 4.8.12 / z3 5.1.0 / cvc5 1.0.3; the gocv translation "
         "(Int-mode integers with explicit wrap-around, heap as per-field arrays, machine words axiomatised pointwise); "
         "contracts marked `trusted` (listed per run in the evidence file); sequential execution (mutexes are no-ops). ")

# id -> (level, text, note, technique)
CLAIMS = {
 "C01": ("proof",
   "Container kernels of package roaring are verified against the abstract membership / normal-form counting specs "
   "(search32/64, binSearchRuns, Contains family, arrayCountRange, runCountRange with induction lemmas over cntRuns, countRange dispatch, "
   "max family, bitmapRepair, bitmapAdd, intersectArrayArray). Partial: the remaining kernels and the Bitmap-level operators are not under contract; "
   "obligations stated but not robustly discharged are listed in the evidence and are not part of the claim.",
   TRUST + "Container accessors (array/runs/bitmap/set*) and Thaw are trusted against the ghost slice headers $arr/$runs/$bm; bridge lemmas L1-L4 (normal-form counter = set cardinality) are assumed.",
   "contract-based deductive verification: WP over go/ssa, SMT (z3/cvc5)"),
 "C02": ("proof",
   "Representation invariants of both container collections: sliceContainers (shape, sortedness, look-aside coherence; Get/Put/insertAt/GetOrCreate/Remove/seek/Last/Size/Reset, sliceIterator.Next) "
   "and bTreeContainers (look-aside coherent with the tree's abstract map; Get/Put/Remove/GetOrCreate/Update/PutContainerValues/Reset/Last/Size) are preserved by every verified method and each method "
   "refines the abstract key->container map. Histories follow by induction. Bitmap-level mutators (Add/AddN/directOpN/ImportRoaringBits) are not under contract.",
   TRUST + "btree.go is trusted against the abstract-map contract (tree.$map/$has/$len).",
   "contract-based deductive verification: data-structure invariants, SMT"),
 "C04": ("proof",
   "Layout and frame of the decoders only: both roaring iterators (header parsing, per-container extents inside the buffer, `unchanged(data)` frame - the official run conversion happens in fresh storage). "
   "The encoder, the container payload reinterpretation and import==decode-then-merge are not under contract.",
   TRUST + "unsafe payload reinterpretation is outside the model.",
   "contract-based deductive verification: bounds + frame obligations, SMT"),
 "C05": ("proof",
   "Op codec sizes and decode: op.size/encodeSize/count agree with the layout read by op.UnmarshalBinary (13 / 13+8n / 17+len), UnmarshalBinary never reads outside the entry, and the replay loop of unmarshalPilosaRoaring consumes exactly op.size() bytes per entry. "
   "Checksums are uninterpreted; op.WriteTo's byte layout and the replay==live-set lemma are not under contract.",
   TRUST + "fnv hashing is an uninterpreted observer; (*op).apply is a trusted contract.",
   "contract-based deductive verification, SMT"),
 "C06": ("proof",
   "No-panic sweep over arbitrary input bytes (symbolic length and contents) for the roaring decode paths: newRoaringIterator, newPilosaRoaringIterator, pilosa/official iterator Next, readOfficialHeader, newOfficialRoaringIterator, op.UnmarshalBinary, Bitmap.UnmarshalBinary, unmarshalPilosaRoaring: "
   "every index, slice, nil and explicit-panic site is a discharged obligation. PQL parser, cluster messages, readOffsets/readWithRuns bodies and lock release are not under contract.",
   TRUST + "interface-level contracts of Containers/ContainerIterator are assumed; the generated PEG parser is not applicable to this technique.",
   "contract-based deductive verification: zero-annotation no-panic obligations, SMT"),
 "C14": ("proof",
   "Pure integer layer only: bitDepth, bitDepthInt64, bsiGroup.bitDepthMin/Max, baseValue (each comparison operator agrees with the base-relative comparison on every representable value, or the range is excluded) and baseValueBetween. "
   "The executor decision layer and the bit-sliced range algorithms are not under contract.",
   TRUST + "1<<BitDepth is modelled by pow2 with doubling axioms.",
   "contract-based deductive verification, SMT"),
 "C16": ("proof",
   "Merge kernel RowIDs.merge: result strictly ascending, at most limit elements, every element from one of the inputs, inputs unmodified. GroupBy paging, rowIterator and fragment row listing are not under contract.",
   TRUST, "contract-based deductive verification: loop invariants, SMT"),
 "C17": ("proof",
   "Reducer laws at the contract level: ValCount.add is the componentwise sum; ValCount.smaller/larger return the extreme value with the summed count on ties (the property's Min/Max clause); RowIDs.merge as in C16. Nodes.Filter returns exactly the nodes other than the failed one (the list a failed node's shards are re-mapped over). "
   "mapReduce scheduling is not applicable to this technique.",
   TRUST, "contract-based deductive verification, SMT"),
 "C20": ("proof",
   "cluster.partitionNodes returns min(max(ReplicaN,1), len(nodes)) nodes at consecutive ring positions from the hashed index. Hash range is an assumed interface contract; node ordering, ownership tests and cleanup are not under contract.",
   TRUST + "(Hasher).Hash is a trusted interface contract (0 <= result < n).",
   "contract-based deductive verification, SMT"),
}

BF = ("BOUNDED stand-in rcheck/fragment (labelled bounded in the evidence, never counted as proved): the real fragment code (set, mutex, bool and BSI fragments, "
      "every write path incl. bulk/roaring/value imports, snapshots) is executed on seeded random write sequences over a small column/row/value domain and every read "
      "(row, bit, rows, forEachBit, minRow/maxRow, Blocks checksums, top, value, rangeOp/between, sum/min/max, file-vs-memory) is compared with a map model. ")
BP = ("BOUNDED stand-in rcheck/pql (labelled bounded, never counted as proved): random PQL write sequences on a 1-node and a 3-node in-process cluster; every read query "
      "(Row/Range/BSI conditions, set algebra incl. Shift, Count, TopN with listed and repeated ids, Rows incl. time ranges with limits, GroupBy with paging, Min/Max/Sum, MinRow/MaxRow, time ranges, Clear, bulk imports with and without time stamps) is compared with a map model and between the clusters. ")

CLAIMS.update({
 "C03": ("proof",
   "Two kernels only: (*Container).bitmapAdd writes through Thaw, so a frozen (shared/mapped) container is never written in place - the result is either the unfrozen receiver or a fresh container and the "
   "frozen source's words are unchanged; mergeSegmentIterator.next pairs the segments of two rows by shard without exchanging operands (the slot a segment is returned in is the row it came from) and only advances the "
   "iterator's own cursors. Clone/Freeze/Union/Intersect/Difference/Xor/OffsetRange bodies and remap/close are not under contract.",
   TRUST + "Thaw and the container accessors are trusted contracts.",
   "contract-based deductive verification: frozen-write typestate + frame, SMT"),
 "C07": ("proof",
   "Deductive part: the single-bit write paths (*fragment).unprotectedSetBit / unprotectedClearBit against the abstract stored set ($set of the storage bitmap): exactly the addressed position changes, `changed` is exact, "
   "and the coherence protocol holds afterwards (no cached checksum for the row's block, no cached row object, cache count recomputed from storage, maxRowID >= row). All other write paths and every read path are covered only by the bounded stand-in. " + BF,
   TRUST + "roaring.Bitmap.Add and Bitmap.Remove are verified down to the container kernels (the abstract set is tied to the containers by a ghost redefinition; op.apply through its verified variant contract for remove records); still trusted: Bitmap.CountRange, Bitmap.writeOp, the Containers interface contracts, cache.Add, bitmapCache.Add and incrementOpN (snapshot I/O); cardinality side conditions roomOK/singleOK and well-formedness/coupling of the storage bitmap are preconditions; row ids are assumed < 2^44-1.",
   "contract-based deductive verification (protocol contracts over ghost state) + bounded stand-in"),
 "C10": ("proof",
   "Deductive part: after unprotectedSetBit / unprotectedClearBit changed a bit of row r, f.checksums has no entry for block r/100 and is untouched when nothing changed (the cached checksum can never be stale through these paths). "
   "Blocks() recomputation and the bulk/import/row write paths are covered only by the bounded stand-in (Blocks() checksums compared with checksums recomputed from a model after every write). " + BF,
   TRUST + "same trusted contracts as C07; hashing is uninterpreted.",
   "contract-based deductive verification + bounded stand-in"),
 "C12": ("proof",
   "Deductive part: after a single-bit write that changed row r the rank/LRU cache entry for r is the count recomputed from storage over exactly r's position range (or the row is forgotten, count 0 = absent), never a stale count. "
   "TopN itself (top(), filters, thresholds, cache recalculation) is covered only by the bounded stand-ins. " + BF + BP,
   TRUST + "cache.Add is a trusted contract over the ghost map $cnt (may forget, never misreport); CountRange is trusted against cardRange.",
   "contract-based deductive verification + bounded stand-in"),
 "C13": ("exploration",
   "BOUNDED ONLY - no function of the mutex/bool write paths could be brought under contract in this round (map-valued batches, closures over storage iterators). " + BF +
   "Mutex and bool fragments: after every write (setBit, clearBit, bulk import with repeated columns, clear imports, roaring import) each column holds at most one row and it is the model's last write.",
   "bounded exploration; the oracle is a hand-written map model; nothing here is a proof.",
   "bounded stand-in (model-based execution of the real code)"),
 "C15": ("proof",
   "Deductive part: mergeSegmentIterator.next, the pairing kernel under every binary Row operator (Union/Intersect/Difference/Xor): segments are paired exactly when their shards are equal, each returned in its own operand's slot, cursors advance monotonically. "
   "The roaring set operators under it are in C01 (intersectArrayArray). The executor's expression evaluation, Not/Shift and the shard fan-out are covered only by the bounded stand-in. " + BP,
   TRUST, "contract-based deductive verification + bounded stand-in"),
 "C18": ("exploration",
   "BOUNDED ONLY - calendar arithmetic goes through time.Time, which is outside the generator's subset. " + BP +
   "Time fields with quantum YMDH: bits set with 16 time stamps around year/month/day boundaries; Row/Rows with from/to ranges aligned to hours are compared with the model's timestamp filter.",
   "bounded exploration; nothing here is a proof.", "bounded stand-in"),
 "C19": ("exploration",
   "BOUNDED ONLY - Field.ClearBit's view skipping is string/time code outside the subset. " + BP +
   "After Clear(c, f=r) no time range and not the standard view returns c for r (checked over all generated ranges, whatever timestamps the bit was set with).",
   "bounded exploration; nothing here is a proof.", "bounded stand-in"),
 "C25": ("proof",
   "attrBlocks.Diff only: for block lists sorted by ID the result is, in ascending order, exactly the IDs of blocks of the receiver that are absent from the other list or present with a different checksum (soundness, completeness, order; inputs unchanged). "
   "Attribute merge, persistence (boltdb), caching and map aliasing are not under contract.",
   TRUST + "bytes.Equal is modelled as byte-wise equality of the two slices.",
   "contract-based deductive verification: loop invariants, SMT"),
 "C28": ("proof",
   "Deductive part: Set/Clear single-bit paths refine the abstract stored set exactly (see C07), which is the common denominator every other write path must match. Path equivalence itself "
   "(bulk import by IDs, roaring import in both encodings, value imports vs Set) is covered only by the bounded stand-in, which replays the same model writes through different paths and compares all reads. " + BF +
   " rcheck/pql adds the cluster level: time bits written through API.Import with time stamps (including stamps before 1970) and int values through API.ImportValue on 1-node and 3-node clusters must answer every time-range and value query like the same writes made with Set.",
   TRUST + "same trusted contracts as C07.",
   "contract-based deductive verification + bounded stand-in"),
})
CLAIMS["C14"] = ("proof", CLAIMS["C14"][1] + " BOUNDED additions: " + BF + BP, CLAIMS["C14"][2], CLAIMS["C14"][3] + " + bounded stand-in")
CLAIMS["C16"] = ("proof", CLAIMS["C16"][1] + " The single-bit write path keeps maxRowID >= every written row (unprotectedSetBit). BOUNDED additions: " + BF + BP, CLAIMS["C16"][2], CLAIMS["C16"][3] + " + bounded stand-in")
CLAIMS["C17"] = ("proof", CLAIMS["C17"][1] + " BOUNDED addition: " + BP, CLAIMS["C17"][2], CLAIMS["C17"][3] + " + bounded stand-in")
CLAIMS["C20"] = ("proof",
   "cluster.partitionNodes returns min(max(ReplicaN,1), len(nodes)) nodes at consecutive ring positions from the hashed index; shardNodes composes it with the partition hash; ownsShard is true exactly when the node's ID is at one of those ring positions "
   "(the node's own ownership test agrees with the owner list); Nodes.ContainsID and nodePositionByID are exact; removeNodeBasicSorted keeps the ring strictly ordered by ID, removes exactly the named node and keeps every other node in order. "
   "Distinctness of owners follows from ring positions h..h+k-1 with k <= n (not stated as an obligation). addNodeBasicSorted, the cleaner and anti-entropy call sites are not under contract.",
   TRUST + "(Hasher).Hash / jmphasher.Hash (0 <= result < n, function of (key,n)) and cluster.partition (fnv) are trusted contracts; string < is an uninterpreted strict total order.",
   "contract-based deductive verification, SMT")

BC = ("BOUNDED stand-in rcheck/cluster (labelled bounded, never counted as proved): real cluster/syncer/API code on enumerated small clusters. ")
CLAIMS.update({
 "C11": ("proof",
   "Deductive part (one kernel only, nothing else of the property is proved): Nodes.FilterID returns exactly the nodes whose ID differs from the given one - none added, none missing - which is the list of peers holderSyncer visits in a pass (a replica left out there would never be repaired). The majority merge itself is BOUNDED ONLY - mergeBlock and the syncer are map/closure/RPC code outside the generator's subset. " + BC +
   "mergeBlock: exhaustive for 2 positions x 1..5 replicas and 3 positions x 2..4 replicas plus seeded random cases over standard/time/bsi fragments and blocks 0,1,3: the local block and every replica after applying its diffs equal the per-bit majority (ties set), nothing outside the block changes. "
   "Complete SyncHolder passes over 2..5 in-process replicas with a routed fake client: every fragment of every replica equals the majority, repairs land in the view they were computed for, checksums agree afterwards; the bit-sliced view of an int field is included (it was a probe without oracle until the defect that made its repair impossible was fixed).",
   TRUST + "The bounded part's oracle is a hand-written majority model and is not a proof.", "contract-based deductive verification: loop invariants, SMT + bounded stand-in"),
 "C21": ("proof",
   "Deductive part (one kernel only, nothing else of the property is proved): cluster.unprotectedNodeByID returns the first node carrying the ID and nil exactly when no node carries it; fragSources resolves every source node ID through it and cluster.diff identifies the added / removed node with it. The plan itself is BOUNDED ONLY - resize planning (fragSources, resize job generation) is map/closure graph code outside the subset. " + BC +
   "Clusters of 1-6 nodes, replicaN 0..5, two schemas, random available shards, every single add and remove: every (node,index,field,view,shard) newly owned has a source that owned it before and is not the removed node; a refusal only when some need has no surviving owner. Cleanup: the RESIZING->NORMAL transition is played through SetState and, for every non-coordinator node of adds and removes at replicaN 1..3, through mergeClusterStatus with the final membership; what survives is compared with the owner lists of the resulting cluster.",
   TRUST + "The bounded part is exploration and not a proof.", "contract-based deductive verification: loop invariants, SMT + bounded stand-in"),
 "C23": ("exploration",
   "BOUNDED/EXHAUSTIVE ENUMERATION - the admission table is a package-level map consulted through API.validate: all 25 apiMethod constants x 4 cluster states are enumerated against the table in the property statement (exhaustive for that finite domain), and 35 calls of exported API entry points (imports with every option combination, a remote query) are made on an API with nil holder/server in STARTING and RESIZING to show they refuse before touching data. Not a deductive proof: that every future entry point calls validate first is not shown.",
   "exhaustive over the finite decision table; entry-point coverage is by enumeration of the existing methods.", "exhaustive enumeration (bounded stand-in)"),
})
CLAIMS["C18"] = ("exploration",
   "BOUNDED ONLY - calendar arithmetic goes through time.Time, outside the generator's subset. rcheck/timeq: for every valid quantum and seeded pairs of aligned instants from a boundary-heavy grid, the views of viewsByTimeRange are disjoint and cover exactly [start,end); "
   "timeOfView maps every year/month/day/hour view name of 1970-2040 (+ far years) back to the interval its digits denote; viewsByTime names the enclosing interval per unit. " + BP,
   "bounded exploration; nothing here is a proof.", "bounded stand-in")
CLAIMS["C20"] = (CLAIMS["C20"][0], CLAIMS["C20"][1] + " BOUNDED addition: " + BC + "owner lists for 1-6 nodes in every join order, replicaN 0..7: size, distinctness, join-order independence, and agreement of every ownership call site (ownsShard, containsShards, shardsByNode, validateShardOwnership, the cleaner and the syncer) with the owner list.", CLAIMS["C20"][2], CLAIMS["C20"][3] + " + bounded stand-in")

CLAIMS.update({
 "C24": ("proof",
   "Deductive part (three arithmetic kernels only, nothing else of the property is proved): index.alloc gives the key table exactly `capacity` slots with mask == capacity-1 and a growth threshold <= capacity*loadFactor/100, strictly below the capacity for load factors under 100 (capacity <= 2^56); translate.go pow2(v), the capacity of the key index, is for every v <= 2^61 the least power of two >= max(v,2) and never reaches its panic; uVarintSize(x) is, for every uint64 x, exactly the number of bytes of the uvarint encoding of x (the least k in 1..10 with x < 2^(7k)); applyEntry and LogEntry.ReadFrom add it to the running offset that locates each key's length prefix in the translate log. The translate store itself (hash index, locking, restart, replication) is file/goroutine code outside the subset and is covered only by the bounded stand-in. rcheck/stores (BOUNDED, never counted as proved): the real TranslateFile over 5 namespaces with adversarial keys (empty, Unicode, invalid UTF-8, NUL, 4-70 KB, repeats within a batch, bursts that grow the hash table), forward/reverse translation, close+reopen, one real replica fed through a reader cut at and inside entry boundaries and resumed; against a map model: ids positive, stable, distinct per namespace, reverse returns the key, unchanged after reopen, replica identical. Sequential only (the property's concurrent clause is not exercised).",
   TRUST + "binary.PutUvarint itself is not under contract: the spec (least k with x < 2^(7k)) is its documented byte count.", "contract-based deductive verification: loop invariants, SMT + bounded stand-in"),
 "C26": ("exploration",
   "BOUNDED ONLY - the PEG parser is generated table code outside the subset. rcheck/pqlfmt: query text generated from the grammar together with the intended AST (all call forms, both quote styles with escapes and arbitrary Unicode, int64 extremes, floats, booleans, null, lists, conditions, timestamps): ParseString must return exactly that AST (Go types included); every parsed call is key-translated the way the executor does it, printed with String() and re-parsed: the result must mean the same.",
   "bounded exploration; nothing here is a proof.", "bounded stand-in"),
 "C27": ("proof",
   "Deductive part (the 'decoding returns an error rather than panicking' clause, hand-written half): 20 decoders of encoding/proto (schema, nodes, cluster/node status, resize instruction parts, coordinator and node-event messages, query results) never dereference nil or index out of range, for every message value in which singular sub-messages may be absent and repeated ones have non-nil elements - that is all that is assumed about the generated gogo-proto Unmarshal. Round-trip equality is covered only by the bounded stand-in. rcheck/wire: for all 28 Serializer message types and all 10 query result kinds, random values (empty/nil/boundary fields) are Marshal-ed and Unmarshal-ed and every exported field compared by reflection (nil == empty slice/map); Unmarshal is fed empty, random, truncated and bit-flipped bytes and must not panic. Two open findings (IndexInfo.Options / ShardWidth missing from the protobuf schema) are listed in known_findings.json and printed as KNOWN-FINDING.",
   TRUST + "The generated protobuf Unmarshal is assumed to produce well-typed values with non-nil repeated elements; decodeIndexStatuses is a trusted contract (its callee builds a roaring bitmap).", "contract-based deductive verification (no-panic obligations) + bounded stand-in"),
})
CLAIMS["C01"] = (CLAIMS["C01"][0], CLAIMS["C01"][1] + " Added: every single-value mutation kernel (arrayAdd/Remove, bitmapAdd/Remove, runAdd/Remove, arrayToBitmap, Container.add/remove): exactly v changes, the changed flag is exact, n moves by exactly one, frozen sources are never written, frames and storage ownership; and Bitmap.Contains / Bitmap.DirectAdd / Bitmap.remove against the container map (bmem): Contains returns membership, DirectAdd/remove change exactly v, keep every container well formed and keep containers separated, so any history of point updates keeps Contains equal to the set obtained by applying the mutations in order.", CLAIMS["C01"][2] + " Containers.Get/GetOrCreate/Put are trusted interface contracts over the ghost map $m (what C02 proves of both implementations); bitmapToArray is trusted; cardinality side conditions (roomOK, singleOK: consequences of n == |set|) are preconditions, not proved invariants.", CLAIMS["C01"][3])
CLAIMS["C02"] = (CLAIMS["C02"][0], CLAIMS["C02"][1] + " Added: n-coherence steps of all mutation kernels and the Bitmap-level point operations (see C01).", CLAIMS["C02"][2], CLAIMS["C02"][3])
BR = ("BOUNDED addition rcheck/roaring (labelled bounded, never counted as proved): model-based execution of the real Bitmap API against a set model over 16 construction flavours (slice/B-tree, optimized, mapped, frozen, cloned, imported, official-decoded, an Intersect result that keeps emptied containers ...) and boundary-heavy container keys/contents: every read, 24 set operations over all 9 container-type pairs, random mutation histories with all reads re-compared after each step, isolation of derived values, encode/decode round trips incl. a hand-written official-format encoder, op-log replay. ")
for _k in ("C01", "C02", "C03", "C04", "C05"):
    CLAIMS[_k] = (CLAIMS[_k][0], CLAIMS[_k][1] + " " + BR, CLAIMS[_k][2], CLAIMS[_k][3] + " + bounded stand-in")
CLAIMS["C05"] = (CLAIMS["C05"][0], CLAIMS["C05"][1] + " Also rcheck/fragment: after every sequence the fragment file (snapshot + op log) is decoded and compared with the in-memory bitmap.", CLAIMS["C05"][2], CLAIMS["C05"][3])
CLAIMS["C06"] = (CLAIMS["C06"][0], CLAIMS["C06"][1] + " Added under contract: the cluster-message entry (API.ClusterMessage, getMessage, markResizeInstructionComplete) and 20 protobuf decoders (see C27). BOUNDED additions: rcheck/roaring (rejected imports leave the bitmap unchanged; truncated official data is rejected; panics of every decode path are recorded) and rcheck/wire (Unmarshal of empty, random, truncated and bit-flipped bytes for all 28 message types never panics) and rcheck/cluster (resize-completion messages that arrive late, twice or for a finished job return within 3 s; schema messages naming an unknown index, field or view are answered with an error, not a panic).", CLAIMS["C06"][2], CLAIMS["C06"][3] + " + bounded stand-in")
CLAIMS["C25"] = (CLAIMS["C25"][0], CLAIMS["C25"][1] + " BOUNDED addition rcheck/stores: the real boltdb attribute store (standalone and through SetRowAttrs/SetColumnAttrs) under random SetAttrs/SetBulkAttrs histories, caller-side mutation of passed and returned maps, reopen, Blocks/BlockData/IndexAttrDiff, against a map model.", CLAIMS["C25"][2], CLAIMS["C25"][3] + " + bounded stand-in")

CLAIMS.update({
 "C08": ("exploration",
   "BOUNDED ONLY - restart behaviour is an I/O history over the data directory; no per-call contract expresses it. rcheck/restart: an in-process server is given a random schema (all field types and options, keys, trackExistence) and random acknowledged writes and schema deletions, is closed and reopened (once, and twice in a row), and schema, available shards and the answers of 150-400 read queries are compared before/after and against a map model; writes after the restart are included. Scripted cases add int fields around zero, a bulk ImportValue sent twice followed by ordinary writes, and attribute updates that empty an id.",
   "bounded exploration; nothing here is a proof.", "bounded stand-in"),
 "C30": ("exploration",
   "BOUNDED ONLY - export/import run through CLI commands, HTTP and encoding/csv. rcheck/csvio: random set-field contents (keys on/off, several shards with a gap, boundary offsets, keys with commas/quotes/Unicode/leading and trailing blanks; the export file pre-exists with longer stale content) are exported with the real ExportCommand and imported with the real ImportCommand into an empty field of the same options; bits and keys must be identical.",
   "bounded exploration; nothing here is a proof.", "bounded stand-in"),
})

NA = {
 "C08": "restart behaviour is an I/O history over the data directory (boltdb, files, protobuf meta); no per-call contract within the generator's subset expresses it, and no bounded stand-in was built",
 "C09": "crash points are positions in a file-system history, not a per-call notion; contract-based verification of single calls cannot decide it",
 "C22": "interleavings and liveness of the resize protocol: no per-call contract expresses them (DESIGN.md section 7)",
 "C24": "translate-store locking/restart/replication are histories over files and goroutines; not per-call",
 "C26": "the PEG parser is generated table-driven code outside the subset; formatter totality not under contract (a defect in Call.String found through the C17 bounded harness is recorded in known_findings.json)",
 "C27": "protobuf encode/decode goes through generated gogo-proto code and reflection-free but very large marshalers; field-coverage obligations not implemented",
 "C29": "data-race freedom and linearizability quantify over schedules; the generator models sequential execution only (mutexes are no-ops)",
 "C30": "behaviour lives in CLI/HTTP/csv libraries and process I/O; nothing to contract",
 "C31": "precedence is implemented by viper/cobra/pflag; a contract would restate library documentation",
}

def main():
    src = []
    try:
        out = subprocess.run(["git", "-C", "/repo", "log", "--format=%H %s"], capture_output=True, text=True).stdout
        for l in out.splitlines():
            h, s = l.split(" ", 1)
            if s.startswith("verif:"):
                src.append(h)
    except Exception:
        pass
    checks = []
    for pid in PROPS:
        if pid not in CLAIMS:
            continue
        level, text, note, tech = CLAIMS[pid]
        checks.append({
            "property_id": pid,
            "quick_cmd": f"cd /verif && ./bin/gocv check --prop {pid} --tier quick",
            "thorough_cmd": f"cd /verif && ./bin/gocv check --prop {pid} --tier thorough",
            "evidence_file": f"/verif/evidence/{pid}.json",
            "replay_cmd_template": "cat {path}",
            "engine": "gocv",
            "level_claimed": {"category": level, "text": text, "design_ref": f"DESIGN.md section 5, {pid}"},
            "level_note": note,
            "technique": tech,
        })
    na = [{"property_id": p, "reason": NA[p]} for p in PROPS if p not in CLAIMS]
    m = {
        "version": 1,
        "setup_cmd": "cd /verif && GOFLAGS=-mod=mod GOPROXY=off GOSUMDB=off GOTOOLCHAIN=local go build -o bin/gocv ./cmd/gocv",
        "hooks": {
            "guard": "verif",
            "enable": "-tags verif: the hook files are comment-only contract files verif_contracts*.go (package clause + //@ lines); gocv reads them as text next to the default-tag SSA of /repo's working tree",
            "baseline_off_cmd": "cd /repo && go test -mod=mod -json -vet=off -count=1 -timeout 25m ./...",
            "source_commits": src,
            "add_only": True,
        },
        "engines": [{"name": "gocv", "path": "/verif/cmd/gocv", "serves_properties": sorted(CLAIMS),
                     "kind_free_text": "weakest-precondition VC generator over go/ssa of /repo's working tree; contracts as //@ comments; obligations raced on z3-new / z3 / cvc5; sat models replayed with go test -overlay"}],
        "checks": checks,
        "not_applicable": na,
        "notes": "Claimed obligations are those of /verif/baseline/<id>.json (robustly discharged on the pinned tree); genuine defects found and repaired are recorded in /verif/known_findings.json.",
    }
    json.dump(m, open("/verif/MANIFEST.json", "w"), indent=1)
    print("MANIFEST.json:", len(checks), "checks,", len(na), "not applicable")

if __name__ == "__main__":
    main()
