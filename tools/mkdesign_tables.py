#!/usr/bin/env python3
"""Regenerates the generated tables of DESIGN.md section 10 (between <!-- gen:NAME --> markers)."""
import json, re, os
D = '/verif/DESIGN.md'
s = open(D).read()

def put(name, text):
    global s
    a, b = f'<!-- gen:{name} -->', f'<!-- /gen:{name} -->'
    if a not in s:
        s += f'\n{a}\n{b}\n'
    s = re.sub(re.escape(a) + r'.*?' + re.escape(b), lambda m: a + '\n' + text + '\n' + b, s, flags=re.S)

ff = json.load(open('/verif/known_findings.json'))['findings']
rows = ['| Prop | Found by (obligation / signature) | What failed | Failing input | Handling |', '|---|---|---|---|---|']
for f in ff:
    h = f"fixed in `{f.get('commit_hash','')}`" if f['status'] == 'fixed' else '**open finding** (printed as KNOWN-FINDING)'
    esc = lambda t: t.replace('|', '\\|').replace('\n', ' ')
    rows.append(f"| {f['property']} | `{esc(f['obligation'])}` | {esc(f['what'])} | {esc(f.get('input',''))} | {h} |")
put('findings', '\n'.join(rows))

if os.path.exists('/verif/seeded/results.json'):
    rr = json.load(open('/verif/seeded/results.json'))
    rows = ['| Seed | Change | Detected by | How |', '|---|---|---|---|']
    for r in rr:
        rows.append(f"| {r['id']} | {r['change']} | {r['detected_by']} | {r['how']} |")
    put('seeds', '\n'.join(rows))
open(D, 'w').write(s)
print('tables regenerated')
