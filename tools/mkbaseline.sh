#!/bin/bash
# Regenerates the claimed-obligation ledgers: an obligation is claimed when it is
# discharged quickly (< 30% of the quick timeout) in two consecutive runs.
# Also records the shape of the pinned tree (all obligation IDs, declared locals and
# ranged-over locals of the functions under contract), which the check uses to tell a
# renumbered or renamed site from a missing one.
cd /verif
for p in "$@"; do
  rm -f baseline/$p.json
  ./bin/gocv check --prop $p --strict --no-evidence --no-bounded --write-baseline >/dev/null 2>&1
  cp baseline/$p.json /tmp/base1.$p.json
  ./bin/gocv check --prop $p --strict --no-evidence --no-bounded --write-baseline >/dev/null 2>&1
  python3 - "$p" <<'PY'
import json,sys
p=sys.argv[1]
a=set(json.load(open(f'/tmp/base1.{p}.json'))); b=set(json.load(open(f'/verif/baseline/{p}.json')))
c=sorted(a&b)
json.dump(c,open(f'/verif/baseline/{p}.json','w'),indent=0)
print(p,len(a),len(b),'->',len(c))
PY
  ./bin/gocv check --prop $p --write-shape >/dev/null 2>&1
done
